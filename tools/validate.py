#!/usr/bin/env python3-vt
"""Validates MANIFEST.json and every evidence file against the schemas in /root/.vp."""
import json, glob, sys, jsonschema
bad = 0
try:
    jsonschema.validate(json.load(open('/verif/MANIFEST.json')), json.load(open('/root/.vp/MANIFEST.schema.json')))
    print("MANIFEST ok")
except Exception as e:
    print("MANIFEST INVALID:", e); bad += 1
es = json.load(open('/root/.vp/EVIDENCE.schema.json'))
for p in sorted(glob.glob('/verif/evidence/*.json')):
    try:
        jsonschema.validate(json.load(open(p)), es)
        print(p, "ok")
    except Exception as e:
        print(p, "INVALID:", str(e)[:300]); bad += 1
sys.exit(1 if bad else 0)
