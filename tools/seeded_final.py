#!/usr/bin/env python3
"""Final evaluation of the kept seeded mutants in /verif/seeded/<ID>-<n>/ against the current /repo and checks.

  tools/seeded_final.py [--only C01-1,C02-2] [--suite | --suite-only] [--extra C02-1=C04,...]

For each mutant (in a scratch copy of /repo under /tmp, removed afterwards):
  apply patch.diff; build with and without -tags verif; (--suite) run the repository's suite up to 3 times, a
  package counts as failing only if it fails all 3 times; run the demonstration with the mutant (must fail) and
  without (must pass); run the property's own check (quick tier) plus any extra checks named in meta.json
  "also_run"; write meta.json.
"""
import json, os, re, shutil, subprocess, sys, tempfile, glob, time
ENV = dict(os.environ, GOFLAGS="-mod=mod", GOPROXY="off", GOSUMDB="off", GOTOOLCHAIN="local")
ROOT = '/verif/seeded'

def sh(cmd, cwd, timeout=1800, env=None):
    p = subprocess.run(cmd, cwd=cwd, shell=isinstance(cmd, str), env=env or ENV, stdout=subprocess.PIPE, stderr=subprocess.STDOUT, text=True, timeout=timeout)
    return p.returncode, p.stdout

def copy_repo(dst):
    subprocess.run(["rsync", "-a", "--delete", "--exclude", ".git", "/repo/", dst + "/"], check=True)

def apply(diff, dst):
    rc, o = sh(["git", "apply", "--unsafe-paths", "--directory", dst, diff], "/")
    if rc != 0:
        rc, o = sh("patch -p1 -s --no-backup-if-mismatch < %s" % diff, dst)
    return rc == 0, o

def demo_cmds(ddir):
    run = os.path.join(ddir, "RUN.txt")
    text = open(run).read() if os.path.exists(run) else ""
    cmds = []
    for line in text.splitlines():
        m = re.search(r"(go (?:test|run) .+)$", line.strip())
        if not m or line.strip().startswith(("#", "//")):
            continue
        c = m.group(1)
        for cut in (" 2>&1", " | ", "   #", " ; ", "  (", " && ", "`"):
            c = c.split(cut)[0]
        c = c.rstrip("\\ ;").strip()
        if "./" in c and "_demo" not in c and c not in cmds:
            cmds.append(c)
    return cmds

PKGDIRS = None

def pkg_dir_for(repo, body, hint):
    """directory of the package a demo file belongs to: by its package clause (unique basename) or the command's path"""
    mm = re.search(r"^package (\w+)", body, re.M)
    want = mm.group(1).replace("_test", "") if mm else None
    cands = []
    for d, _, fs in os.walk(repo):
        if any(f.endswith(".go") for f in fs):
            for f in fs:
                if f.endswith(".go") and not f.startswith("zz_seed"):
                    try:
                        head = open(os.path.join(d, f)).read(4000)
                    except Exception:
                        continue
                    m2 = re.search(r"^package (\w+)", head, re.M)
                    if m2 and m2.group(1).replace("_test", "") == want:
                        cands.append(d)
                    break
    if hint and os.path.isdir(os.path.join(repo, hint)) and (os.path.join(repo, hint) in cands or not cands):
        return os.path.join(repo, hint)
    if len(cands) == 1:
        return cands[0]
    if hint and os.path.isdir(os.path.join(repo, hint)):
        return os.path.join(repo, hint)
    return cands[0] if cands else repo

def place_demo(ddir, repo, cmds):
    hints = []
    for cmd in cmds:
        m = re.search(r"\./([\w/.\-]+)", cmd or "")
        if m:
            h = m.group(1).rstrip("/.")
            if h.endswith("/..."): h = h[:-4]
            hints.append(h)
    for root, _, files in os.walk(ddir):
        for fn in files:
            if not fn.endswith(".go.txt"): continue
            src = os.path.join(root, fn)
            body = open(src).read()
            target = None
            # a hint whose package name matches the file's package clause wins
            mm = re.search(r"^package (\w+)", body, re.M)
            want = mm.group(1).replace("_test", "") if mm else ""
            for h in hints:
                if os.path.basename(h) == want or (want == "f1" and h.endswith("pkg/f1")) or (want == "testing" and h.endswith("f1/testing")):
                    target = os.path.join(repo, h); break
            if target is None:
                target = pkg_dir_for(repo, body, hints[0] if len(hints) == 1 else None)
            shutil.copy(src, os.path.join(target, fn[:-4]))

def main():
    args = sys.argv[1:]
    only, suite = None, False
    suite_only = False
    i = 0
    while i < len(args):
        if args[i] == "--only": only = set(args[i+1].split(",")); i += 1
        elif args[i] == "--suite": suite = True
        elif args[i] == "--suite-only": suite = suite_only = True
        i += 1
    for d in sorted(glob.glob(os.path.join(ROOT, "C*-*"))):
        name = os.path.basename(d)
        if only and name not in only: continue
        pid = name.split("-")[0]
        metap = os.path.join(d, "meta.json")
        meta = json.load(open(metap)) if os.path.exists(metap) else {}
        meta.update({"id": name, "breaks_property": pid})
        desc = os.path.join(d, "description.md")
        if os.path.exists(desc) and "needs_to_manifest" not in meta:
            text = open(desc).read()
            m = re.search(r"(?is)needs[^:\n]*:\s*(.+?)(?:\n\s*\n|\nWhy|\nExisting|$)", text)
            meta["needs_to_manifest"] = (m.group(1).strip().replace("\n", " ")[:600] if m else "see description.md")
        tmp = tempfile.mkdtemp(prefix="seedfinal-")
        ran = []
        try:
            mut, clean = os.path.join(tmp, "mut"), os.path.join(tmp, "clean")
            copy_repo(mut)
            ok, o = apply(os.path.join(d, "patch.diff"), mut)
            meta["applies_to_repo_head"] = ok
            ran.append("git apply patch.diff (scratch copy of /repo at %s)" % subprocess.run(["git","-C","/repo","rev-parse","--short","HEAD"],stdout=subprocess.PIPE,text=True).stdout.strip())
            if not ok:
                meta["apply_output"] = o[-400:]
                json.dump(meta, open(metap, "w"), indent=1); print(name, "DOES NOT APPLY"); continue
            rc, o = sh("go build ./... && go build -tags verif ./...", mut)
            meta["builds"] = rc == 0
            ran.append("go build ./... && go build -tags verif ./...")
            if rc != 0:
                meta["build_output"] = o[-400:]
                json.dump(meta, open(metap, "w"), indent=1); print(name, "DOES NOT BUILD"); continue
            if suite:
                fails = {}
                for k in range(3):
                    rc, o = sh("go test -vet=off -count=1 ./... 2>&1 | grep -E '^(FAIL|ok)\\s'", mut, timeout=1500)
                    bad = [l.split()[1] for l in o.splitlines() if l.startswith("FAIL\t")]
                    for b in bad: fails[b] = fails.get(b, 0) + 1
                    if not bad: break
                meta["existing_suite"] = {"runs": k + 1, "packages_failing_every_run": [p for p, n in fails.items() if n == 3],
                                          "packages_failing_some_run": [p for p, n in fails.items() if n < 3]}
                ran.append("go test -vet=off -count=1 ./... (up to 3 runs; load-sensitive tests flake on the unmodified tree too)")
                if suite_only:
                    meta.setdefault("what_was_run", []).append(ran[-1])
                    json.dump(meta, open(metap, "w"), indent=1)
                    print(name, "suite", meta["existing_suite"], flush=True)
                    continue
            cmds = demo_cmds(os.path.join(d, "demo"))
            meta["demo_command"] = cmds
            if cmds:
                copy_repo(clean)
                place_demo(os.path.join(d, "demo"), mut, cmds)
                place_demo(os.path.join(d, "demo"), clean, cmds)
                fails_mut, passes_clean = False, True
                for cmd in cmds:
                    rcm, om = sh(cmd, mut, timeout=900)
                    rcc, oc = sh(cmd, clean, timeout=900)
                    if rcm != 0 or "--- FAIL" in om: fails_mut = True
                    if rcc != 0 or "--- FAIL" in oc:
                        passes_clean = False
                        meta["demo_clean_output"] = oc[-600:]
                meta["demo_fails_with_mutant"] = fails_mut
                meta["demo_passes_without"] = passes_clean
                ran.append("demo with the mutant / on the unmodified tree: " + " ; ".join(cmds))
                copy_repo(mut); apply(os.path.join(d, "patch.diff"), mut)
            checks = [pid] + [c for c in meta.get("also_run", []) if c != pid]
            res = {}
            for c in checks:
                rc, o = sh(["/verif/check", c, "quick"], "/verif", timeout=7200, env=dict(ENV, VERIF_REPO=mut))
                viol = [l.strip() for l in o.splitlines() if "VERIF-VIOLATION" in l]
                res[c] = {"exit": rc, "first_violation": (viol[0][:500] if viol else "")}
                ran.append("VERIF_REPO=<scratch copy with the patch> ./check %s quick -> exit %d" % (c, rc))
            meta["checks"] = res
            meta["caught_by"] = [c for c, r in res.items() if r["exit"] == 1]
            meta["what_was_run"] = ran
            meta["evaluated_at"] = time.strftime("%Y-%m-%dT%H:%M:%SZ", time.gmtime())
        finally:
            shutil.rmtree(tmp, ignore_errors=True)
        json.dump(meta, open(metap, "w"), indent=1)
        print(name, "caught_by", meta.get("caught_by"), "demo", meta.get("demo_fails_with_mutant"), meta.get("demo_passes_without"), "suite", meta.get("existing_suite"))

if __name__ == "__main__":
    sys.exit(main())
