#!/usr/bin/env python3
"""Rewrites the `quick` column of the per-property table in DESIGN.md section 9.2 from /verif/evidence/<id>.json
(only when the evidence file is from a quick-tier run)."""
import json, re
def fmt(n):
    if n >= 1_000_000: return '%.1f M' % (n/1e6)
    if n >= 10_000: return '%d k' % round(n/1e3)
    if n >= 1000: return '%.1f k' % (n/1e3)
    return str(n)
s = open('/verif/DESIGN.md').read()
out = []
for line in s.split('\n'):
    m = re.match(r'^\| (C\d\d) \| (.*) \| ([^|]*) \| ([^|]*) \|$', line)
    if m and ' / ' in m.group(3):
        e = json.load(open('/verif/evidence/%s.json' % m.group(1)))
        if e.get('tier') == 'quick':
            c = e['coverage']
            q = '%s / %s / %d s' % (fmt(c['evaluations']), fmt(c['distinct_nontrivial']), round(e.get('wall_s', 0)))
            line = '| %s | %s | %s | %s |' % (m.group(1), m.group(2), q, m.group(4))
    out.append(line)
open('/verif/DESIGN.md', 'w').write('\n'.join(out))
