#!/usr/bin/env python3
"""tools/mkpatch.py <repo-relative-file> <old> <new>  -> unified diff on stdout (against /repo's working tree)"""
import sys, difflib
f, old, new = sys.argv[1], sys.argv[2], sys.argv[3]
src = open('/repo/' + f).read()
old = old.encode().decode('unicode_escape'); new = new.encode().decode('unicode_escape')
if src.count(old) != 1:
    sys.exit("pattern occurs %d times in %s" % (src.count(old), f))
dst = src.replace(old, new)
sys.stdout.writelines(difflib.unified_diff(src.splitlines(True), dst.splitlines(True), 'a/' + f, 'b/' + f))
