#!/usr/bin/env python3
"""Regenerates /verif/MANIFEST.json from harness/*/units.json (key "manifest") and tools/manifest_base.json."""
import json, os, re, subprocess, sys
ROOT = os.path.dirname(os.path.dirname(os.path.abspath(__file__)))
base = json.load(open(os.path.join(ROOT, "tools", "manifest_base.json")))
props = [json.loads(l)["id"] for l in open(os.path.join(ROOT, "properties.jsonl")) if l.strip()]
checks, na = [], []
engines = {}
for pid in props:
    up = os.path.join(ROOT, "harness", pid.lower(), "units.json")
    if not os.path.exists(up):
        na.append({"property_id": pid, "reason": base["pending_reason"]})
        continue
    u = json.load(open(up))
    m = u.get("manifest")
    if not m or u.get("not_applicable"):
        na.append({"property_id": pid, "reason": u.get("not_applicable") or base["pending_reason"]})
        continue
    c = {
        "property_id": pid,
        "quick_cmd": "./check %s quick" % pid,
        "thorough_cmd": "./check %s thorough" % pid,
        "evidence_file": "/verif/evidence/%s.json" % pid,
        "replay_cmd_template": "./check %s --replay {path}" % pid,
        "engine": m.get("engine", "rapid"),
        "level_claimed": {"category": u.get("level", "exploration"), "text": m["level_text"], "design_ref": "DESIGN.md section 5, " + pid},
        "level_note": m["level_note"],
        "technique": m["technique"],
    }
    checks.append(c)
    for e in m.get("engines", [c["engine"]]):
        engines.setdefault(e, []).append(pid)
out = {
    "version": 1,
    "setup_cmd": base["setup_cmd"],
    "hooks": base["hooks"],
    "engines": [dict(base["engines"][e], name=e, serves_properties=ps) for e, ps in engines.items() if e in base["engines"]],
    "checks": checks,
    "notes": base["notes"],
    "not_applicable": na,
}
# hook commits: every commit in /repo whose subject starts with "verif hooks:"
try:
    log = subprocess.run(["git", "-C", "/repo", "log", "--format=%H %s"], stdout=subprocess.PIPE, text=True).stdout
    out["hooks"]["source_commits"] = [l.split()[0] for l in log.splitlines() if l.split(" ", 1)[1].startswith("verif hooks:")][::-1]
except Exception:
    pass
json.dump(out, open(os.path.join(ROOT, "MANIFEST.json"), "w"), indent=1)
print("checks:", len(checks), "not_applicable:", len(na))
