#!/usr/bin/env python3
"""Collects the seeded mutants delivered in /tmp/seed-C*/ into /verif/seeded/<ID>-<n>/ (patch.diff, demo/, description.md, meta.json skeleton)."""
import json, os, re, shutil, glob, sys
ROOT='/verif/seeded'
os.makedirs(ROOT, exist_ok=True)
SRC = sys.argv[1] if len(sys.argv) > 1 else '/tmp/seed-C*'
OFFSET = int(sys.argv[2]) if len(sys.argv) > 2 else 0
for wt in sorted(glob.glob(SRC)):
    pid=re.search(r'C\d+', os.path.basename(wt)).group(0)
    for n in ('1','2'):
        diff=os.path.join(wt,'seed%s.diff'%n)
        if not os.path.exists(diff): continue
        d=os.path.join(ROOT,'%s-%d'%(pid,int(n)+OFFSET))
        os.makedirs(d, exist_ok=True)
        shutil.copy(diff, os.path.join(d,'patch.diff'))
        md=os.path.join(wt,'seed%s.md'%n)
        if os.path.exists(md): shutil.copy(md, os.path.join(d,'description.md'))
        demo=os.path.join(wt,'seed%s_demo'%n)
        dd=os.path.join(d,'demo')
        shutil.rmtree(dd, ignore_errors=True)
        if os.path.isdir(demo):
            shutil.copytree(demo, dd)
            # go.mod stubs / .go files would make `go` tooling see packages inside /verif: rename
            for root,_,files in os.walk(dd):
                for fn in files:
                    if fn=='go.mod': os.remove(os.path.join(root,fn))
                    elif fn.endswith('.go'): os.rename(os.path.join(root,fn), os.path.join(root,fn+'.txt'))
        print('collected',pid,n)
