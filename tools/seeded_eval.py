#!/usr/bin/env python3
"""Evaluate one seeded mutant delivered by a seeding sub-agent.

  tools/seeded_eval.py <worktree> <n> [--checks C01,C05] [--tier quick] [--skip-suite] [--keep]

Steps (all in a scratch copy of /repo under /tmp, removed afterwards; /repo is never touched):
  1. copy /repo, apply <worktree>/seed<n>.diff, build with and without the verif tag;
  2. run the repository's own suite on the mutant (failing packages are re-run twice: only
     packages failing 3/3 count as "suite fails");
  3. run the demonstration with the mutant (must fail) and on a clean copy (must pass):
     the test files under seed<n>_demo/ are copied to the package directory named in the
     `package` line of RUN.txt or guessed from the go test command it contains;
  4. run the listed checks (default: the property the worktree was made for) against the mutant
     through VERIF_REPO, and report which reported a VIOLATION.
Prints a JSON summary on the last line.
"""
import json
import os
import re
import shutil
import subprocess
import sys
import tempfile

ENV = dict(os.environ, GOFLAGS="-mod=mod", GOPROXY="off", GOSUMDB="off", GOTOOLCHAIN="local")


def sh(cmd, cwd, timeout=1800, env=None):
    p = subprocess.run(cmd, cwd=cwd, shell=isinstance(cmd, str), env=env or ENV, stdout=subprocess.PIPE,
                       stderr=subprocess.STDOUT, text=True, timeout=timeout)
    return p.returncode, p.stdout


def copy_repo(dst):
    subprocess.run(["rsync", "-a", "--exclude", ".git", "/repo/", dst + "/"], check=True)


def find_demo_cmd(demo_dir):
    run = os.path.join(demo_dir, "RUN.txt")
    text = open(run).read() if os.path.exists(run) else ""
    cmds = []
    for line in text.splitlines():
        l = line.strip().lstrip("$ ").strip()
        if l.startswith("go test") or l.startswith("go run"):
            cmds.append(l)
        m = re.search(r"(go (?:test|run) [^`]+)", line)
        if m and not cmds:
            cmds.append(m.group(1).strip())
    return text, cmds


def place_demo(demo_dir, repo, cmd):
    """copy demo *_test.go / *.go files into the package dir the command targets"""
    pkg = None
    m = re.search(r"\./([\w/.\-]+)", cmd)
    if m:
        pkg = m.group(1).rstrip("/").rstrip(".").rstrip("/")
        if pkg.endswith("/..."):
            pkg = pkg[:-4]
    placed = []
    for root, _, files in os.walk(demo_dir):
        for fn in files:
            if not fn.endswith(".go"):
                continue
            rel = os.path.relpath(root, demo_dir)
            if rel != "." and os.path.isdir(os.path.join(repo, rel)):
                target = os.path.join(repo, rel)
            elif pkg and os.path.isdir(os.path.join(repo, pkg)):
                target = os.path.join(repo, pkg)
            else:
                # package clause decides
                src = open(os.path.join(root, fn)).read()
                target = None
                mm = re.search(r"^package (\w+)", src, re.M)
                if mm:
                    name = mm.group(1).replace("_test", "")
                    for d, _, fs in os.walk(repo):
                        if os.path.basename(d) == name and any(f.endswith(".go") for f in fs):
                            target = d
                            break
                if target is None:
                    target = repo
            shutil.copy(os.path.join(root, fn), os.path.join(target, fn))
            placed.append(os.path.join(target, fn))
    return placed


def main():
    args = sys.argv[1:]
    wt, n = args[0], args[1]
    checks, tier, skip_suite, keep = None, "quick", False, False
    i = 2
    while i < len(args):
        if args[i] == "--checks":
            checks = args[i + 1].split(",")
            i += 1
        elif args[i] == "--tier":
            tier = args[i + 1]
            i += 1
        elif args[i] == "--skip-suite":
            skip_suite = True
        elif args[i] == "--keep":
            keep = True
        i += 1
    pid = re.search(r"C\d+", os.path.basename(wt.rstrip("/"))).group(0)
    if checks is None:
        checks = [pid]
    diff = os.path.join(wt, "seed%s.diff" % n)
    demo_dir = os.path.join(wt, "seed%s_demo" % n)
    out = {"worktree": wt, "seed": n, "property": pid}
    tmp = tempfile.mkdtemp(prefix="seedeval-")
    try:
        mut, clean = os.path.join(tmp, "mut"), os.path.join(tmp, "clean")
        copy_repo(mut)
        rc, o = sh(["git", "apply", "--unsafe-paths", "--directory", mut, diff], "/")
        if rc != 0:
            rc, o = sh("patch -p1 -s < %s" % diff, mut)
        out["applies"] = rc == 0
        if rc != 0:
            out["apply_output"] = o[-600:]
            print(json.dumps(out))
            return 1
        rc1, o1 = sh("go build ./... && go build -tags verif ./... && go vet -tags verif ./internal/... >/dev/null 2>&1; true", mut)
        rc1, o1 = sh("go build ./... && go build -tags verif ./...", mut)
        out["builds"] = rc1 == 0
        if rc1 != 0:
            out["build_output"] = o1[-600:]
            print(json.dumps(out))
            return 1
        if not skip_suite:
            rc, o = sh("go test -vet=off -count=1 ./... 2>&1 | grep -E '^(FAIL|ok)\\s' ", mut, timeout=1500)
            failing = [l.split()[1] for l in o.splitlines() if l.startswith("FAIL\t")]
            persistent = []
            for pkg in failing:
                bad = 1
                for _ in range(2):
                    r, _o = sh(["go", "test", "-vet=off", "-count=1", pkg], mut, timeout=900)
                    if r != 0:
                        bad += 1
                if bad == 3:
                    persistent.append(pkg)
            out["suite_first_run_failing"] = failing
            out["suite_persistently_failing"] = persistent
        text, cmds = find_demo_cmd(demo_dir)
        out["demo_cmds"] = cmds
        if cmds:
            cmd = cmds[0]
            copy_repo(clean)
            place_demo(demo_dir, mut, cmd)
            place_demo(demo_dir, clean, cmd)
            rcm, om = sh(cmd, mut, timeout=900)
            rcc, oc = sh(cmd, clean, timeout=900)
            out["demo_fails_with_mutant"] = rcm != 0
            out["demo_passes_clean"] = rcc == 0
            if rcm == 0 or rcc != 0:
                out["demo_output_mutant"] = om[-500:]
                out["demo_output_clean"] = oc[-500:]
            # remove the demo from the mutant before running the checks
            shutil.rmtree(mut)
            copy_repo(mut)
            rc, o = sh(["git", "apply", "--unsafe-paths", "--directory", mut, diff], "/")
            if rc != 0:
                sh("patch -p1 -s < %s" % diff, mut)
        res = {}
        for c in checks:
            env = dict(ENV, VERIF_REPO=mut)
            rc, o = sh(["/verif/check", c, tier], "/verif", timeout=7200, env=env)
            viol = [l for l in o.splitlines() if "VERIF-VIOLATION" in l]
            res[c] = {"rc": rc, "first_violation": (viol[0].strip()[:400] if viol else ""),
                      "status_lines": [l for l in o.splitlines() if re.match(r"^(OK|VIOLATION|INFRA)", l)][:4]}
        out["checks"] = res
        out["caught_by"] = [c for c, r in res.items() if r["rc"] == 1]
    finally:
        if not keep:
            shutil.rmtree(tmp, ignore_errors=True)
    print(json.dumps(out))
    return 0


if __name__ == "__main__":
    sys.exit(main())
