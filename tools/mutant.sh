#!/bin/bash
# usage: tools/mutant.sh <patch-file> <ID> [tier]   -- run a check against a scratch copy of /repo with a patch applied
# (sensitivity experiments; nothing in /repo is touched). Scratch copy lives under /tmp and is removed afterwards.
set -u
patch=$(readlink -f "$1"); id=$2; tier=${3:-quick}
d=$(mktemp -d /tmp/mutant-XXXXXX)
trap 'rm -rf "$d"' EXIT
rsync -a --exclude .git /repo/ "$d/repo/"
( cd "$d/repo" && patch -p1 -s < "$patch" ) || { echo "PATCH FAILED"; exit 3; }
( cd "$d/repo" && GOFLAGS=-mod=mod go build ./... ) || { echo "MUTANT DOES NOT BUILD"; exit 3; }
cd /verif && VERIF_REPO="$d/repo" ./check "$id" "$tier" 2>"$d/err.log"
rc=$?
grep -E "VERIF-VIOLATION" "$d/err.log" | head -3
echo "mutant rc=$rc"
exit $rc
