#!/usr/bin/env python3
"""Prints the markdown table of seeded mutants from /verif/seeded/*/meta.json."""
import json, glob, os
print("| id | what was changed | needs, to manifest | demo fails with / passes without | suite | caught by (quick tier) |")
print("|---|---|---|---|---|---|")
for d in sorted(glob.glob('/verif/seeded/C*-*')):
    mp=os.path.join(d,'meta.json')
    if not os.path.exists(mp): continue
    m=json.load(open(mp))
    desc=''
    dp=os.path.join(d,'description.md')
    if os.path.exists(dp):
        lines=[l.strip() for l in open(dp).read().splitlines() if l.strip()]
        desc=(lines[0].lstrip('# ') if lines else '')[:160]
    suite=m.get('existing_suite') or {}
    st='passes' if suite and not suite.get('packages_failing_every_run') else ('FAILS: %s'%suite.get('packages_failing_every_run') if suite else 'n/a')
    needs=(m.get('needs_to_manifest') or '')[:220].replace('|','/')
    print("| %s | %s | %s | %s / %s | %s | %s |"%(m['id'],desc.replace('|','/'),needs,m.get('demo_fails_with_mutant'),m.get('demo_passes_without'),st,", ".join(m.get('caught_by') or []) or (", ".join(m.get('caught_by_thorough') or []) + " (thorough tier only)" if m.get('caught_by_thorough') else '**none**')))
