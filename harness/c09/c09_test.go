package c09

import (
	"context"
	"fmt"
	"sort"
	"strings"
	"sync"
	"sync/atomic"
	"testing"
	"time"

	"pgregory.net/rapid"

	"github.com/form3tech-oss/f1/v2/internal/options"
	"github.com/form3tech-oss/f1/v2/internal/trigger/api"
	"github.com/form3tech-oss/f1/v2/internal/trigger/constant"
	"github.com/form3tech-oss/f1/v2/internal/trigger/gaussian"
	"github.com/form3tech-oss/f1/v2/internal/trigger/ramp"
	"github.com/form3tech-oss/f1/v2/internal/trigger/staged"
	"github.com/form3tech-oss/f1/v2/internal/ui"
	"github.com/form3tech-oss/f1/v2/internal/workers"
	f1testing "github.com/form3tech-oss/f1/v2/pkg/f1/testing"
	"github.com/form3tech-oss/f1/v2/verifharness/vlib"
)

var stats = vlib.NewStats("C09")

func TestMain(m *testing.M) { vlib.Main(m, stats) }

const slack = 100 * time.Microsecond

type evaluation struct {
	At      time.Duration // monotonic, relative to the start of the case
	Value   int
	CtxLive bool // the trigger's context was live when the evaluation was entered
}

// ---- engine "wrapped": the rate function handed to NewIterationWorker is wrapped -------------

type cadenceCase struct {
	IntervalUs int // tick interval in microseconds (fractions of a millisecond included)
	IntervalMs int
	RunMs      int
	Profile    string // constant | staged | zero
	N          int
	Stages     string
	Dist       string
	Conc       int
	BodyUs     int
	Limit      uint64 // max-iterations of the run (0 = none); chosen so that it cannot be reached
	StallAt    int    // the rate function holds the ticking goroutine up at this evaluation (0 = never) ...
	StallPct   int    // ... for this many percent of an interval
	Special    string // "" | "limit-above-reach" | "huge-ticks" | "limit-reached-while-dropping"
}

func (c cadenceCase) desc() string {
	return fmt.Sprintf("interval=%dus(+%dms) run=%dms profile=%s n=%d stages=%q dist=%s c=%d body=%dus limit=%d %s", c.IntervalUs, c.IntervalMs, c.RunMs, c.Profile, c.N, c.Stages, c.Dist, c.Conc, c.BodyUs, c.Limit, c.Special) + fmt.Sprintf(" stall=%d%%@%d", c.StallPct, c.StallAt)
}

func TestProp_WrappedRateCadence(t *testing.T) {
	dir := t.TempDir()
	rapid.Check(t, func(rt *rapid.T) {
		c := cadenceCase{
			IntervalMs: rapid.OneOf(rapid.IntRange(2, 20), rapid.IntRange(2, 250), rapid.IntRange(101, 250)).Draw(rt, "intervalMs"),
			IntervalUs: rapid.SampledFrom([]int{0, 0, 0, 100, 500, 900}).Draw(rt, "intervalExtraMicros"),
			RunMs:      rapid.OneOf(rapid.IntRange(50, 300), rapid.IntRange(50, 1200)).Draw(rt, "runMs"),
			Profile:    rapid.SampledFrom([]string{"constant", "constant", "staged", "zero", "ramp", "gaussian"}).Draw(rt, "profile"),
			N:          rapid.IntRange(1, 30).Draw(rt, "n"),
			Dist:       rapid.SampledFrom([]string{"none", "none", "regular", "random"}).Draw(rt, "distribution"),
			Conc:       rapid.OneOf(rapid.IntRange(1, 4), rapid.IntRange(1, 64), rapid.SampledFrom([]int{2000, 10000, 30000})).Draw(rt, "concurrency"),
			BodyUs:     rapid.SampledFrom([]int{0, 100, 2000}).Draw(rt, "bodyMicros"),
		}
		switch rapid.IntRange(0, 9).Draw(rt, "special") {
		case 0:
			// a max-iterations limit that the run cannot reach (at most Conc*(run/body+1) = 8 iterations
			// can start) but that every tick's request exceeds: the limit must not alter what a tick
			// requests - everything not started is recorded as dropped
			c.Special = "limit-above-reach"
			c.Profile, c.Dist = "constant", "none"
			c.Conc = rapid.IntRange(1, 2).Draw(rt, "concSmall")
			c.BodyUs = 150000
			c.RunMs = rapid.IntRange(50, 300).Draw(rt, "runMsShort")
			c.Limit = uint64(rapid.IntRange(10, 40).Draw(rt, "limit"))
			c.N = int(c.Limit) + rapid.IntRange(1, 30).Draw(rt, "aboveLimit")
		case 2:
			// the max-iterations limit is reached while tick after tick supersedes a backlog of tens of
			// thousands of requests (one worker, bodies of 5-40 ms, ticks every 20 ms): what a tick
			// superseded is reported dropped as a whole, or - once the limit has been reached - not at all
			c.Special = "limit-reached-while-dropping"
			c.Profile, c.Dist = "constant", "none"
			c.Conc = 1
			c.BodyUs = rapid.IntRange(5000, 40000).Draw(rt, "bodyMicrosLong")
			c.IntervalMs = 20
			c.RunMs = 400
			c.Limit = uint64(rapid.IntRange(2, 6).Draw(rt, "smallLimit"))
			c.N = rapid.SampledFrom([]int{60000, 150000}).Draw(rt, "hugeN")
		case 1:
			// ticks far larger than the pool: thousands of requests are dropped per tick, and all of them
			// must be in the totals the run reports
			c.Special = "huge-ticks"
			c.Profile, c.Dist = "constant", "none"
			c.Conc = rapid.IntRange(1, 4).Draw(rt, "concSmall")
			c.BodyUs = 2000
			c.IntervalMs = rapid.IntRange(20, 100).Draw(rt, "intervalMsHuge")
			c.RunMs = rapid.IntRange(50, 300).Draw(rt, "runMsShort")
			c.N = rapid.SampledFrom([]int{1500, 5000, 20000, 60000}).Draw(rt, "hugeN")
		}
		if c.IntervalMs <= 40 && rapid.IntRange(0, 2).Draw(rt, "stall") == 0 {
			// a scheduling delay of the ticking goroutine of several intervals, made certain: ticks are
			// dropped meanwhile; what is evaluated afterwards is still handed over evaluation by evaluation
			c.StallAt = rapid.IntRange(1, 6).Draw(rt, "stallAtEvaluation")
			c.StallPct = rapid.IntRange(160, 450).Draw(rt, "stallPercentOfInterval")
		}
		var rates *api.Rates
		var err error
		c.IntervalUs += 1000 * c.IntervalMs
		unit := fmt.Sprintf("%dus", c.IntervalUs)
		tick := time.Duration(c.IntervalUs) * time.Microsecond
		switch c.Profile {
		case "constant":
			rates, err = constant.CalculateConstantRate(0, fmt.Sprintf("%d/%s", c.N, unit), c.Dist)
		case "zero":
			c.N = 0
			rates, err = constant.CalculateConstantRate(0, fmt.Sprintf("0/%s", unit), c.Dist)
		case "ramp":
			a := rapid.IntRange(0, c.N).Draw(rt, "rampStart")
			b := rapid.IntRange(0, c.N).Draw(rt, "rampEnd")
			if a == b {
				b = a + 1
			}
			c.Stages = fmt.Sprintf("ramp %d->%d", a, b)
			rates, err = ramp.CalculateRampRate(fmt.Sprintf("%d/%s", a, unit), fmt.Sprintf("%d/%s", b, unit), c.Dist,
				max(time.Duration(c.RunMs)*time.Millisecond, tick), 0)
		case "gaussian":
			// a window of 20 ticks around "now"; the bell is wide so most ticks request something
			repeat := 20 * tick
			c.Stages = fmt.Sprintf("gaussian repeat=%s", repeat)
			rates, err = gaussian.CalculateGaussianRate(float64(20*c.N), 0, repeat, tick,
				repeat/2, repeat, "", c.Dist)
		case "staged":
			var parts []string
			parts = append(parts, fmt.Sprintf("0s:%d", rapid.IntRange(0, c.N).Draw(rt, "t0")))
			for i := 0; i < 3; i++ {
				parts = append(parts, fmt.Sprintf("%dms:%d", rapid.IntRange(20, 400).Draw(rt, "stageMs"), rapid.IntRange(0, c.N).Draw(rt, "target")))
			}
			c.Stages = strings.Join(parts, ",")
			rates, err = staged.CalculateStagedRate(0, tick, c.Stages, c.Dist, nil)
		}
		if err != nil {
			rt.Fatalf("VERIF-INFRA: cannot build rates for %s: %v", c.desc(), err)
		}
		interval := rates.IterationDuration

		base := time.Now()
		var mu sync.Mutex
		var evals []evaluation
		var order []byte // 'E' = an evaluation returned, 'T' = a request was handed to the pool under a live context
		var trigCtx atomic.Pointer[context.Context]
		var firstEntry atomic.Int64
		var entries atomic.Int64
		wrapped := func(now time.Time) int {
			at := time.Since(base)
			live := true
			if p := trigCtx.Load(); p != nil {
				live = (*p).Err() == nil
			}
			v := rates.Rate(now)
			mu.Lock()
			evals = append(evals, evaluation{At: at, Value: v, CtxLive: live})
			order = append(order, 'E')
			n := len(evals)
			mu.Unlock()
			if c.StallAt > 0 && n == c.StallAt+1 {
				time.Sleep(tick * time.Duration(c.StallPct) / 100)
			}
			return v
		}
		removeHook := vlib.InstallGates(func(point string) {
			if point == "pool.trigger.after_ctx_check" {
				mu.Lock()
				order = append(order, 'T')
				mu.Unlock()
			}
		})
		defer removeHook()
		inner := api.NewIterationWorker(interval, wrapped)
		trig := &api.Trigger{
			Trigger: func(ctx context.Context, out *ui.Output, w *workers.PoolManager, o options.RunOptions) {
				trigCtx.Store(&ctx)
				inner(ctx, out, w, o)
			},
			DryRun:      wrapped,
			Description: "wrapped",
		}
		scenario := func(*f1testing.T) f1testing.RunFn {
			return func(*f1testing.T) {
				entries.Add(1)
				firstEntry.CompareAndSwap(0, int64(time.Since(base))+1)
				if c.BodyUs > 0 {
					time.Sleep(time.Duration(c.BodyUs) * time.Microsecond)
				}
			}
		}
		spec := &vlib.RunSpec{Mode: "constant", FileDir: dir, ScenarioFn: scenario, Trigger: trig, WaitTimeout: 20 * time.Second}
		spec.Opts.Concurrency = c.Conc
		spec.Opts.MaxDuration = time.Duration(c.RunMs) * time.Millisecond
		spec.Opts.IgnoreDropped = true
		spec.Opts.MaxIterations = c.Limit
		// one run in five is ended by the caller's cancellation instead of max-duration: whatever the last
		// accepted tick requested and nobody started is dropped all the same
		cancelAt := 0
		if rapid.IntRange(0, 4).Draw(rt, "endByCancel") == 0 {
			cancelAt = rapid.IntRange(5, c.RunMs).Draw(rt, "cancelAtMs")
			ctx, cancel := context.WithCancel(context.Background())
			defer cancel()
			spec.Ctx = ctx
			spec.Opts.MaxDuration = 5 * time.Second
			go func() {
				time.Sleep(time.Duration(cancelAt) * time.Millisecond)
				cancel()
			}()
		}
		out, err := vlib.Execute(spec)
		if err != nil {
			rt.Fatalf("VERIF-INFRA: %v", err)
		}
		snap := out.Result.Snapshot()
		started := snap.SuccessfulIterationDurations.Count + snap.FailedIterationDurations.Count
		total := started + snap.DroppedIterationCount
		if c.Special == "limit-reached-while-dropping" {
			cls := []string{c.Special}
			stats.Case("wrapped", c.desc(), started == c.Limit, cls, func() any {
				return map[string]any{"case": c.desc(), "started": started, "dropped": snap.DroppedIterationCount}
			})
			if started > c.Limit {
				rt.Fatalf("VERIF-VIOLATION C09: %d iterations started with max-iterations %d (%s)", started, c.Limit, c.desc())
			}
			// every reported tick contributes n minus what was started from it: dropped = k*n - s, 0 <= s <= limit
			n := uint64(c.N)
			if r := snap.DroppedIterationCount % n; r != 0 && r < n-c.Limit {
				rt.Fatalf("VERIF-VIOLATION C09: every tick requested %d; %d started (max-iterations %d) and %d were reported dropped - that is %d whole ticks plus %d: a superseded tick's leftover was reported in part (%s)",
					c.N, started, c.Limit, snap.DroppedIterationCount, snap.DroppedIterationCount/n, r, c.desc())
			}
			return
		}
		if c.Limit > 0 && started >= c.Limit {
			rt.Fatalf("VERIF-INFRA: %d iterations started although the case was built so that max-iterations %d is out of reach (%s)", started, c.Limit, c.desc())
		}
		removeHook()
		mu.Lock()
		ev := append([]evaluation{}, evals...)
		ord := string(order)
		mu.Unlock()

		sum := 0
		for _, e := range ev {
			sum += e.Value
		}
		nontrivial := len(ev) >= 3 && sum > 0
		cls := []string{"profile-" + c.Profile, "dist-" + c.Dist}
		if snap.DroppedIterationCount > 0 {
			cls = append(cls, "with-drops")
		}
		if c.IntervalUs%1000 != 0 {
			cls = append(cls, "interval-with-sub-millisecond-part")
		}
		if c.Conc >= 2000 {
			cls = append(cls, "slow-pool-start-up")
		}
		if interval != tick {
			cls = append(cls, "distributed-subticks")
		}
		if c.Special != "" {
			cls = append(cls, c.Special)
		}
		if cancelAt > 0 {
			cls = append(cls, "ended-by-cancel")
		}
		if c.StallAt > 0 && len(ev) > c.StallAt+1 {
			cls = append(cls, "ticking-goroutine-held-up")
		}
		stats.Case("wrapped", c.desc(), nontrivial, cls, func() any {
			return map[string]any{"case": c.desc(), "evaluations": len(ev), "requested": sum, "started": started, "dropped": snap.DroppedIterationCount}
		})
		fail := func(format string, args ...any) {
			rt.Fatalf("VERIF-VIOLATION C09: "+format+"\ncase: %s\nevaluations: %v", append(args, c.desc(), ev)...)
		}
		if len(ev) == 0 {
			fail("the rate was never evaluated")
		}
		// one evaluation at once, then at most one per interval
		for n := 1; n < len(ev); n++ {
			if min := time.Duration(n) * interval; ev[n].At-ev[0].At+slack < min {
				fail("evaluation #%d came %s after the first one; at most 1 + floor(e/interval) evaluations are allowed by elapsed time e, i.e. #%d not before %s (interval %s)",
					n, ev[n].At-ev[0].At, n, min, interval)
			}
		}
		// each evaluation's value is THAT tick's request: between two evaluations entered under a live
		// context the first one's value has been handed to the pool (one request per evaluation, never
		// several evaluations folded into one request)
		k := 0
		for i := 0; i+1 < len(ord); i++ {
			if ord[i] == 'E' {
				if ord[i+1] == 'E' && k+1 < len(ev) && ev[k+1].CtxLive {
					fail("evaluations #%d and #%d follow each other without the first one's value having been handed to the worker pool in between (order of evaluations E and hand-overs T: %s)", k, k+1, ord)
				}
				k++
			}
		}
		if fe := firstEntry.Load(); fe != 0 && time.Duration(fe-1) < ev[0].At {
			fail("an iteration started at %s, before the first rate evaluation at %s", time.Duration(fe-1), ev[0].At)
		}
		// each evaluation's value is that tick's request, unchanged: started + dropped is the sum of the
		// values of the evaluations whose hand-over was accepted - a prefix that contains every evaluation
		// followed by another one entered under a live context.
		last := -1
		for i, e := range ev {
			if e.CtxLive {
				last = i
			}
		}
		prefix := 0
		ok := false
		var candidates []int
		for m := -1; m < len(ev); m++ {
			if m >= 0 {
				prefix += ev[m].Value
			}
			if m >= last-1 {
				candidates = append(candidates, prefix)
				if uint64(prefix) == total {
					ok = true
				}
			}
		}
		if !ok {
			fail("the evaluations request %v iterations (admissible prefix sums, depending on where triggering stopped) but %d started + %d dropped = %d",
				candidates, started, snap.DroppedIterationCount, total)
		}
	})
}

// ---- engine "blackbox": the builders' own wiring of interval and rate function ---------------

func TestProp_BuilderWiring(t *testing.T) {
	dir := t.TempDir()
	rapid.Check(t, func(rt *rapid.T) {
		shape := vlib.GenShape(rt, vlib.ShapeOpts{Modes: []string{"constant", "staged", "ramp"}, MaxConcurrency: 64, MinDur: 80 * time.Millisecond, MaxDur: 500 * time.Millisecond, MaxPerTick: 12})
		var mu sync.Mutex
		var entryTimes []time.Duration
		var tDo time.Time
		scenario := func(*f1testing.T) f1testing.RunFn {
			return func(*f1testing.T) {
				at := time.Since(tDo)
				mu.Lock()
				entryTimes = append(entryTimes, at)
				mu.Unlock()
			}
		}
		spec := shape.Spec(dir)
		spec.ScenarioFn = scenario
		spec.WaitTimeout = 20 * time.Second
		// one case in three through the public entry point (the CLI's flag set feeding the builder)
		viaCLI := rapid.IntRange(0, 2).Draw(rt, "viaCLI") == 0
		// ... and of those, one in three as the SECOND command of one F1 instance, with the trigger flags
		// omitted: the documented defaults (constant: 1 iteration per second) apply, whatever the
		// command before asked for
		defaults := viaCLI && shape.Mode == "constant" && rapid.IntRange(0, 2).Draw(rt, "defaultsAfterEarlierCommand") == 0
		var err error
		if defaults {
			var judging atomic.Bool
			app := vlib.NewCLIApp(func(st *f1testing.T) f1testing.RunFn {
				fn := scenario(st)
				return func(it *f1testing.T) {
					if judging.Load() {
						fn(it)
					}
				}
			})
			_ = app.ExecuteWithArgs([]string{"run", "constant", vlib.ScenarioName, "-v", "--rate", "7/10ms", "--distribution", "none", "--max-duration", "60ms", "--concurrency", "8", "--ignore-dropped"})
			judging.Store(true)
			shape.PerTick, shape.TickInterval = 1, time.Second
			shape.Desc = "constant, trigger flags omitted (defaults: 1/s), after `--rate 7/10ms --distribution none` on the same F1 instance"
			tDo = time.Now()
			_ = app.ExecuteWithArgs([]string{"run", "constant", vlib.ScenarioName, "-v", "--max-duration", "1100ms", "--concurrency", "8", "--ignore-dropped"})
		} else if viaCLI {
			tDo = time.Now()
			_, err = vlib.ExecuteCLI(spec)
		} else {
			tDo = time.Now()
			_, err = vlib.Execute(spec)
		}
		if err != nil {
			rt.Fatalf("VERIF-INFRA: cannot execute %s: %v", shape.Desc, err)
		}
		mu.Lock()
		times := append([]time.Duration{}, entryTimes...)
		mu.Unlock()
		sort.Slice(times, func(i, j int) bool { return times[i] < times[j] })
		ticksNeeded := 0
		if n := len(times); n > 0 && shape.PerTick > 0 {
			ticksNeeded = (n + shape.PerTick - 1) / shape.PerTick
		}
		cls := []string{"mode-" + shape.Mode}
		if viaCLI {
			cls = append(cls, "through-the-cli")
		}
		if defaults {
			cls = append(cls, "defaults-after-an-earlier-command")
		}
		stats.Case("blackbox", shape.Desc, ticksNeeded >= 3, cls, func() any {
			return map[string]any{"shape": shape.Desc, "iterations": len(times), "ticks_needed": ticksNeeded}
		})
		// the m-th iteration (1-based) needs at least ceil(m/maxPerTick) evaluations, the last of which
		// cannot happen before (ceil(m/maxPerTick)-1) intervals after the run began
		for i, at := range times {
			m := i + 1
			need := (m + shape.PerTick - 1) / shape.PerTick
			if earliest := time.Duration(need-1) * shape.TickInterval; at+slack < earliest {
				rt.Fatalf("VERIF-VIOLATION C09: iteration #%d started %s after the run began; with at most %d requests per tick it needs %d evaluations, the last not before %s (interval %s): more load than the configured profile allows\ncase: %s",
					m, at, shape.PerTick, need, earliest, shape.TickInterval, shape.Desc)
			}
		}
	})
}
