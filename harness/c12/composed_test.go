package c12

import (
	"fmt"
	"testing"
	"time"

	"pgregory.net/rapid"

	"github.com/form3tech-oss/f1/v2/internal/trigger/api"
	"github.com/form3tech-oss/f1/v2/internal/trigger/constant"
	"github.com/form3tech-oss/f1/v2/internal/trigger/gaussian"
	"github.com/form3tech-oss/f1/v2/internal/trigger/ramp"
	"github.com/form3tech-oss/f1/v2/internal/trigger/staged"
)

// Engine "composed": the distribution as the triggers compose it with jitter. Every rate-driven
// trigger spreads the JITTERED rate (one varied value per cycle), so with the regular distribution a
// cycle stays even - its N sub-tick values differ by at most 1 - however large the jitter; values are
// never negative for any distribution. (The exact per-cycle sum is not observable from outside here:
// the jittered value of a cycle is only seen through its parts; NewDistribution's own conservation is
// the other engines' business.)
func TestProp_ComposedWithJitter(t *testing.T) {
	rapid.Check(t, func(rt *rapid.T) {
		mode := rapid.SampledFrom([]string{"constant", "staged", "ramp", "gaussian"}).Draw(rt, "mode")
		n := rapid.OneOf(rapid.IntRange(2, 12), rapid.IntRange(2, 100)).Draw(rt, "N")
		interval := time.Duration(n)*subTick + time.Duration(rapid.SampledFrom([]int64{0, 0, 1, 50_000_000, 99_999_999}).Draw(rt, "extraNs"))
		jitter := rapid.SampledFrom([]float64{0.5, 2, 20, 50, 80, 99}).Draw(rt, "jitter")
		dist := rapid.SampledFrom([]string{"regular", "regular", "regular", "random"}).Draw(rt, "distribution")
		a := rapid.OneOf(rapid.IntRange(0, 3*n), rapid.IntRange(0, 100000)).Draw(rt, "rateA")
		b := rapid.OneOf(rapid.IntRange(0, 3*n), rapid.IntRange(0, 100000)).Draw(rt, "rateB")
		cycles := rapid.IntRange(3, 12).Draw(rt, "cycles")
		var rates *api.Rates
		var err error
		unit := interval.String()
		switch mode {
		case "constant":
			rates, err = constant.CalculateConstantRate(jitter, fmt.Sprintf("%d/%s", a, unit), dist)
		case "staged":
			rates, err = staged.CalculateStagedRate(jitter, interval, fmt.Sprintf("0s:%d,%s:%d", a, (time.Duration(cycles)*interval).String(), b), dist, nil)
		case "ramp":
			if a == b {
				b = a + 1
			}
			rates, err = ramp.CalculateRampRate(fmt.Sprintf("%d/%s", a, unit), fmt.Sprintf("%d/%s", b, unit), dist, time.Duration(cycles)*interval, jitter)
		case "gaussian":
			repeat := time.Duration(cycles) * interval
			rates, err = gaussian.CalculateGaussianRate(float64(cycles*a+1), jitter, repeat, interval, repeat/2, repeat, "", dist)
		}
		desc := fmt.Sprintf("%s interval=%s (N=%d) jitter=%v distribution=%s rates=%d,%d cycles=%d", mode, interval, n, jitter, dist, a, b, cycles)
		if err != nil {
			rt.Fatalf("VERIF-INFRA: cannot build %s: %v", desc, err)
		}
		if rates.IterationDuration != subTick {
			rt.Fatalf("VERIF-VIOLATION C12: %s: the trigger ticks every %v, expected 100ms sub-ticks", desc, rates.IterationDuration)
		}
		stamp := time.Unix(1_700_000_000, 0)
		uneven, positive := false, false
		for cyc := 0; cyc < cycles; cyc++ {
			lo, hi := int(^uint(0)>>1), -int(^uint(0)>>1)-1
			vals := make([]int, 0, n)
			for s := 0; s < n; s++ {
				v := rates.Rate(stamp)
				stamp = stamp.Add(subTick)
				vals = append(vals, v)
				if v < 0 {
					rt.Fatalf("VERIF-VIOLATION C12: %s: cycle %d sub-tick %d is negative: %d", desc, cyc+1, s+1, v)
				}
				lo, hi = min(lo, v), max(hi, v)
			}
			positive = positive || hi > 0
			uneven = uneven || hi-lo == 1
			if dist == "regular" && hi-lo > 1 {
				rt.Fatalf("VERIF-VIOLATION C12: %s: cycle %d of the regular distribution is not even, its sub-ticks range %d..%d: %v", desc, cyc+1, lo, hi, vals)
			}
		}
		cls := []string{"mode-" + mode, "dist-" + dist}
		if uneven {
			cls = append(cls, "regular-uneven-cycle")
		}
		stats.Case("composed", desc, positive && dist == "regular", cls, func() any { return desc })
	})
}
