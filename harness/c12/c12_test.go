package c12

import (
	"fmt"
	"math"
	"math/rand"
	"strings"
	"testing"
	"time"

	"pgregory.net/rapid"

	"github.com/form3tech-oss/f1/v2/internal/trigger/api"
	"github.com/form3tech-oss/f1/v2/verifharness/vlib"
)

var stats = vlib.NewStats("C12")

func TestMain(m *testing.M) {
	// Only the "default" random source (randFn == nil -> the global math/rand)
	// reads this stream. The oracle holds for every stream, so the seed only
	// matters for reproducibility.
	rand.Seed(vlib.CaseSeed()) //nolint:staticcheck // effective for a go <= 1.23 main module
	vlib.Main(m, stats)
}

// Stated domain bound of the property check (DESIGN.md C12).
const (
	maxRate  = 10_000_000 // iterations per tick
	maxSteps = 36_000     // N, sub-ticks per cycle (1 h interval)
	subTick  = 100 * time.Millisecond
)

// ---- the scripted random source ----------------------------------------------

// One scripted answer of the random source for a call randFn(n). All answers
// are non-negative (the property's quantifier); some lie in [0,n), some beyond.
type randOp struct {
	K int    `json:"k"`
	V uint64 `json:"v"`
}

const (
	opInside = iota // V mod n                      in [0,n)
	opZero          // 0                            in [0,n)
	opLast          // n-1                          in [0,n)
	opEqual         // n                            beyond
	opAbove         // n+1+(V mod n)                beyond
	opHuge          // MaxInt-(V mod 1024)          beyond
	opAny           // V truncated to non-negative  anywhere
	opKinds
)

var opNames = [...]string{"inside", "zero", "last", "equal", "above", "huge", "any"}

type scriptRand struct {
	ops                         []randOp
	i                           int
	inside, equal, above, calls int64
}

func (s *scriptRand) fn(n int) int {
	op := s.ops[s.i%len(s.ops)]
	s.i++
	s.calls++
	if n <= 0 {
		return 0 // never asked by f1 (it skips the source when nothing remains); stay non-negative
	}
	var out int
	switch op.K {
	case opInside:
		out = int(op.V % uint64(n))
	case opZero:
		out = 0
	case opLast:
		out = n - 1
	case opEqual:
		out = n
	case opAbove:
		out = n + 1 + int(op.V%uint64(n))
	case opHuge:
		out = math.MaxInt - int(op.V%1024)
	default:
		out = int(op.V & math.MaxInt64)
	}
	if out < 0 {
		out = math.MaxInt
	}
	switch {
	case out < n:
		s.inside++
	case out == n:
		s.equal++
	default:
		s.above++
	}
	return out
}

// ---- a case ------------------------------------------------------------------

type distCase struct {
	Dist       string   `json:"distribution"`
	IntervalNs int64    `json:"interval_ns"`
	Interval   string   `json:"interval"`
	N          int      `json:"n_subticks"`
	Rates      []int    `json:"rates_per_cycle"`
	RandMode   string   `json:"rand_mode,omitempty"` // script | mathrand | default
	RandSeed   int64    `json:"rand_seed,omitempty"`
	Script     []randOp `json:"rand_script,omitempty"`
	// Repeat > 1: the Rates pattern is repeated that many times (many consecutive cycles)
	Repeat int `json:"repeat,omitempty"`
	// StepsNs: how far the time stamp handed to the distributed rate advances from one sub-tick to the
	// next (cyclic); empty = punctual 100 ms. A cycle is N sub-ticks whatever their time stamps: a real
	// ticker delivers late, coalesced and dropped ticks, and `chart` steps a synthetic clock.
	StepsNs []int64 `json:"timestamp_steps_ns,omitempty"`
}

func mkCase(dist string, interval time.Duration, rates []int) distCase {
	return distCase{Dist: dist, IntervalNs: int64(interval), Interval: interval.String(),
		N: int(interval / subTick), Rates: rates}
}

func (c distCase) key() string {
	var b strings.Builder
	fmt.Fprintf(&b, "%s/%d/%v/%d/%s/%d/%v/", c.Dist, c.IntervalNs, c.Rates, c.Repeat, c.RandMode, c.RandSeed, c.StepsNs)
	for _, op := range c.Script {
		fmt.Fprintf(&b, "%d:%d,", op.K, op.V)
	}
	return b.String()
}

func (c distCase) passThrough() bool {
	return c.Dist == "none" || time.Duration(c.IntervalNs) <= subTick
}

// nontrivial is the rule stated for C12: the rate really is spread (N >= 2)
// and some cycle's rate is not a multiple of N.
func (c distCase) nontrivial() bool {
	if c.passThrough() || c.N < 2 {
		return false
	}
	for _, r := range c.Rates {
		if r%c.N != 0 {
			return true
		}
	}
	return false
}

type observed struct {
	uneven                    bool // a regular cycle with max-min == 1
	randInside, randEq, randA int64
	randCalls                 int64
	cycles                    int64
}

// run drives the real api.NewDistribution result over all cycles of the case and
// returns "" if everything the property states held.
func run(c distCase) (msg string, obs observed) {
	defer func() {
		if r := recover(); r != nil {
			msg = fmt.Sprintf("panic instead of a value: %v", r)
		}
	}()
	interval := time.Duration(c.IntervalNs)
	repeat := c.Repeat
	if repeat < 1 {
		repeat = 1
	}
	totalCycles := int64(len(c.Rates)) * int64(repeat)

	var calls int64
	var lastArg time.Time
	lastVal := 0
	underlying := func(tm time.Time) int {
		v := c.Rates[int(calls%int64(len(c.Rates)))]
		calls++
		lastArg = tm
		lastVal = v
		return v
	}

	var randFn func(int) int
	var sr *scriptRand
	if c.Dist == "random" {
		switch c.RandMode {
		case "script":
			sr = &scriptRand{ops: c.Script}
			randFn = sr.fn
		case "mathrand":
			randFn = rand.New(rand.NewSource(c.RandSeed)).Intn
		default: // "default": f1's own source (the global math/rand)
			randFn = nil
		}
	}

	gotInterval, fn, err := api.NewDistribution(api.DistributionType(c.Dist), interval, underlying, randFn)
	if err != nil {
		return fmt.Sprintf("NewDistribution returned error %v", err), obs
	}
	if fn == nil {
		return "NewDistribution returned a nil rate function", obs
	}
	if calls != 0 {
		return fmt.Sprintf("underlying rate evaluated %d times by NewDistribution itself", calls), obs
	}

	base := time.Unix(1_700_000_000, 0)

	if c.passThrough() {
		if gotInterval != interval {
			return fmt.Sprintf("pass-through expected: interval %v came back as %v", interval, gotInterval), obs
		}
		for i := int64(0); i < totalCycles; i++ {
			tm := base.Add(time.Duration(i) * interval)
			want := c.Rates[int(i%int64(len(c.Rates)))]
			got := fn(tm)
			if calls != i+1 {
				return fmt.Sprintf("pass-through expected: call %d evaluated the underlying rate %d times in total", i+1, calls), obs
			}
			if got != want {
				return fmt.Sprintf("pass-through expected: call %d returned %d, underlying returned %d", i+1, got, want), obs
			}
			if !lastArg.Equal(tm) {
				return fmt.Sprintf("pass-through expected: call %d handed time %v to the underlying rate instead of %v", i+1, lastArg, tm), obs
			}
		}
		obs.cycles = totalCycles
		return "", obs
	}

	if gotInterval != subTick {
		return fmt.Sprintf("distributed interval is %v, expected 100ms", gotInterval), obs
	}
	n := int(interval / subTick) // N = floor(interval / 100 ms)
	step := int64(0)
	stamp := base
	for cyc := int64(0); cyc < totalCycles; cyc++ {
		var sum int64
		lo, hi := math.MaxInt, math.MinInt
		for s := 0; s < n; s++ {
			v := fn(stamp)
			if len(c.StepsNs) > 0 {
				stamp = stamp.Add(time.Duration(c.StepsNs[step%int64(len(c.StepsNs))]))
			} else {
				stamp = stamp.Add(subTick)
			}
			step++
			if v < 0 {
				return fmt.Sprintf("cycle %d sub-tick %d: negative value %d", cyc+1, s+1, v), obs
			}
			sum += int64(v)
			if v < lo {
				lo = v
			}
			if v > hi {
				hi = v
			}
		}
		if calls != cyc+1 {
			return fmt.Sprintf("after %d cycle(s) of %d sub-ticks the underlying rate was evaluated %d times", cyc+1, n, calls), obs
		}
		if sum != int64(lastVal) {
			return fmt.Sprintf("cycle %d: sub-tick values sum to %d, the underlying rate produced %d (N=%d)", cyc+1, sum, lastVal, n), obs
		}
		if c.Dist == "regular" {
			if hi-lo > 1 {
				return fmt.Sprintf("cycle %d: regular distribution values range %d..%d (rate %d, N=%d)", cyc+1, lo, hi, lastVal, n), obs
			}
			if hi-lo == 1 {
				obs.uneven = true
			}
		}
	}
	obs.cycles = totalCycles
	if sr != nil {
		obs.randInside, obs.randEq, obs.randA, obs.randCalls = sr.inside, sr.equal, sr.above, sr.calls
	}
	return "", obs
}

func classes(c distCase, obs observed) []string {
	cls := []string{"dist-" + c.Dist}
	if c.nontrivial() {
		cls = append(cls, "nontrivial")
	}
	if c.passThrough() {
		cls = append(cls, "pass-through")
		if c.Dist != "none" {
			cls = append(cls, "pass-through-short-interval")
		}
		if time.Duration(c.IntervalNs) == subTick {
			cls = append(cls, "interval-exactly-100ms")
		}
		return cls
	}
	switch {
	case c.N == 1:
		cls = append(cls, "N=1")
	case c.N <= 12:
		cls = append(cls, "N-2..12")
	case c.N <= 1000:
		cls = append(cls, "N-13..1000")
	default:
		cls = append(cls, "N-above-1000")
	}
	if c.N == maxSteps {
		cls = append(cls, "N-max")
	}
	if c.IntervalNs%int64(subTick) != 0 {
		cls = append(cls, "interval-not-multiple-of-100ms")
	}
	if len(c.StepsNs) > 0 {
		cls = append(cls, "unpunctual-timestamps")
	}
	var zero, below, mult, top, big bool
	for _, r := range c.Rates {
		zero = zero || r == 0
		below = below || (r > 0 && r < c.N)
		mult = mult || (r > 0 && r%c.N == 0)
		top = top || r == maxRate
		big = big || r >= 1_000_000
	}
	for name, on := range map[string]bool{"cycle-rate-zero": zero, "cycle-rate-below-N": below,
		"cycle-rate-multiple-of-N": mult, "cycle-rate-max": top, "cycle-rate-1e6-or-more": big} {
		if on {
			cls = append(cls, name)
		}
	}
	if obs.uneven {
		cls = append(cls, "regular-uneven-cycle")
	}
	if c.Dist == "random" {
		cls = append(cls, "rand-"+c.RandMode)
		if obs.randInside > 0 {
			cls = append(cls, "rand-answer-inside")
		}
		if obs.randEq > 0 {
			cls = append(cls, "rand-answer-equal-n")
		}
		if obs.randA > 0 {
			cls = append(cls, "rand-answer-above-n")
		}
	}
	return cls
}

func check(section string, c distCase) string {
	msg, obs := run(c)
	stats.Case(section, c.key(), c.nontrivial(), classes(c, obs), func() any { return c })
	if msg != "" {
		return fmt.Sprintf("%s [case %s interval=%s N=%d rates=%v randMode=%s seed=%d script=%v repeat=%d]",
			msg, c.Dist, time.Duration(c.IntervalNs), c.N, c.Rates, c.RandMode, c.RandSeed, c.Script, c.Repeat)
	}
	return ""
}

// ---- generators --------------------------------------------------------------

func genSteps(t *rapid.T) int {
	return rapid.OneOf(
		rapid.SampledFrom([]int{1, 2, 3, 7, 10, 600, 3000, 35999, maxSteps}),
		rapid.IntRange(2, 12),
		rapid.IntRange(13, 100),
		rapid.IntRange(101, 1000),
		rapid.IntRange(1001, maxSteps),
	).Draw(t, "N")
}

// genExtra: the part of the interval beyond N*100ms, in [0, 100ms).
func genExtra(t *rapid.T) time.Duration {
	return time.Duration(rapid.OneOf(
		rapid.Just(int64(0)),
		rapid.SampledFrom([]int64{1, int64(time.Microsecond), int64(time.Millisecond), int64(15 * time.Millisecond),
			int64(50 * time.Millisecond), int64(99 * time.Millisecond), int64(subTick) - 1}),
		rapid.Int64Range(1, int64(subTick)-1),
	).Draw(t, "extra"))
}

func genShortInterval(t *rapid.T) time.Duration {
	return time.Duration(rapid.OneOf(
		rapid.SampledFrom([]int64{1, int64(time.Microsecond), int64(time.Millisecond), int64(10 * time.Millisecond),
			int64(50 * time.Millisecond), int64(99 * time.Millisecond), int64(subTick) - 1, int64(subTick)}),
		rapid.Int64Range(1, int64(subTick)),
	).Draw(t, "shortInterval"))
}

func clampRate(v int) int {
	if v < 0 {
		return 0
	}
	if v > maxRate {
		return maxRate
	}
	return v
}

func genRate(t *rapid.T, n int) int {
	if n < 1 {
		n = 1
	}
	switch rapid.IntRange(0, 9).Draw(t, "rateShape") {
	case 0:
		return rapid.SampledFrom([]int{0, 0, 1, 2}).Draw(t, "tiny")
	case 1: // fewer iterations than sub-ticks
		return rapid.IntRange(0, n).Draw(t, "belowN")
	case 2:
		return clampRate(n + rapid.IntRange(-1, 1).Draw(t, "aroundN"))
	case 3, 4: // around a multiple of N
		k := rapid.IntRange(0, maxRate/n).Draw(t, "k")
		return clampRate(k*n + rapid.IntRange(-1, 1).Draw(t, "delta"))
	case 5, 6:
		return clampRate(rapid.IntRange(0, 3*n+3).Draw(t, "fewPerStep"))
	case 7:
		return rapid.SampledFrom([]int{maxRate, maxRate - 1, 9_999_991, 999_983, 1_000_000, 123_457}).Draw(t, "hostile")
	default:
		return rapid.IntRange(0, maxRate).Draw(t, "any")
	}
}

func genScript(t *rapid.T) []randOp {
	n := rapid.IntRange(1, 12).Draw(t, "scriptLen")
	ops := make([]randOp, n)
	for i := range ops {
		ops[i].K = rapid.IntRange(0, opKinds-1).Draw(t, "op")
		switch ops[i].K {
		case opZero, opLast, opEqual:
		default:
			ops[i].V = rapid.OneOf(rapid.Uint64Range(0, 16), rapid.Uint64()).Draw(t, "v")
		}
	}
	return ops
}

func genRand(t *rapid.T, c *distCase) {
	switch rapid.IntRange(0, 19).Draw(t, "randMode") {
	case 0:
		c.RandMode = "default"
	case 1, 2, 3:
		c.RandMode = "mathrand"
		c.RandSeed = rapid.Int64().Draw(t, "randSeed")
	default:
		c.RandMode = "script"
		c.Script = genScript(t)
	}
}

func genCase(t *rapid.T) distCase {
	dist := rapid.SampledFrom([]string{"regular", "regular", "regular", "regular", "random", "random", "random", "random", "none"}).Draw(t, "dist")
	var interval time.Duration
	short := rapid.IntRange(0, 11).Draw(t, "short") == 0
	if short {
		interval = genShortInterval(t)
	} else {
		interval = time.Duration(genSteps(t))*subTick + genExtra(t)
	}
	n := int(interval / subTick)
	maxCycles := 6
	if n <= 100 {
		maxCycles = 12
	}
	cycles := rapid.IntRange(3, maxCycles).Draw(t, "cycles")
	rates := make([]int, cycles)
	for i := range rates {
		rates[i] = genRate(t, n)
	}
	c := mkCase(dist, interval, rates)
	if dist == "random" {
		genRand(t, &c)
	}
	if rapid.IntRange(0, 2).Draw(t, "unpunctual") == 0 {
		// late, coalesced (equal stamps), dropped (a multiple of 100 ms) ticks, a coarse or a stepped-back clock
		c.StepsNs = rapid.SliceOfN(rapid.SampledFrom([]int64{0, int64(subTick), int64(subTick), int64(subTick) + 1, 111_000_000, 150_000_000,
			200_000_000, 250_000_000, int64(time.Second), -int64(subTick)}), 1, 8).Draw(t, "timestampSteps")
	}
	return c
}

// TestProp_Cycles: generated (distribution, interval, per-cycle rate sequence,
// random source) cases, >= 3 consecutive cycles each.
func TestProp_Cycles(t *testing.T) {
	rapid.Check(t, func(rt *rapid.T) {
		c := genCase(rt)
		if msg := check("cycles", c); msg != "" {
			rt.Fatalf("VERIF-VIOLATION C12: %s", msg)
		}
	})
}

// TestProp_ManyCycles: "over any number of consecutive cycles" - a short rate
// pattern repeated over tens of millions of sub-ticks, so that state carried
// from one cycle into the next (which a handful of cycles cannot show) surfaces.
func TestProp_ManyCycles(t *testing.T) {
	budget := int64(vlib.ByTier(30_000_000, 120_000_000)) // sub-ticks per case
	rapid.Check(t, func(rt *rapid.T) {
		dist := rapid.SampledFrom([]string{"regular", "regular", "regular", "random"}).Draw(rt, "dist")
		n := rapid.OneOf(rapid.SampledFrom([]int{3, 7, 600, maxSteps}), rapid.IntRange(2, 64), rapid.IntRange(65, maxSteps)).Draw(rt, "N")
		interval := time.Duration(n)*subTick + genExtra(rt)
		plen := rapid.IntRange(1, 4).Draw(rt, "patternLen")
		rates := make([]int, plen)
		for i := range rates {
			rates[i] = genRate(rt, n)
			if rates[i]%n == 0 && rates[i] < maxRate { // prefer rates that leave a fraction every sub-tick
				rates[i]++
			}
		}
		c := mkCase(dist, interval, rates)
		c.Repeat = int(budget / (int64(n) * int64(plen)))
		if c.Repeat < 3 {
			c.Repeat = 3
		}
		if dist == "random" {
			genRand(rt, &c)
		}
		if msg := check("many-cycles", c); msg != "" {
			rt.Fatalf("VERIF-VIOLATION C12: %s", msg)
		}
	})
}

// TestEnum_RegularSmallScope enumerates completely: regular distribution, every N in
// [1,150] x every rate in [0,4N+1] (three cycles: rate, rate-1, rate), plus the
// top of the rate domain for every such N.
func TestEnum_RegularSmallScope(t *testing.T) {
	cases := 0
	for n := 1; n <= 150; n++ {
		extra := time.Duration(0)
		if n%2 == 1 {
			extra = 15 * time.Millisecond
		}
		if n%5 == 0 {
			extra = subTick - 1
		}
		interval := time.Duration(n)*subTick + extra
		one := func(r int) {
			c := mkCase("regular", interval, []int{r, clampRate(r - 1), r})
			cases++
			if msg := check("enum-regular", c); msg != "" {
				t.Fatalf("VERIF-VIOLATION C12: %s", msg)
			}
		}
		for r := 0; r <= 4*n+1; r++ {
			one(r)
		}
		for r := maxRate - 2*n - 1; r <= maxRate; r++ {
			one(r)
		}
	}
	stats.Note("enum_regular_exhaustive", true)
	stats.Note("enum_regular_cases", int64(cases))
}

// TestEnum_RandomSmallScope enumerates completely: random distribution, N in [1,10] x
// rate in [0,24] x every constant and every two-answer alternating script over
// the answer kinds (with V in {0,1,3}).
func TestEnum_RandomSmallScope(t *testing.T) {
	var answers []randOp
	for k := 0; k < opKinds; k++ {
		switch k {
		case opZero, opLast, opEqual:
			answers = append(answers, randOp{K: k})
		default:
			for _, v := range []uint64{0, 1, 3} {
				answers = append(answers, randOp{K: k, V: v})
			}
		}
	}
	var scripts [][]randOp
	for _, a := range answers {
		scripts = append(scripts, []randOp{a})
		for _, b := range answers {
			if a != b {
				scripts = append(scripts, []randOp{a, b})
			}
		}
	}
	cases := 0
	for n := 1; n <= 10; n++ {
		interval := time.Duration(n)*subTick + time.Duration(n%3)*33*time.Millisecond
		if interval <= subTick {
			interval += time.Millisecond
		}
		for r := 0; r <= 24; r++ {
			for _, sc := range scripts {
				c := mkCase("random", interval, []int{r, (r + 5) % 25, r})
				c.RandMode = "script"
				c.Script = sc
				cases++
				if msg := check("enum-random", c); msg != "" {
					t.Fatalf("VERIF-VIOLATION C12: %s", msg)
				}
			}
		}
	}
	stats.Note("enum_random_exhaustive", true)
	stats.Note("enum_random_cases", int64(cases))
}

// TestRegress: hostile constants and the intervals/rates of f1's own table,
// replayed as plain cases (no rapid).
func TestRegress(t *testing.T) {
	ms := time.Millisecond
	script := func(ks ...int) []randOp {
		ops := make([]randOp, len(ks))
		for i, k := range ks {
			ops[i] = randOp{K: k, V: uint64(7 * (i + 1))}
		}
		return ops
	}
	var cs []distCase
	for _, d := range []string{"regular", "random", "none"} {
		for _, iv := range []time.Duration{1, 50 * ms, 99 * ms, 100*ms - 1, 100 * ms, 100*ms + 1, 101 * ms, 199 * ms, 200 * ms,
			215 * ms, 299 * ms, 300 * ms, 900 * ms, 1000 * ms, 1050 * ms, 1999 * ms, 3 * time.Second, time.Minute,
			time.Hour - 1, time.Hour, time.Hour + 99*ms} {
			n := int(iv / subTick)
			if n < 1 {
				n = 1
			}
			for _, rates := range [][]int{
				{1, 0, 1}, {7, 10, 1, 0, 3}, {n - 1, n, n + 1}, {2*n - 1, 2*n + 1, 1}, {maxRate, maxRate - 1, 9_999_991},
				{999_983, 123_457, 1_000_000, 0}, {10, 20, 30, 5, 15, 25},
			} {
				c := mkCase(d, iv, rates)
				if d == "random" {
					for _, sc := range [][]randOp{script(opInside), script(opZero), script(opLast), script(opEqual), script(opAbove),
						script(opHuge), script(opAny, opInside, opHuge, opZero)} {
						cc := c
						cc.RandMode, cc.Script = "script", sc
						cs = append(cs, cc)
					}
					cc := c
					cc.RandMode, cc.RandSeed = "mathrand", 42
					cs = append(cs, cc)
					cc.RandMode = "default"
					cs = append(cs, cc)
					continue
				}
				cs = append(cs, c)
			}
		}
	}
	for _, c := range cs {
		if msg := check("regress", c); msg != "" {
			t.Errorf("VERIF-VIOLATION C12: %s", msg)
		}
	}
}
