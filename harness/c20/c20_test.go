package c20

import (
	"context"
	"errors"
	"fmt"
	"runtime"
	"strconv"
	"strings"
	"sync"
	"testing"
	"time"

	"github.com/prometheus/client_golang/prometheus"
	"pgregory.net/rapid"

	"github.com/form3tech-oss/f1/v2/internal/log"
	"github.com/form3tech-oss/f1/v2/internal/metrics"
	"github.com/form3tech-oss/f1/v2/internal/progress"
	"github.com/form3tech-oss/f1/v2/internal/workers"
	"github.com/form3tech-oss/f1/v2/pkg/f1"
	"github.com/form3tech-oss/f1/v2/pkg/f1/scenarios"
	f1testing "github.com/form3tech-oss/f1/v2/pkg/f1/testing"
	"github.com/form3tech-oss/f1/v2/verifharness/vlib"
)

var stats = vlib.NewStats("C20")

func TestMain(m *testing.M) { vlib.Main(m, stats) }

// ---- behaviours ---------------------------------------------------------------------------
//
// The property quantifies over four behaviours (pass, Fail, FailNow, panic). Each is drawn in
// one of the spellings the public handle offers; the spelling never changes the class.

type beh byte

const (
	bPass         beh = 'p'
	bFail         beh = 'f' // t.Fail()
	bErrorf       beh = 'e' // t.Errorf
	bError        beh = 'E' // t.Error(err)
	bFailNow      beh = 'n' // t.FailNow()
	bFatalf       beh = 't' // t.Fatalf
	bFatal        beh = 'T' // t.Fatal(err)
	bRequire      beh = 'r' // t.Require().True(false)
	bPanicErr     beh = 'x' // panic(error)
	bPanicStr     beh = 's' // panic(string)
	bPanicRuntime beh = 'R' // nil-map write (runtime.Error)
)

const (
	clsPass = iota
	clsFail
	clsFailNow
	clsPanic
)

var allBehs = []beh{bPass, bFail, bErrorf, bError, bFailNow, bFatalf, bFatal, bRequire, bPanicErr, bPanicStr, bPanicRuntime}

// canonical spelling of each class (used by the exhaustive enumeration)
var canonical = []beh{bPass, bFail, bFailNow, bPanicErr}

func (b beh) class() int {
	switch b {
	case bPass:
		return clsPass
	case bFail, bErrorf, bError:
		return clsFail
	case bFailNow, bFatalf, bFatal, bRequire:
		return clsFailNow
	case bPanicErr, bPanicStr, bPanicRuntime:
		return clsPanic
	}
	panic("unknown behaviour " + string(b))
}

func (b beh) stops() bool { return b.class() >= clsFailNow }
func (b beh) fails() bool { return b.class() != clsPass }

var errComponent = errors.New("component error")

func act(t *f1testing.T, b beh) {
	switch b {
	case bPass:
	case bFail:
		t.Fail()
	case bErrorf:
		t.Errorf("component failed: %d", 1)
	case bError:
		t.Error(errComponent)
	case bFailNow:
		t.FailNow()
	case bFatalf:
		t.Fatalf("component failed fatally: %d", 1)
	case bFatal:
		t.Fatal(errComponent)
	case bRequire:
		t.Require().True(false, "component requirement")
	case bPanicErr:
		panic(errComponent)
	case bPanicStr:
		panic("component panicked")
	case bPanicRuntime:
		var m map[string]int
		m["x"] = 1 //nolint
	default:
		panic("unknown behaviour " + string(b))
	}
}

// ---- the case -----------------------------------------------------------------------------

type combCase struct {
	N       int      `json:"components"`
	Tree    string   `json:"tree"`    // how the components are combined: "" or "(012)" = one flat CombineScenarios; "((01)2)" = nested
	Setup   string   `json:"setup"`   // one behaviour letter per component
	Iters   []string `json:"iters"`   // per iteration (id = index+1), one behaviour letter per component
	Workers int      `json:"workers"` // 1 = sequential (deterministic)
	Bare    bool     `json:"bare"`    // the harness registers no per-iteration Cleanup of its own (no end-of-iteration record)
	Reuse   bool     `json:"reuse"`   // the very same combined ScenarioFn value was already set up and run once before (a second run of it)
}

func (c combCase) key() string {
	return fmt.Sprintf("%d|%s|%s|%s|%d|%v|%v", c.N, c.tree(), c.Setup, strings.Join(c.Iters, ","), c.Workers, c.Bare, c.Reuse)
}

func (c combCase) tree() string {
	if c.Tree != "" {
		return c.Tree
	}
	var sb strings.Builder
	sb.WriteByte('(')
	for i := 0; i < c.N; i++ {
		sb.WriteByte(byte('0' + i))
	}
	sb.WriteByte(')')
	return sb.String()
}

func (c combCase) validate() error {
	if c.N < 1 || c.N > 9 || len(c.Setup) != c.N {
		return fmt.Errorf("bad case %+v", c)
	}
	for _, it := range c.Iters {
		if len(it) != c.N {
			return fmt.Errorf("bad case %+v", c)
		}
	}
	for _, s := range append([]string{c.Setup}, c.Iters...) {
		for i := range s {
			beh(s[i]).class()
		}
	}
	return nil
}

// firstStop returns the index of the last component that executes in a phase with the given
// behaviours: the first stopping one, or the last component.
func firstStop(bs string) int {
	for i := range bs {
		if beh(bs[i]).stops() {
			return i
		}
	}
	return len(bs) - 1
}

func anyFails(bs string) bool {
	for i := range bs {
		if beh(bs[i]).fails() {
			return true
		}
	}
	return false
}

func (c combCase) setupFails() bool { return anyFails(c.Setup[:firstStop(c.Setup)+1]) }

// nontrivial: >= 3 components and a stopping behaviour that really executes in a position
// other than the last one (in setup, or - after a clean setup - in some iteration).
func (c combCase) nontrivial() bool {
	if c.N < 3 {
		return false
	}
	if k := firstStop(c.Setup); k < c.N-1 {
		return true // (a stopper at k<N-1; k==N-1 means none or last)
	}
	if c.setupFails() {
		return false
	}
	for _, it := range c.Iters {
		if firstStop(it) < c.N-1 {
			return true
		}
	}
	return false
}

func (c combCase) classes() []string {
	cls := []string{}
	add := func(s string) { cls = append(cls, s) }
	if c.nontrivial() {
		add("nontrivial")
	}
	if c.N >= 3 {
		add("components>=3")
	}
	if c.Bare {
		add("no-harness-cleanup")
	}
	if c.Reuse {
		add("second-run-of-the-same-combined-scenario")
	}
	if strings.Contains(c.Tree, "()") {
		add("empty-group-among-the-components")
	}
	if c.Tree != "" && strings.Count(c.Tree, "(") > 1 {
		add("nested")
	}
	k := firstStop(c.Setup)
	switch {
	case beh(c.Setup[k]).stops():
		add("setup-stopped")
		if k < c.N-1 {
			add("setup-stopped-before-last")
		}
	case c.setupFails():
		add("setup-failed-without-stop")
	default:
		add("setup-clean")
	}
	if c.setupFails() {
		return cls
	}
	var midStop, failCont, passAfterFail, fnStop, panicStop, allPass bool
	allPass = true
	prevFailed := false
	for _, it := range c.Iters {
		k := firstStop(it)
		b := beh(it[k])
		if b.stops() && k < c.N-1 {
			midStop = true
		}
		if b.class() == clsFailNow {
			fnStop = true
		}
		if b.class() == clsPanic {
			panicStop = true
		}
		for j := 0; j < k; j++ {
			if beh(it[j]).class() == clsFail {
				failCont = true
			}
		}
		failed := anyFails(it[:k+1])
		if failed {
			allPass = false
		}
		if prevFailed && !failed {
			passAfterFail = true
		}
		prevFailed = failed
	}
	if midStop {
		add("iter-stop-before-last")
	}
	if failCont {
		add("iter-fail-then-continue")
	}
	if passAfterFail {
		add("iter-pass-right-after-failed")
	}
	if fnStop {
		add("iter-failnow-stop")
	}
	if panicStop {
		add("iter-panic-stop")
	}
	if allPass {
		add("all-pass")
	}
	return cls
}

// ---- combining the components as the tree says ------------------------------------------

// buildTree parses "(0(12)3)" and combines the leaves with f1.CombineScenarios at every
// parenthesis. Leaves must appear in order 0..n-1 (checked by the caller through the oracle).
func buildTree(tree string, leaves []f1testing.ScenarioFn) (f1testing.ScenarioFn, error) {
	pos := 0
	var parse func() (f1testing.ScenarioFn, error)
	parse = func() (f1testing.ScenarioFn, error) {
		if pos >= len(tree) {
			return nil, errors.New("unexpected end of tree")
		}
		ch := tree[pos]
		if ch >= '0' && ch <= '9' {
			pos++
			if int(ch-'0') >= len(leaves) {
				return nil, fmt.Errorf("leaf %c out of range", ch)
			}
			return leaves[ch-'0'], nil
		}
		if ch != '(' {
			return nil, fmt.Errorf("unexpected %q in tree", ch)
		}
		pos++
		var kids []f1testing.ScenarioFn
		for pos < len(tree) && tree[pos] != ')' {
			k, err := parse()
			if err != nil {
				return nil, err
			}
			kids = append(kids, k)
		}
		if pos >= len(tree) {
			return nil, errors.New("unbalanced group in tree")
		}
		pos++
		return f1.CombineScenarios(kids...), nil // an empty group "()" is CombineScenarios() of nothing
	}
	fn, err := parse()
	if err != nil {
		return nil, err
	}
	if pos != len(tree) {
		return nil, errors.New("trailing characters in tree")
	}
	return fn, nil
}

// ---- event log ----------------------------------------------------------------------------

type event struct {
	Kind   string       // setup-begin, setup, iter-begin, iter, iter-end
	Comp   int          // component index (setup / iter)
	H      *f1testing.T // handle identity
	Iter   string       // handle's Iteration field at the time of the call
	Failed bool         // iter-end: handle.Failed() once the iteration was recorded
	S, F   uint64       // iter-end (sequential only): progress totals once the iteration was recorded
	D      uint64
}

func (e event) String() string {
	switch e.Kind {
	case "setup", "iter":
		return fmt.Sprintf("%s[%d]@%s(%p)", e.Kind, e.Comp, e.Iter, e.H)
	case "iter-end":
		return fmt.Sprintf("iter-end@%s(%p failed=%v totals=%d/%d/%d)", e.Iter, e.H, e.Failed, e.S, e.F, e.D)
	}
	return fmt.Sprintf("%s@%s(%p)", e.Kind, e.Iter, e.H)
}

type recorder struct {
	mu    sync.Mutex
	evs   []event
	muted bool // warm-up run of a reused combined scenario: nothing is recorded
}

func (r *recorder) add(e event) {
	r.mu.Lock()
	if r.muted {
		r.mu.Unlock()
		return
	}
	r.evs = append(r.evs, e)
	r.mu.Unlock()
}

type outcome struct {
	evs         []event
	setupFailed bool
	ranPool     bool
	total       progress.Snapshot
	problem     string // harness-observed trouble that is a violation by itself
}

var discard = log.NewDiscardLogger()
var discardLogrus = log.NewSlogLogrusLogger(discard)

const completionDeadline = 60 * time.Second

// execute runs the combined scenario through f1's own machinery the way run.Run.Do does:
// NewActiveScenario -> Setup -> (if the setup did not fail) a users-mode pool limited to
// len(Iters) iterations -> Teardown.
func execute(c combCase) (out outcome) {
	rec := &recorder{}
	st := &progress.Stats{}
	sequential := c.Workers <= 1

	leaves := make([]f1testing.ScenarioFn, c.N)
	for j := range leaves {
		j := j
		leaves[j] = func(t *f1testing.T) f1testing.RunFn {
			rec.add(event{Kind: "setup", Comp: j, H: t, Iter: t.Iteration})
			act(t, beh(c.Setup[j]))
			return func(it *f1testing.T) {
				rec.add(event{Kind: "iter", Comp: j, H: it, Iter: it.Iteration})
				if !sequential {
					runtime.Gosched()
				}
				id, err := strconv.Atoi(it.Iteration)
				if err != nil || id < 1 || id > len(c.Iters) {
					return // the oracle reports the unexpected iteration id
				}
				act(it, beh(c.Iters[id-1][j]))
			}
		}
	}
	combined, err := buildTree(c.tree(), leaves)
	if err != nil {
		out.problem = "VERIF-INFRA: " + err.Error()
		return out
	}
	if c.Reuse {
		// the same combined ScenarioFn value is set up (and one iteration of it run) once before the
		// observed run, the way a process executing the scenario twice would do
		rec.mu.Lock()
		rec.muted = true
		rec.mu.Unlock()
		func() {
			defer func() { _ = recover() }()
			warm := workers.NewActiveScenario(&scenarios.Scenario{Name: "combined", ScenarioFn: combined},
				metrics.NewInstance(prometheus.NewRegistry(), true, nil), &progress.Stats{}, discard, discardLogrus)
			warm.Setup()
			if !warm.Failed() {
				ctx, cancel := context.WithCancel(context.Background())
				pm := workers.New(1, warm)
				pm.NewContinuousPool(1).Start(ctx)
				select {
				case <-pm.WaitForCompletion():
				case <-time.After(completionDeadline):
				}
				cancel()
			}
			warm.Teardown()
		}()
		rec.mu.Lock()
		rec.muted = false
		rec.mu.Unlock()
	}
	// The observer only notes which handle f1 hands to the combined scenario in each phase.
	observer := func(t *f1testing.T) f1testing.RunFn {
		rec.add(event{Kind: "setup-begin", H: t, Iter: t.Iteration})
		run := combined(t)
		return func(it *f1testing.T) {
			rec.add(event{Kind: "iter-begin", H: it, Iter: it.Iteration})
			// cleanups run after the iteration's result has been recorded; "bare" cases register none,
			// so that the iteration handles go through f1's machinery exactly as a scenario without
			// cleanups would (their outcome is then judged on the final totals only)
			if c.Bare {
				run(it)
				return
			}
			it.Cleanup(func() {
				e := event{Kind: "iter-end", H: it, Iter: it.Iteration, Failed: it.Failed()}
				if sequential {
					tot := st.Total()
					e.S, e.F, e.D = tot.SuccessfulIterationDurations.Count, tot.FailedIterationDurations.Count, tot.DroppedIterationCount
				}
				rec.add(e)
			})
			run(it)
		}
	}

	m := metrics.NewInstance(prometheus.NewRegistry(), true, nil)
	active := workers.NewActiveScenario(&scenarios.Scenario{Name: "combined", ScenarioFn: observer}, m, st, discard, discardLogrus)

	func() {
		defer func() {
			if r := recover(); r != nil {
				out.problem = fmt.Sprintf("a panic escaped ActiveScenario.Setup: %v", r)
			}
		}()
		active.Setup()
	}()
	if out.problem != "" {
		return out
	}
	out.setupFailed = active.Failed()
	if !out.setupFailed {
		out.ranPool = true
		ctx, cancel := context.WithCancel(context.Background())
		pm := workers.New(uint64(len(c.Iters)), active)
		w := c.Workers
		if w < 1 {
			w = 1
		}
		pm.NewContinuousPool(w).Start(ctx)
		timer := time.NewTimer(completionDeadline)
		select {
		case <-pm.WaitForCompletion():
		case <-timer.C:
			out.problem = fmt.Sprintf("the pool did not complete %d iterations within %s", len(c.Iters), completionDeadline)
		}
		timer.Stop()
		cancel()
		if out.problem != "" {
			return out
		}
	}
	active.Teardown()
	out.total = st.Total()
	rec.mu.Lock()
	out.evs = append([]event(nil), rec.evs...)
	rec.mu.Unlock()
	return out
}

func renderLog(evs []event) string {
	parts := make([]string, len(evs))
	for i, e := range evs {
		parts[i] = e.String()
	}
	return strings.Join(parts, " ")
}

// ---- oracle -------------------------------------------------------------------------------

// judge returns "" when the observed run agrees with the property.
func judge(c combCase, o outcome) string {
	if o.problem != "" {
		return o.problem
	}
	fail := func(format string, args ...any) string {
		return fmt.Sprintf(format, args...) + "\n  case: " + fmt.Sprintf("%+v", c) + "\n  log: " + renderLog(o.evs)
	}
	evs := o.evs
	// -- setup phase: setup-begin, then setup[0..k] on the very same handle --
	if len(evs) == 0 || evs[0].Kind != "setup-begin" {
		return fail("the combined scenario's setup was not entered first")
	}
	setupH := evs[0].H
	kS := firstStop(c.Setup)
	pos := 1
	for j := 0; j <= kS; j++ {
		if pos >= len(evs) || evs[pos].Kind != "setup" {
			return fail("setup of component %d did not run (setup phase executes components 0..%d once each, in order)", j, kS)
		}
		e := evs[pos]
		if e.Comp != j {
			return fail("setup position %d ran component %d, want component %d", j, e.Comp, j)
		}
		if e.H != setupH {
			return fail("setup of component %d got handle %p, the setup handle is %p", j, e.H, setupH)
		}
		if e.Iter != "setup" {
			return fail("setup of component %d saw Iteration=%q", j, e.Iter)
		}
		pos++
	}
	if pos < len(evs) && evs[pos].Kind == "setup" {
		return fail("setup of component %d ran after the setup phase was over (components 0..%d expected once each)", evs[pos].Comp, kS)
	}
	wantSetupFailed := c.setupFails()
	if o.setupFailed != wantSetupFailed {
		return fail("setup reported failed=%v, want %v", o.setupFailed, wantSetupFailed)
	}
	rest := evs[pos:]
	for _, e := range rest {
		if e.Kind == "setup" || e.Kind == "setup-begin" {
			return fail("a setup ran again during the iterations: %s", e)
		}
	}
	if wantSetupFailed {
		if len(rest) != 0 {
			return fail("events after a failed setup")
		}
		if n := o.total.Iterations(); n != 0 {
			return fail("%d iterations recorded after a failed setup", n)
		}
		return ""
	}

	// -- iterations --
	var wantS, wantF uint64
	for _, it := range c.Iters {
		if anyFails(it[:firstStop(it)+1]) {
			wantF++
		} else {
			wantS++
		}
	}
	checkIteration := func(id int, group []event, seqS, seqF uint64, sequential bool) string {
		bs := c.Iters[id-1]
		ids := strconv.Itoa(id)
		if len(group) == 0 || group[0].Kind != "iter-begin" {
			return fail("iteration %d: the combined iteration function was not entered first", id)
		}
		h := group[0].H
		k := firstStop(bs)
		p := 1
		for j := 0; j <= k; j++ {
			if p >= len(group) || group[p].Kind != "iter" {
				return fail("iteration %d: component %d did not run (components 0..%d expected once each, in order; behaviours %q)", id, j, k, bs)
			}
			e := group[p]
			if e.Comp != j {
				return fail("iteration %d: position %d ran component %d, want component %d (behaviours %q)", id, j, e.Comp, j, bs)
			}
			if e.H != h {
				return fail("iteration %d: component %d got handle %p, the iteration's handle is %p", id, j, e.H, h)
			}
			if e.Iter != ids {
				return fail("iteration %d: component %d saw Iteration=%q", id, j, e.Iter)
			}
			p++
		}
		if p < len(group) && group[p].Kind == "iter" {
			return fail("iteration %d: component %d ran although component %d stopped the iteration (behaviours %q)", id, group[p].Comp, k, bs)
		}
		if c.Bare {
			if p != len(group) {
				return fail("iteration %d: unexpected events after its components: %s", id, renderLog(group[p:]))
			}
			return ""
		}
		if p >= len(group) || group[p].Kind != "iter-end" {
			return fail("iteration %d: no end-of-iteration record", id)
		}
		end := group[p]
		wantFailed := anyFails(bs[:k+1])
		if end.H != h || end.Iter != ids {
			return fail("iteration %d: end-of-iteration record on handle %p/%q", id, end.H, end.Iter)
		}
		if end.Failed != wantFailed {
			return fail("iteration %d: reported failed=%v, want %v (behaviours %q, executed 0..%d)", id, end.Failed, wantFailed, bs, k)
		}
		if sequential && (end.S != seqS || end.F != seqF || end.D != 0) {
			return fail("iteration %d: totals after it are %d ok/%d failed/%d dropped, want %d/%d/0", id, end.S, end.F, end.D, seqS, seqF)
		}
		if p+1 != len(group) {
			return fail("iteration %d: unexpected events after its end: %s", id, renderLog(group[p+1:]))
		}
		return ""
	}

	if c.Workers <= 1 {
		// one worker: the whole log is determined
		var s, f uint64
		p := 0
		for id := 1; id <= len(c.Iters); id++ {
			q := p
			for q < len(rest) && (q == p || rest[q].Kind != "iter-begin") {
				q++
			}
			bs := c.Iters[id-1]
			if anyFails(bs[:firstStop(bs)+1]) {
				f++
			} else {
				s++
			}
			if p < len(rest) && rest[p].Iter != strconv.Itoa(id) {
				return fail("iteration number %d in the sequence carries id %q", id, rest[p].Iter)
			}
			if msg := checkIteration(id, rest[p:q], s, f, true); msg != "" {
				return msg
			}
			p = q
		}
		if p != len(rest) {
			return fail("more than %d iterations ran: %s", len(c.Iters), renderLog(rest[p:]))
		}
	} else {
		groups := map[string][]event{}
		for _, e := range rest {
			groups[e.Iter] = append(groups[e.Iter], e)
		}
		for id := 1; id <= len(c.Iters); id++ {
			ids := strconv.Itoa(id)
			if msg := checkIteration(id, groups[ids], 0, 0, false); msg != "" {
				return msg
			}
			delete(groups, ids)
		}
		for k := range groups {
			return fail("events for an unexpected iteration id %q", k)
		}
	}
	if got := o.total; got.SuccessfulIterationDurations.Count != wantS || got.FailedIterationDurations.Count != wantF || got.DroppedIterationCount != 0 {
		return fail("final totals %d ok/%d failed/%d dropped, want %d/%d/0", got.SuccessfulIterationDurations.Count,
			got.FailedIterationDurations.Count, got.DroppedIterationCount, wantS, wantF)
	}
	return ""
}

func runCase(section string, c combCase) string {
	if err := c.validate(); err != nil {
		return "VERIF-INFRA: " + err.Error()
	}
	stats.Case(section, c.key(), c.nontrivial(), c.classes(), func() any { return c })
	msg := judge(c, execute(c))
	if msg == "" || strings.HasPrefix(msg, "VERIF-INFRA") {
		return msg
	}
	return "VERIF-VIOLATION C20: " + msg
}

// ---- generators ---------------------------------------------------------------------------

var passHeavy = func() []beh {
	l := []beh{}
	for i := 0; i < 12; i++ {
		l = append(l, bPass)
	}
	return append(l, allBehs[1:]...)
}()

var mixed = append([]beh{bPass, bPass, bPass}, allBehs...)

var failOnly = []beh{bPass, bPass, bFail, bErrorf, bError}

func drawBehs(t *rapid.T, n int, from []beh, label string) string {
	b := make([]byte, n)
	for i := range b {
		b[i] = byte(rapid.SampledFrom(from).Draw(t, label))
	}
	return string(b)
}

// genTree draws how leaves lo..hi-1 are bracketed.
func genTree(t *rapid.T, lo, hi, depth int) string {
	var sb strings.Builder
	sb.WriteByte('(')
	i := lo
	for i < hi {
		// size of the next child group
		size := 1
		if depth < 3 && hi-i >= 1 {
			size = rapid.IntRange(1, hi-i).Draw(t, "group")
			if size == hi-lo && size > 1 {
				size-- // a child may not be the whole node again
			}
		}
		if size == 1 {
			if depth < 3 && rapid.IntRange(0, 7).Draw(t, "wrapSingle") == 0 {
				sb.WriteString("(" + string(byte('0'+i)) + ")")
			} else {
				sb.WriteByte(byte('0' + i))
			}
		} else {
			sb.WriteString(genTree(t, i, i+size, depth+1))
		}
		i += size
	}
	sb.WriteByte(')')
	return sb.String()
}

func genCase(t *rapid.T, maxIters int) combCase {
	var c combCase
	c.N = rapid.SampledFrom([]int{1, 2, 3, 3, 3, 4, 4, 5, 5, 6, 6}).Draw(t, "components")
	c.Workers = 1
	if rapid.IntRange(0, 9).Draw(t, "nestMode") < 3 {
		c.Tree = genTree(t, 0, c.N, 0)
	}
	if rapid.IntRange(0, 5).Draw(t, "emptyGroup") == 0 {
		// "for every number of components": a combination of nothing, as one member of the combination -
		// it sets nothing up and does nothing in an iteration
		if c.Tree == "" {
			c.Tree = "("
			for i := 0; i < c.N; i++ {
				c.Tree += string(byte('0' + i))
			}
			c.Tree += ")"
		}
		// insert "()" right after an opening or right before a closing parenthesis, or after a leaf
		var spots []int
		for i := 1; i <= len(c.Tree)-1; i++ {
			spots = append(spots, i)
		}
		at := rapid.SampledFrom(spots).Draw(t, "emptyGroupAt")
		c.Tree = c.Tree[:at] + "()" + c.Tree[at:]
	}
	switch m := rapid.IntRange(0, 9).Draw(t, "setupMode"); {
	case m <= 5:
		c.Setup = strings.Repeat("p", c.N)
	case m == 6:
		c.Setup = drawBehs(t, c.N, failOnly, "setupBeh")
	case m == 7:
		c.Setup = drawBehs(t, c.N, passHeavy, "setupBeh")
	default:
		c.Setup = drawBehs(t, c.N, mixed, "setupBeh")
	}
	iters := rapid.IntRange(1, maxIters).Draw(t, "iterations")
	profile := mixed
	if rapid.Bool().Draw(t, "passHeavy") {
		profile = passHeavy
	}
	c.Iters = make([]string, iters)
	for i := range c.Iters {
		c.Iters[i] = drawBehs(t, c.N, profile, "iterBeh")
	}
	c.Bare = rapid.IntRange(0, 2).Draw(t, "bare") == 0
	c.Reuse = rapid.IntRange(0, 3).Draw(t, "reuse") == 0
	return c
}

// ---- properties ---------------------------------------------------------------------------

// TestProp_Sequential: one worker, max-iterations = len(Iters): the complete event log is
// determined by the case and compared event by event.
func TestProp_Sequential(t *testing.T) {
	rapid.Check(t, func(rt *rapid.T) {
		c := genCase(rt, 12)
		if msg := runCase("sequential", c); msg != "" {
			rt.Fatalf("%s", msg)
		}
	})
}

// TestProp_ParallelWorkers: 2-4 workers run the iterations concurrently; every iteration (grouped
// by its id) must still show the components in order on that iteration's handle.
func TestProp_ParallelWorkers(t *testing.T) {
	rapid.Check(t, func(rt *rapid.T) {
		c := genCase(rt, 24)
		c.Workers = rapid.IntRange(2, 4).Draw(rt, "workers")
		if msg := runCase("parallel", c); msg != "" {
			rt.Fatalf("%s", msg)
		}
	})
}

// TestEnum_SmallScope enumerates completely: 1-3 components x every class assignment to the
// setups x every class assignment to one iteration, and 2 components x 2 iterations.
func TestEnum_SmallScope(t *testing.T) {
	n := 0
	var assign func(k int, f func(string))
	assign = func(k int, f func(string)) {
		buf := make([]byte, k)
		var rec func(i int)
		rec = func(i int) {
			if i == k {
				f(string(buf))
				return
			}
			for _, b := range canonical {
				buf[i] = byte(b)
				rec(i + 1)
			}
		}
		rec(0)
	}
	for comps := 1; comps <= 3; comps++ {
		assign(comps, func(setup string) {
			assign(comps, func(it string) {
				n++
				if msg := runCase("enum", combCase{N: comps, Setup: setup, Iters: []string{it}, Workers: 1}); msg != "" {
					t.Fatalf("%s", msg)
				}
			})
		})
	}
	assign(2, func(setup string) {
		assign(2, func(it1 string) {
			assign(2, func(it2 string) {
				n++
				if msg := runCase("enum", combCase{N: 2, Setup: setup, Iters: []string{it1, it2}, Workers: 1, Bare: true}); msg != "" {
					t.Fatalf("%s", msg)
				}
				if msg := runCase("enum", combCase{N: 2, Setup: setup, Iters: []string{it1, it2}, Workers: 1}); msg != "" {
					t.Fatalf("%s", msg)
				}
			})
		})
	})
	// 3 components, clean setup, 2 iterations: a stop in the first iteration must not leak into the second
	assign(3, func(it1 string) {
		assign(3, func(it2 string) {
			n++
			if msg := runCase("enum", combCase{N: 3, Setup: "ppp", Iters: []string{it1, it2}, Workers: 1}); msg != "" {
				t.Fatalf("%s", msg)
			}
		})
	})
	stats.Note("smallscope_exhaustive", true)
	stats.Note("smallscope_cases", int64(n))
}

// TestRegress replays hostile constants and shrunk failures of broken variants as plain cases.
func TestRegress(t *testing.T) {
	for _, c := range []combCase{
		// order: a stop in the middle separates "runs in order" from "runs reversed"
		{N: 3, Setup: "ppp", Iters: []string{"pnp"}},
		{N: 3, Setup: "ppp", Iters: []string{"pxp", "ppp"}},
		// a stop in one iteration must not silence the next iterations
		{N: 3, Setup: "ppp", Iters: []string{"npp", "ppp", "ppp"}},
		{N: 3, Setup: "ppp", Iters: []string{"Rpp", "ppp", "spp", "ppp"}},
		// Fail does not stop: later components run, iteration failed
		{N: 3, Setup: "ppp", Iters: []string{"fpp", "pep", "ppE"}},
		// Fail in setup does not stop the later setups but fails the setup
		{N: 3, Setup: "fpp", Iters: []string{"ppp"}},
		{N: 4, Setup: "pfnp", Iters: []string{"pppp"}},
		// stopping setups, all spellings
		{N: 3, Setup: "npp", Iters: []string{"ppp"}},
		{N: 3, Setup: "ptp", Iters: []string{"ppp"}},
		{N: 3, Setup: "pTp", Iters: []string{"ppp"}},
		{N: 3, Setup: "prp", Iters: []string{"ppp"}},
		{N: 3, Setup: "pxp", Iters: []string{"ppp"}},
		{N: 3, Setup: "psp", Iters: []string{"ppp"}},
		{N: 3, Setup: "pRp", Iters: []string{"ppp"}},
		// last-position stoppers
		{N: 3, Setup: "ppn", Iters: []string{"ppp"}},
		{N: 3, Setup: "ppp", Iters: []string{"ppn", "ppx", "ppp"}},
		// single component
		{N: 1, Setup: "p", Iters: []string{"p", "n", "p", "x", "f", "p"}},
		// nesting keeps the flattened order and the stop propagates through the levels
		{N: 6, Tree: "((01)(2(34))5)", Setup: "pppppp", Iters: []string{"pppnpp", "pppppp", "pfpppx", "sppppp"}},
		{N: 4, Tree: "(((0))(1)(23))", Setup: "pppp", Iters: []string{"pprp", "pppp"}},
		{N: 4, Tree: "((01)(23))", Setup: "pnpp", Iters: []string{"pppp"}},
		// six components, twelve iterations, every spelling
		{N: 6, Setup: "pppppp", Iters: []string{"pppppp", "fppppp", "peEppp", "ppnppp", "ppptpp", "ppppTp", "pppppr", "xppppp", "pspppp", "ppRppp", "pppppp", "ffffff"}},
		// concurrent workers
		{N: 3, Setup: "ppp", Iters: []string{"pnp", "ppp", "xpp", "ppp", "pfp", "ppp", "ppR", "ppp"}, Workers: 3},
	} {
		c := c
		if c.Workers == 0 {
			c.Workers = 1
		}
		if msg := runCase("regress", c); msg != "" {
			t.Errorf("%s", msg)
		}
	}
}
