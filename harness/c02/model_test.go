package c02

import (
	"fmt"
	"strings"
	"testing"
	"time"

	"pgregory.net/rapid"

	"github.com/form3tech-oss/f1/v2/verifharness/vlib"
)

// ---- engine A: sequentialised histories against a reference model -------------------------

type model struct {
	conc      int
	limit     uint64
	pending   int
	idle      int
	inflight  int
	issued    uint64 // ids handed out (including the ones above the limit)
	started   uint64
	dropped   uint64
	silent    uint64 // discarded because the limit was reached
	requested uint64
	finished  uint64
	limitDead bool
	cancelled bool
}

func (m *model) dead() bool { return m.limitDead || m.cancelled }

func (m *model) assign() {
	for m.pending > 0 && m.idle > 0 && !m.dead() {
		m.pending--
		m.issued++
		if m.limit > 0 && m.issued > m.limit {
			m.limitDead = true
			m.silent += uint64(1 + m.pending)
			m.pending = 0
			m.idle--
			return
		}
		m.idle--
		m.inflight++
		m.started++
	}
}

func (m *model) tick(n int) {
	if m.dead() {
		return
	}
	m.requested += uint64(n)
	if m.pending > 0 {
		m.dropped += uint64(m.pending)
	}
	m.pending = n
	m.assign()
}

func (m *model) finish() {
	m.inflight--
	m.finished++
	if m.dead() {
		return
	}
	m.idle++
	m.assign()
}

func (m *model) cancel() {
	if m.dead() {
		m.cancelled = true
		return
	}
	m.cancelled = true
	if m.pending > 0 {
		m.dropped += uint64(m.pending)
		m.pending = 0
	}
}

type action struct {
	Kind string // tick | finish | cancel
	N    int
}

func TestProp_SequentialHistories(t *testing.T) {
	rapid.Check(t, func(rt *rapid.T) {
		conc := rapid.IntRange(1, 6).Draw(rt, "concurrency")
		limit := uint64(rapid.OneOf(rapid.Just(0), rapid.IntRange(1, 12), rapid.IntRange(1, 6)).Draw(rt, "limit"))
		steps := rapid.IntRange(1, 30).Draw(rt, "steps")
		r := newRig(limit, conc, true, 0)
		m := &model{conc: conc, limit: limit, idle: conc}
		var hist []string
		var supersede, limitHitPending, cancelPending, limitHit bool
		fail := func(format string, args ...any) {
			r.shutdown(5 * time.Second)
			rt.Fatalf("VERIF-VIOLATION C02: "+format+"\nhistory (c=%d limit=%d): %s", append(args, conc, limit, strings.Join(hist, " "))...)
		}
		quiesce := func(after string) {
			ok := waitUntil(func() bool {
				return uint64(r.entered.Load()) == m.started && r.dropped() == m.dropped &&
					r.successes() == m.finished && (!m.limitDead || r.workerCtx.Err() != nil)
			})
			if !ok {
				fail("after %s no quiescence: model started=%d dropped=%d finished=%d limitDead=%v; observed started=%d dropped=%d finished=%d ctxErr=%v",
					after, m.started, m.dropped, m.finished, m.limitDead, r.entered.Load(), r.dropped(), r.successes(), r.workerCtx.Err())
			}
		}
		for i := 0; i < steps && !m.cancelled; i++ {
			var kinds []string
			kinds = append(kinds, "tick", "tick")
			if m.inflight > 0 {
				kinds = append(kinds, "finish", "finish")
			}
			if i > 2 {
				kinds = append(kinds, "cancel")
			}
			switch rapid.SampledFrom(kinds).Draw(rt, "action") {
			case "tick":
				n := rapid.IntRange(0, 2*conc+2).Draw(rt, "n")
				if m.pending > 0 && !m.dead() {
					supersede = true
				}
				before := m.limitDead
				pendingBefore := m.pending
				m.tick(n)
				if !before && m.limitDead {
					limitHit = true
					if n > 1 || pendingBefore > 0 {
						limitHitPending = true
					}
				}
				hist = append(hist, fmt.Sprintf("tick(%d)", n))
				r.tick(n)
				quiesce(fmt.Sprintf("tick(%d)", n))
			case "finish":
				k := rapid.IntRange(0, m.inflight-1).Draw(rt, "k")
				before := m.limitDead
				pendingBefore := m.pending
				m.finish()
				if !before && m.limitDead {
					limitHit = true
					if pendingBefore > 1 {
						limitHitPending = true
					}
				}
				id := r.finish(k)
				hist = append(hist, fmt.Sprintf("finish(#%d)", id))
				quiesce(fmt.Sprintf("finish(#%d)", id))
			case "cancel":
				if m.pending > 0 && !m.dead() {
					cancelPending = true
				}
				m.cancel()
				hist = append(hist, "cancel")
				r.cancel()
				quiesce("cancel")
			}
			if got := uint64(r.entered.Load()); got > m.started {
				fail("%d iterations started, the model allows %d", got, m.started)
			}
		}
		// end of history: stop triggering, let everything finish
		if !m.cancelled {
			if m.pending > 0 && !m.dead() {
				cancelPending = true
			}
			m.cancel()
			hist = append(hist, "cancel(end)")
			r.cancel()
			// the pending work must have been reported dropped before any body is released:
			// a worker freed before the pool has stopped may legitimately pick it up instead
			quiesce("cancel(end)")
		}
		if !r.shutdown(time.Duration(quiesceDeadline.Load())) {
			fail("workers did not finish after cancel + release of every iteration")
		}
		m.finished += uint64(m.inflight)
		m.inflight = 0
		quiesce("shutdown")

		nontrivial := supersede || limitHitPending || cancelPending
		cls := []string{}
		if supersede {
			cls = append(cls, "supersede-with-pending")
		}
		if limitHit {
			cls = append(cls, "limit-hit")
		}
		if limitHitPending {
			cls = append(cls, "limit-hit-with-pending")
		}
		if cancelPending {
			cls = append(cls, "cancel-with-pending")
		}
		stats.Case("sequential", fmt.Sprintf("c=%d l=%d %v", conc, limit, hist), nontrivial, cls, func() any {
			return map[string]any{"concurrency": conc, "limit": limit, "history": hist,
				"requested": m.requested, "started": m.started, "dropped": m.dropped, "silently_discarded": m.silent}
		})

		// exact equalities at the end
		if got := uint64(r.entered.Load()); got != m.started {
			fail("started %d, model %d", got, m.started)
		}
		if got := r.dropped(); got != m.dropped {
			fail("dropped %d, model %d", got, m.dropped)
		}
		mc, err := vlib.GatherCounts(r.m)
		if err != nil {
			rt.Fatalf("VERIF-INFRA: gather: %v", err)
		}
		if mc.Iteration["dropped"] != m.dropped {
			fail("dropped metric samples %d, model %d", mc.Iteration["dropped"], m.dropped)
		}
		if m.requested != m.started+m.dropped+m.silent {
			rt.Fatalf("VERIF-INFRA: model not conservative: %+v", *m)
		}
		if msg := gapless(r.idsCopy()); msg != "" {
			fail("%s", msg)
		}
		if limit > 0 && m.started > limit {
			rt.Fatalf("VERIF-INFRA: model exceeded limit")
		}
	})
}
