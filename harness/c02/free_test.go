package c02

import (
	"fmt"
	"sync"
	"testing"
	"time"

	"pgregory.net/rapid"

	"github.com/form3tech-oss/f1/v2/verifharness/vlib"
)

// stopWatcher observes the hook at the end of TriggerPool.stop (pending work drained).
type stopWatcher struct {
	once sync.Once
	done chan struct{}
}

func newStopWatcher() *stopWatcher { return &stopWatcher{done: make(chan struct{})} }

func (w *stopWatcher) observe(point string) {
	if point == "pool.stop.done" {
		w.once.Do(func() { close(w.done) })
	}
}

// settled waits until the pool's stop path has drained pending work. If the
// hook never fires (moved or removed by a change) it falls back to waiting for
// the observed totals to be stable for 100 ms.
func (w *stopWatcher) settled(r *rig) {
	select {
	case <-w.done:
		return
	case <-time.After(2 * time.Second):
	}
	last := uint64(r.entered.Load()) + r.dropped()
	stableSince := time.Now()
	deadline := time.Now().Add(10 * time.Second)
	for time.Now().Before(deadline) && time.Since(stableSince) < 100*time.Millisecond {
		time.Sleep(2 * time.Millisecond)
		if cur := uint64(r.entered.Load()) + r.dropped(); cur != last {
			last, stableSince = cur, time.Now()
		}
	}
}

// ---- engine B: free-running ticker, workers and cancel (no parking) -------------------------

func TestProp_FreeRunning(t *testing.T) {
	rapid.Check(t, func(rt *rapid.T) {
		conc := rapid.IntRange(1, 8).Draw(rt, "concurrency")
		limit := uint64(rapid.OneOf(rapid.Just(0), rapid.Just(0), rapid.IntRange(1, 60)).Draw(rt, "limit"))
		sizes := rapid.SliceOfN(rapid.IntRange(0, 2*conc+2), 3, 40).Draw(rt, "tickSizes")
		gapUs := rapid.SampledFrom([]int{0, 0, 5, 50, 300}).Draw(rt, "gapMicros")
		spinUs := rapid.SampledFrom([]int{0, 1, 20, 200}).Draw(rt, "bodyMicros")
		cancelAfterUs := rapid.IntRange(0, (len(sizes)+1)*(gapUs+20)).Draw(rt, "cancelAfterMicros")

		w := newStopWatcher()
		remove := vlib.InstallGates(w.observe)
		defer remove()
		r := newRig(limit, conc, false, time.Duration(spinUs)*time.Microsecond)

		var sure, unsure uint64
		straddles := 0
		tickerDone := make(chan struct{})
		go func() {
			defer close(tickerDone)
			for _, n := range sizes {
				e0 := r.workerCtx.Err()
				if e0 != nil {
					return // like the real ticker: stop once the worker context is done
				}
				r.tick(n)
				if r.workerCtx.Err() == nil {
					sure += uint64(n)
				} else {
					unsure += uint64(n)
					straddles++
				}
				if gapUs > 0 {
					time.Sleep(time.Duration(gapUs) * time.Microsecond)
				}
			}
		}()
		go func() {
			time.Sleep(time.Duration(cancelAfterUs) * time.Microsecond)
			r.cancel()
		}()
		<-tickerDone
		r.cancel()
		select {
		case <-r.pm.WaitForCompletion():
		case <-time.After(20 * time.Second):
			rt.Fatalf("VERIF-VIOLATION C02: workers did not finish within 20s of cancel (c=%d limit=%d ticks=%v)", conc, limit, sizes)
		}
		w.settled(r)
		started := uint64(r.entered.Load())
		dropped := r.dropped()
		ids := r.idsCopy()
		desc := fmt.Sprintf("c=%d limit=%d ticks=%v gap=%dus body=%dus cancelAfter=%dus", conc, limit, sizes, gapUs, spinUs, cancelAfterUs)
		cls := []string{}
		if straddles > 0 {
			cls = append(cls, "straddling-call")
		}
		if dropped > 0 {
			cls = append(cls, "with-drops")
		}
		if limit > 0 {
			cls = append(cls, "with-limit")
		}
		stats.Case("free", desc, straddles > 0 || dropped > 0, cls, func() any {
			return map[string]any{"case": desc, "surely_requested": sure, "straddling": unsure, "started": started, "dropped": dropped}
		})
		if straddles > 1 {
			rt.Fatalf("VERIF-INFRA: %d straddling calls", straddles)
		}
		if msg := gapless(ids); msg != "" {
			rt.Fatalf("VERIF-VIOLATION C02: %s (%s)", msg, desc)
		}
		if limit == 0 {
			if total := started + dropped; total != sure && total != sure+unsure {
				rt.Fatalf("VERIF-VIOLATION C02: requests not conserved: %d surely requested (+%d in a call straddling the cancel), but %d started + %d dropped = %d (%s)",
					sure, unsure, started, dropped, total, desc)
			}
		} else {
			if started > limit {
				rt.Fatalf("VERIF-VIOLATION C02: %d iterations started with max-iterations %d (%s)", started, limit, desc)
			}
			if started+dropped > sure+unsure {
				rt.Fatalf("VERIF-VIOLATION C02: %d started + %d dropped exceeds the %d requested (%s)", started, dropped, sure+unsure, desc)
			}
		}
	})
}
