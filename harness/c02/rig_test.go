package c02

import (
	"context"
	"fmt"
	"strconv"
	"sync"
	"sync/atomic"
	"testing"
	"time"

	"github.com/prometheus/client_golang/prometheus"

	"github.com/form3tech-oss/f1/v2/internal/log"
	"github.com/form3tech-oss/f1/v2/internal/metrics"
	"github.com/form3tech-oss/f1/v2/internal/progress"
	"github.com/form3tech-oss/f1/v2/internal/workers"
	"github.com/form3tech-oss/f1/v2/pkg/f1/scenarios"
	f1testing "github.com/form3tech-oss/f1/v2/pkg/f1/testing"
	"github.com/form3tech-oss/f1/v2/verifharness/vlib"
)

var stats = vlib.NewStats("C02")

func TestMain(m *testing.M) { vlib.Main(m, stats) }

// rig drives the real PoolManager/TriggerPool with gated iteration bodies.
type rig struct {
	st        *progress.Stats
	m         *metrics.Metrics
	pm        *workers.PoolManager
	pool      *workers.TriggerPool
	cancel    context.CancelFunc
	workerCtx context.Context

	mu       sync.Mutex
	ids      []uint64                 // iteration ids in order of body entry
	gates    map[uint64]chan struct{} // per in-flight iteration
	inflight []uint64                 // ids currently inside the body, oldest first
	entered  atomic.Int64
	exited   atomic.Int64
	gated    bool // bodies block until released
	openOnce sync.Once
	spin     time.Duration // free-running bodies: busy duration
	openAll  chan struct{}
}

func newRig(limit uint64, conc int, gated bool, spin time.Duration) *rig {
	r := &rig{st: &progress.Stats{}, gates: map[uint64]chan struct{}{}, gated: gated, spin: spin, openAll: make(chan struct{})}
	r.m = metrics.NewInstance(prometheus.NewRegistry(), true, nil)
	logger := log.NewDiscardLogger()
	sc := &scenarios.Scenario{Name: "c02", ScenarioFn: func(*f1testing.T) f1testing.RunFn {
		return func(it *f1testing.T) {
			id, _ := strconv.ParseUint(it.Iteration, 10, 64)
			var g chan struct{}
			r.mu.Lock()
			r.ids = append(r.ids, id)
			if r.gated {
				g = make(chan struct{})
				r.gates[id] = g
				r.inflight = append(r.inflight, id)
			}
			r.mu.Unlock()
			r.entered.Add(1)
			if g != nil {
				select {
				case <-g:
				case <-r.openAll:
				}
			} else if r.spin > 0 {
				end := time.Now().Add(r.spin)
				for time.Now().Before(end) {
				}
			}
			r.exited.Add(1)
		}
	}}
	as := workers.NewActiveScenario(sc, r.m, r.st, logger, log.NewSlogLogrusLogger(logger))
	as.Setup()
	r.pm = workers.New(limit, as)
	r.pool = r.pm.NewTriggerPool(conc)
	ctx, cancel := context.WithCancel(context.Background())
	r.cancel = cancel
	r.workerCtx = r.pool.Start(ctx)
	return r
}

func (r *rig) tick(n int) { r.pool.Trigger(r.workerCtx, n) }

// finish releases the k-th oldest in-flight body and returns its id.
func (r *rig) finish(k int) uint64 {
	r.mu.Lock()
	id := r.inflight[k]
	r.inflight = append(r.inflight[:k], r.inflight[k+1:]...)
	g := r.gates[id]
	delete(r.gates, id)
	r.mu.Unlock()
	close(g)
	return id
}

func (r *rig) dropped() uint64 {
	return r.st.Total().DroppedIterationCount
}

func (r *rig) successes() uint64 {
	return r.st.Total().SuccessfulIterationDurations.Count
}

func (r *rig) idsCopy() []uint64 {
	r.mu.Lock()
	defer r.mu.Unlock()
	return append([]uint64{}, r.ids...)
}

// shutdown cancels, releases every body and waits for the workers; it reports
// false if the workers did not finish within the deadline.
func (r *rig) shutdown(deadline time.Duration) bool {
	r.cancel()
	r.openOnce.Do(func() { close(r.openAll) })
	select {
	case <-r.pm.WaitForCompletion():
		return true
	case <-time.After(deadline):
		return false
	}
}

// quiesceDeadline is how long a request may stay neither started nor dropped
// before the harness calls it a violation. After the first expiry in a
// process it is shortened so that shrinking does not take forever.
var quiesceDeadline atomic.Int64

func init() { quiesceDeadline.Store(int64(20 * time.Second)) }

func waitUntil(cond func() bool) bool {
	deadline := time.Now().Add(time.Duration(quiesceDeadline.Load()))
	for i := 0; ; i++ {
		if cond() {
			return true
		}
		if time.Now().After(deadline) {
			quiesceDeadline.Store(int64(time.Second))
			return false
		}
		if i < 50 {
			time.Sleep(20 * time.Microsecond)
		} else {
			time.Sleep(500 * time.Microsecond)
		}
	}
}

func gapless(ids []uint64) string {
	seen := map[uint64]bool{}
	var max uint64
	for _, id := range ids {
		if seen[id] {
			return fmt.Sprintf("iteration id %d observed twice", id)
		}
		seen[id] = true
		if id > max {
			max = id
		}
	}
	if int(max) != len(ids) {
		return fmt.Sprintf("%d iterations started but ids reach %d (not gapless 1..k)", len(ids), max)
	}
	return ""
}

var _ = testing.Short
