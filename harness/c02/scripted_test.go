package c02

import (
	"context"
	"fmt"
	"testing"
	"time"

	"pgregory.net/rapid"

	"github.com/form3tech-oss/f1/v2/internal/workers"
	"github.com/form3tech-oss/f1/v2/verifharness/vlib"
)

const gateTimeout = 3 * time.Second

// ---- engine C: scripted races through gates ---------------------------------------------------

// (iii) a tick lands between the limit path's silent discard of pending work and its cancel:
// work that cannot start solely because the limit was reached must never be reported dropped.
func runLimitRace(conc int, limit uint64, first, second int) (msg string, reached bool) {
	w := newStopWatcher()
	g := vlib.NewGate("pool.limit.after_discard", 1, gateTimeout)
	remove := vlib.InstallGates(w.observe, g)
	defer remove()
	r := newRig(limit, conc, false, 0)
	r.tick(first) // first > limit: the workers run `limit` iterations, then one of them hits the limit
	select {
	case <-g.Arrived():
		reached = true
	case <-time.After(gateTimeout):
	}
	if reached {
		r.tick(second) // the worker context is not cancelled yet: this tick is accepted
	}
	g.Open()
	select {
	case <-r.pm.WaitForCompletion():
	case <-time.After(20 * time.Second):
		return fmt.Sprintf("workers did not finish after the limit was reached (c=%d limit=%d ticks=%d,%d)", conc, limit, first, second), reached
	}
	w.settled(r)
	r.cancel()
	started, dropped := uint64(r.entered.Load()), r.dropped()
	if started != limit {
		return fmt.Sprintf("limit %d, tick of %d: %d iterations started (c=%d)", limit, first, started, conc), reached
	}
	if dropped != 0 {
		return fmt.Sprintf("c=%d limit=%d: tick(%d) reached the limit; tick(%d) arrived between the limit path's discard and its cancel; %d iterations were reported dropped although they could not start solely because the limit was reached",
			conc, limit, first, second, dropped), reached
	}
	if m := gapless(r.idsCopy()); m != "" {
		return m, reached
	}
	return "", reached
}

func TestProp_ScriptedLimitRace(t *testing.T) {
	rapid.Check(t, func(rt *rapid.T) {
		conc := rapid.IntRange(1, 4).Draw(rt, "concurrency")
		limit := uint64(rapid.IntRange(1, 6).Draw(rt, "limit"))
		first := int(limit) + rapid.IntRange(1, 5).Draw(rt, "extra")
		second := rapid.IntRange(1, 8).Draw(rt, "second")
		msg, reached := runLimitRace(conc, limit, first, second)
		cls := []string{}
		if reached {
			cls = append(cls, "gate-reached")
		}
		stats.Case("scripted-limit", fmt.Sprint(conc, limit, first, second), reached, cls, func() any {
			return map[string]any{"script": "tick while the limit-hitting worker is between discard and cancel", "concurrency": conc, "limit": limit, "first_tick": first, "second_tick": second}
		})
		if msg != "" {
			rt.Fatalf("VERIF-VIOLATION C02: %s", msg)
		}
	})
}

// (i) a tick supersedes pending work while a worker is between the emptiness test and take.
func TestProp_ScriptedSupersedeDuringPickup(t *testing.T) {
	rapid.Check(t, func(rt *rapid.T) {
		conc := rapid.IntRange(1, 5).Draw(rt, "concurrency")
		n1 := rapid.IntRange(1, conc+2).Draw(rt, "first")
		n2 := rapid.IntRange(0, conc+3).Draw(rt, "second")
		nth := int32(rapid.IntRange(1, min(n1, conc)).Draw(rt, "nthArrival"))
		settleUs := rapid.SampledFrom([]int{0, 10, 100, 1000}).Draw(rt, "settleMicros")
		w := newStopWatcher()
		g := vlib.NewGate("pool.worker.before_take", nth, gateTimeout)
		remove := vlib.InstallGates(w.observe, g)
		defer remove()
		r := newRig(0, conc, true, 0)
		r.tick(n1)
		reached := false
		select {
		case <-g.Arrived():
			reached = true
		case <-time.After(gateTimeout):
		}
		if reached {
			// let the other woken workers settle: they either took a job or found none
			others := min(n1, conc-1)
			waitUntil(func() bool { return int(r.entered.Load()) >= others })
			r.tick(n2)
		}
		g.Open()
		// stop at a drawn moment after the parked worker resumed; conservation must hold whenever
		// the stop lands. Bodies are only released once the stop path has drained pending work.
		time.Sleep(time.Duration(settleUs) * time.Microsecond)
		r.cancel()
		w.settled(r)
		if !r.shutdown(20 * time.Second) {
			rt.Fatalf("VERIF-VIOLATION C02: workers did not finish (c=%d n1=%d n2=%d nth=%d)", conc, n1, n2, nth)
		}
		started, dropped := uint64(r.entered.Load()), r.dropped()
		requested := uint64(n1)
		if reached {
			requested += uint64(n2)
		}
		cls := []string{}
		if reached {
			cls = append(cls, "gate-reached")
		}
		stats.Case("scripted-pickup", fmt.Sprint(conc, n1, n2, nth), reached, cls, func() any {
			return map[string]any{"script": "tick while a worker is between the emptiness test and take", "concurrency": conc, "first_tick": n1, "second_tick": n2, "parked_arrival": nth,
				"started": started, "dropped": dropped}
		})
		if started+dropped != requested {
			rt.Fatalf("VERIF-VIOLATION C02: c=%d: tick(%d), then tick(%d) while worker arrival #%d was parked before take: %d started + %d dropped != %d requested",
				conc, n1, n2, nth, started, dropped, requested)
		}
		if m := gapless(r.idsCopy()); m != "" {
			rt.Fatalf("VERIF-VIOLATION C02: %s", m)
		}
	})
}

// (v) the pool is stopped while a worker is between the emptiness test and take, with the stop
// path itself parked between setting its flag and draining: whichever of the two goes first,
// every request is either started or reported dropped.
func TestProp_ScriptedStopDuringPickup(t *testing.T) {
	rapid.Check(t, func(rt *rapid.T) {
		conc := rapid.IntRange(1, 4).Draw(rt, "concurrency")
		n1 := rapid.IntRange(1, conc+3).Draw(rt, "tick")
		nth := int32(rapid.IntRange(1, min(n1, conc)).Draw(rt, "nthArrival"))
		workerFirst := rapid.Bool().Draw(rt, "workerResumesFirst")
		w := newStopWatcher()
		gw := vlib.NewGate("pool.worker.before_take", nth, gateTimeout)
		gs := vlib.NewGate("pool.stop.after_flag", 1, gateTimeout)
		remove := vlib.InstallGates(w.observe, gw, gs)
		defer remove()
		r := newRig(0, conc, true, 0)
		r.tick(n1)
		reached := false
		select {
		case <-gw.Arrived():
			reached = true
		case <-time.After(gateTimeout):
		}
		if reached {
			others := min(n1, conc-1)
			waitUntil(func() bool { return int(r.entered.Load()) >= others })
		}
		r.cancel()
		select {
		case <-gs.Arrived():
		case <-time.After(gateTimeout):
			reached = false
		}
		before := r.entered.Load()
		if workerFirst {
			gw.Open()
			// give the resumed worker time to take a job and enter its (gated) body
			deadline := time.Now().Add(20 * time.Millisecond)
			for time.Now().Before(deadline) && r.entered.Load() == before {
				time.Sleep(50 * time.Microsecond)
			}
			gs.Open()
		} else {
			gs.Open()
			select {
			case <-w.done:
			case <-time.After(gateTimeout):
			}
			gw.Open()
		}
		w.settled(r)
		if !r.shutdown(20 * time.Second) {
			rt.Fatalf("VERIF-VIOLATION C02: workers did not finish (c=%d tick=%d nth=%d workerFirst=%v)", conc, n1, nth, workerFirst)
		}
		started, dropped := uint64(r.entered.Load()), r.dropped()
		cls := []string{}
		if reached {
			cls = append(cls, "gate-reached")
		}
		if workerFirst {
			cls = append(cls, "worker-resumes-before-drain")
		}
		stats.Case("scripted-stop-pickup", fmt.Sprint(conc, n1, nth, workerFirst), reached, cls, func() any {
			return map[string]any{"script": "stop while a worker is between the emptiness test and take", "concurrency": conc, "tick": n1, "parked_arrival": nth, "worker_first": workerFirst,
				"started": started, "dropped": dropped}
		})
		if started+dropped != uint64(n1) {
			rt.Fatalf("VERIF-VIOLATION C02: c=%d tick(%d): the pool was stopped while worker arrival #%d was between the emptiness test and take (worker resumed first: %v): %d started + %d dropped != %d requested",
				conc, n1, nth, workerFirst, started, dropped, n1)
		}
	})
}

// (ii)/(iv) cancel while the ticking goroutine is between its context check and the hand-over,
// optionally with the stop path parked between its flag and its drain.
func TestProp_ScriptedCancelDuringTick(t *testing.T) {
	rapid.Check(t, func(rt *rapid.T) {
		conc := rapid.IntRange(1, 5).Draw(rt, "concurrency")
		sizes := rapid.SliceOfN(rapid.IntRange(0, conc+3), 1, 6).Draw(rt, "tickSizes")
		parkAt := rapid.IntRange(1, len(sizes)).Draw(rt, "parkedTick")
		variant := rapid.IntRange(0, 2).Draw(rt, "variant") // 0: stop completes first; 1: open at once; 2: stop parked after its flag
		w := newStopWatcher()
		tg := vlib.NewGate("pool.trigger.after_ctx_check", int32(parkAt), gateTimeout)
		gates := []*vlib.Gate{tg}
		var sg *vlib.Gate
		if variant == 2 {
			sg = vlib.NewGate("pool.stop.after_flag", 1, gateTimeout)
			gates = append(gates, sg)
		}
		remove := vlib.InstallGates(w.observe, gates...)
		defer remove()
		r := newRig(0, conc, false, 0)
		var before uint64
		tickerDone := make(chan struct{})
		go func() {
			defer close(tickerDone)
			for i := 0; i < parkAt; i++ {
				r.tick(sizes[i])
			}
		}()
		for i := 0; i < parkAt-1; i++ {
			before += uint64(sizes[i])
		}
		parked := uint64(sizes[parkAt-1])
		reached := false
		select {
		case <-tg.Arrived():
			reached = true
		case <-time.After(gateTimeout):
		}
		r.cancel()
		switch variant {
		case 0:
			select {
			case <-w.done:
			case <-time.After(gateTimeout):
			}
		case 2:
			select {
			case <-sg.Arrived():
			case <-time.After(gateTimeout):
			}
		}
		tg.Open()
		<-tickerDone
		if sg != nil {
			time.Sleep(200 * time.Microsecond)
			sg.Open()
		}
		select {
		case <-r.pm.WaitForCompletion():
		case <-time.After(20 * time.Second):
			rt.Fatalf("VERIF-VIOLATION C02: workers did not finish after cancel (c=%d ticks=%v parked=%d variant=%d)", conc, sizes, parkAt, variant)
		}
		w.settled(r)
		started, dropped := uint64(r.entered.Load()), r.dropped()
		cls := []string{fmt.Sprintf("variant-%d", variant)}
		if reached {
			cls = append(cls, "gate-reached")
		}
		stats.Case("scripted-cancel", fmt.Sprint(conc, sizes, parkAt, variant), reached, cls, func() any {
			return map[string]any{"script": "cancel while the ticker is between its context check and the hand-over", "concurrency": conc, "ticks": sizes[:parkAt], "variant": variant,
				"started": started, "dropped": dropped}
		})
		total := started + dropped
		if !reached {
			parked = 0
			before = 0
			for i := 0; i < parkAt; i++ {
				before += uint64(sizes[i])
			}
		}
		if total != before && total != before+parked {
			rt.Fatalf("VERIF-VIOLATION C02: c=%d ticks=%v: cancel while tick #%d (%d requests) was between its context check and the hand-over (variant %d): %d started + %d dropped = %d, expected %d or %d",
				conc, sizes[:parkAt], parkAt, parked, variant, started, dropped, total, before, before+parked)
		}
		if m := gapless(r.idsCopy()); m != "" {
			rt.Fatalf("VERIF-VIOLATION C02: %s", m)
		}
	})
}

// ---- engine D: every interleaving of the pending counter's three operations -------------------

type cop struct {
	Kind int // 0 set, 1 none, 2 take
	N    int
}

func (o cop) String() string {
	switch o.Kind {
	case 0:
		return fmt.Sprintf("set(%d)", o.N)
	case 1:
		return "none"
	}
	return "take"
}

// merges enumerates every order-preserving interleaving of the threads' op lists.
func merges(threads [][]cop, visit func([]cop)) int {
	pos := make([]int, len(threads))
	total := 0
	for _, t := range threads {
		total += len(t)
	}
	cur := make([]cop, 0, total)
	count := 0
	var rec func()
	rec = func() {
		if len(cur) == total {
			count++
			visit(cur)
			return
		}
		for i, t := range threads {
			if pos[i] < len(t) {
				cur = append(cur, t[pos[i]])
				pos[i]++
				rec()
				pos[i]--
				cur = cur[:len(cur)-1]
			}
		}
	}
	rec()
	return count
}

// checkCounterSequence runs one linearisation on the real counter. Each operation is a single
// atomic instruction, so the set of linearisations is the set of behaviours.
func checkCounterSequence(seq []cop) string {
	var c workers.VerifJobCounter
	// abstract reference: the number of jobs still pending (never negative). How the implementation
	// represents "a worker asked when nothing was pending" (e.g. a negative counter) is its business:
	// only what set reports as left over (clamped at 0), and what none/take answer, is compared.
	var pending int64
	var setVal, takes int64 // current period: value set, successful takes since
	havePeriod := false
	for i, op := range seq {
		switch op.Kind {
		case 0:
			left := max(0, c.Set(op.N))
			if left != pending {
				return fmt.Sprintf("op %d %v reported %d jobs left over, %d were still pending (sequence %v)", i, op, left, pending, seq)
			}
			if havePeriod && setVal != takes+left {
				return fmt.Sprintf("period law broken before op %d: set %d, %d successful takes, leftover %d (sequence %v)", i, setVal, takes, left, seq)
			}
			pending = int64(op.N)
			setVal, takes, havePeriod = int64(op.N), 0, true
		case 1:
			if got, want := c.None(), pending == 0; got != want {
				return fmt.Sprintf("op %d none()=%v with %d pending (sequence %v)", i, got, pending, seq)
			}
		case 2:
			got := c.Take()
			want := pending > 0
			if got != want {
				return fmt.Sprintf("op %d take()=%v with %d pending before it (sequence %v)", i, got, pending, seq)
			}
			if got {
				pending--
				takes++
			}
		}
	}
	if havePeriod {
		left := max(0, c.Set(0))
		if setVal != takes+left {
			return fmt.Sprintf("period law broken at the end: set %d, %d successful takes, leftover %d (sequence %v)", setVal, takes, left, seq)
		}
	}
	return ""
}

func TestProp_CounterMerges(t *testing.T) {
	rapid.Check(t, func(rt *rapid.T) {
		opGen := rapid.Custom(func(t *rapid.T) cop {
			k := rapid.SampledFrom([]int{0, 1, 2, 2}).Draw(t, "kind")
			n := 0
			if k == 0 {
				n = rapid.IntRange(0, 3).Draw(t, "n")
				// one tick in six requests 2^31 .. 2^62 iterations (a rate such as 3000000000/1s with
				// --distribution none): the counter must hold it, none() must say "work pending"
				if rapid.IntRange(0, 5).Draw(t, "huge") == 0 {
					n = rapid.SampledFrom([]int{1<<31 - 1, 1 << 31, 3000000000, 1<<32 + 1, 1 << 40, 1 << 62}).Draw(t, "hugeN")
				}
			}
			return cop{Kind: k, N: n}
		})
		nthreads := rapid.IntRange(1, 3).Draw(rt, "threads")
		var threads [][]cop
		for i := 0; i < nthreads; i++ {
			threads = append(threads, rapid.SliceOfN(opGen, 1, 3).Draw(rt, fmt.Sprintf("ops%d", i)))
		}
		var failure string
		hasSetAndTake := false
		n := merges(threads, func(seq []cop) {
			if failure == "" {
				failure = checkCounterSequence(seq)
			}
		})
		var sets, takes int
		for _, th := range threads {
			for _, o := range th {
				if o.Kind == 0 && o.N > 0 {
					sets++
				}
				if o.Kind == 2 {
					takes++
				}
			}
		}
		hasSetAndTake = sets > 0 && takes > 0 && nthreads > 1
		ccls := []string{fmt.Sprintf("threads-%d", nthreads)}
		for _, th := range threads {
			for _, o := range th {
				if o.Kind == 0 && o.N >= 1<<31 && len(ccls) == 1 {
					ccls = append(ccls, "tick-of-2^31-or-more-requests")
				}
			}
		}
		stats.Case("counter", fmt.Sprint(threads), hasSetAndTake, ccls, func() any {
			return map[string]any{"threads": fmt.Sprint(threads), "interleavings": n}
		})
		stats.AddNote("counter_interleavings", int64(n))
		if failure != "" {
			rt.Fatalf("VERIF-VIOLATION C02: pending counter: %s", failure)
		}
	})
}

// TestRegress replays past failures with fixed parameters.
func TestRegress(t *testing.T) {
	// F7: limit 2, first tick 3, second tick 4 in the window
	if msg, reached := runLimitRace(1, 2, 3, 4); msg != "" && reached {
		t.Errorf("VERIF-VIOLATION C02: %s", msg)
	}
	if msg, reached := runLimitRace(3, 1, 5, 2); msg != "" && reached {
		t.Errorf("VERIF-VIOLATION C02: %s", msg)
	}
	for _, seq := range [][]cop{
		{{0, 1}, {2, 0}, {2, 0}, {0, 3}, {2, 0}},
		{{2, 0}, {0, 2}, {1, 0}, {2, 0}, {2, 0}, {2, 0}, {0, 0}},
	} {
		if msg := checkCounterSequence(seq); msg != "" {
			t.Errorf("VERIF-VIOLATION C02: %s", msg)
		}
	}
}

// (vi) the limit has already been reached by an earlier pool of the same PoolManager (an
// earlier config-file stage); work handed to a later pool cannot start solely because of the
// limit and must never be reported dropped - whether it is superseded by a tick or swept by the
// stop path before any worker of the new pool asked for an id.
func TestProp_ScriptedLimitSecondPool(t *testing.T) {
	rapid.Check(t, func(rt *rapid.T) {
		conc := rapid.IntRange(1, 3).Draw(rt, "concurrency")
		limit := uint64(rapid.IntRange(1, 4).Draw(rt, "limit"))
		n1 := rapid.IntRange(1, 5).Draw(rt, "secondPoolTick")
		n2 := rapid.IntRange(0, 5).Draw(rt, "secondPoolSecondTick")
		sweepBy := rapid.SampledFrom([]string{"tick", "stop"}).Draw(rt, "sweptBy")

		r := newRig(limit, conc, false, 0)
		r.tick(int(limit) + 2) // the first pool runs `limit` iterations and hits the limit
		select {
		case <-r.pm.WaitForCompletion():
		case <-time.After(20 * time.Second):
			rt.Fatalf("VERIF-VIOLATION C02: first pool did not stop after the limit (c=%d limit=%d)", conc, limit)
		}
		if !waitUntil(func() bool { return r.pm.MaxIterationsReached() }) {
			rt.Fatalf("VERIF-INFRA: limit not reached")
		}
		w := newStopWatcher()
		g := vlib.NewGate("pool.worker.before_take", 1, gateTimeout)
		remove := vlib.InstallGates(w.observe, g)
		defer remove()
		droppedBefore := r.dropped()
		pool2 := r.pm.NewTriggerPool(conc)
		ctx2, cancel2 := context.WithCancel(context.Background())
		defer cancel2()
		w2 := pool2.Start(ctx2)
		pool2.Trigger(w2, n1)
		reached := false
		select {
		case <-g.Arrived():
			reached = true
		case <-time.After(gateTimeout):
		}
		if sweepBy == "tick" {
			pool2.Trigger(w2, n2)
		}
		cancel2()
		select {
		case <-w.done:
		case <-time.After(gateTimeout):
		}
		g.Open()
		select {
		case <-r.pm.WaitForCompletion():
		case <-time.After(20 * time.Second):
			rt.Fatalf("VERIF-VIOLATION C02: second pool did not stop (c=%d limit=%d)", conc, limit)
		}
		started, dropped := uint64(r.entered.Load()), r.dropped()
		cls := []string{"swept-by-" + sweepBy}
		if reached {
			cls = append(cls, "gate-reached")
		}
		stats.Case("scripted-limit-second-pool", fmt.Sprint(conc, limit, n1, n2, sweepBy), reached, cls, func() any {
			return map[string]any{"script": "limit reached by an earlier pool; later pool's work superseded / swept", "concurrency": conc, "limit": limit, "tick": n1, "second_tick": n2, "swept_by": sweepBy}
		})
		if started != limit {
			rt.Fatalf("VERIF-VIOLATION C02: limit %d but %d iterations started across two pools", limit, started)
		}
		if dropped != droppedBefore {
			rt.Fatalf("VERIF-VIOLATION C02: c=%d limit=%d already reached by an earlier pool; a later pool was handed %d (then %d) requests, swept by %s before a worker asked for an id: %d iterations were reported dropped although they could not start solely because of the limit",
				conc, limit, n1, n2, sweepBy, dropped-droppedBefore)
		}
	})
}

// ---- engine E: many workers, many small back-to-back ticks, exact conservation -----------------

func TestProp_TickHammer(t *testing.T) {
	rapid.Check(t, func(rt *rapid.T) {
		conc := rapid.SampledFrom([]int{8, 16, 32}).Draw(rt, "concurrency")
		ticks := rapid.SampledFrom([]int{20000, 100000}).Draw(rt, "ticks")
		size := rapid.IntRange(1, 3).Draw(rt, "tickSize")
		w := newStopWatcher()
		remove := vlib.InstallGates(w.observe)
		defer remove()
		r := newRig(0, conc, false, 0)
		var requested uint64
		for i := 0; i < ticks; i++ {
			r.tick(size)
			requested += uint64(size)
		}
		// every tick returned under a live context: all of them were accepted
		r.cancel()
		select {
		case <-r.pm.WaitForCompletion():
		case <-time.After(20 * time.Second):
			rt.Fatalf("VERIF-VIOLATION C02: workers did not finish (c=%d ticks=%d)", conc, ticks)
		}
		w.settled(r)
		started, dropped := uint64(r.entered.Load()), r.dropped()
		stats.Case("hammer", fmt.Sprint(conc, ticks, size), dropped > 0 && started > 0, []string{}, func() any {
			return map[string]any{"concurrency": conc, "ticks": ticks, "tick_size": size, "started": started, "dropped": dropped}
		})
		if started+dropped != requested {
			rt.Fatalf("VERIF-VIOLATION C02: %d workers, %d back-to-back ticks of %d: requested %d iterations, but started %d + dropped %d = %d",
				conc, ticks, size, requested, started, dropped, started+dropped)
		}
		if msg := gapless(r.idsCopy()); msg != "" {
			rt.Fatalf("VERIF-VIOLATION C02: %s", msg)
		}
	})
}
