package c04

import (
	"context"
	"fmt"
	"strings"
	"sync"
	"sync/atomic"
	"testing"
	"time"

	"pgregory.net/rapid"

	f1testing "github.com/form3tech-oss/f1/v2/pkg/f1/testing"
	"github.com/form3tech-oss/f1/v2/verifharness/vlib"
)

// Engine "file-stages": the same triggers run as the stages of a config file. Every stage gets a
// pool of its own - `limits.concurrency` workers for a rate stage, the stage's `concurrency` for a
// users stage - whatever the stages before it did and whether or not their last iterations are
// still running when it begins.
//
// Attribution is by handle: a pool's workers own one handle each for the pool's whole life, so a
// handle first seen after the k-th stage began belongs to stage k or later. Per stage the oracle is
//   - lower bound: the first tick of a rate stage requests >= concurrency (a users stage always
//     does), every body waits on the stage's barrier, which opens only when `expected` bodies of
//     that stage are inside at once; it must open;
//   - upper bound: never more than `expected` bodies on handles of that stage at once (judged only
//     when every earlier pool was seen completely, i.e. showed all its handles, so that no handle
//     of an earlier pool can be mistaken for one of this stage);
//   - no handle is handed to two concurrently executing iterations.
type fileStage struct {
	UsersOmitted bool // users stage without `concurrency`
	Users        int  // 0 = constant-rate stage
	Expected     int
	DurMs        int
	TailMs       int // how long the first `Expected` bodies of the stage keep running after the barrier opened
}

type stageProbe struct {
	inside    atomic.Int64
	inFlight  atomic.Int64
	highWater atomic.Int64
	open      chan struct{}
	once      sync.Once
	entered   atomic.Int64
}

func TestProp_FileStages(t *testing.T) {
	dir := t.TempDir()
	rapid.Check(t, func(rt *rapid.T) {
		conc := rapid.OneOf(rapid.IntRange(2, 6), rapid.IntRange(2, 24)).Draw(rt, "limitsConcurrency")
		n := rapid.IntRange(2, 3).Draw(rt, "stages")
		// half of the files carry a default section with a concurrency of its own: it is what a users
		// stage without `concurrency` gets - never what a rate stage runs with (that is the limit)
		defConc := 0
		if rapid.Bool().Draw(rt, "defaultSection") {
			defConc = rapid.IntRange(1, 2*conc).Draw(rt, "defaultConcurrency")
		}
		stages := make([]fileStage, n)
		var b strings.Builder
		for i := range stages {
			st := &stages[i]
			st.DurMs = rapid.IntRange(200, 350).Draw(rt, "stageMs")
			st.Expected = conc
			if rapid.IntRange(0, 2).Draw(rt, "usersStage") == 0 {
				st.Users = rapid.IntRange(1, 2*conc).Draw(rt, "users")
				st.Expected = st.Users
				if rapid.IntRange(0, 2).Draw(rt, "usersFromDefault") == 0 {
					st.UsersOmitted = true // takes default.concurrency, or limits.concurrency without a default
					st.Expected = conc
					if defConc > 0 {
						st.Expected = defConc
					}
					st.Users = st.Expected
				}
			}
			// bodies that end with the barrier, shortly after, or only after the next stage has begun
			st.TailMs = rapid.SampledFrom([]int{0, 5, st.DurMs + 60}).Draw(rt, "tailMs")
		}
		fmt.Fprintf(&b, "scenario: %s\nlimits:\n  max-duration: 8s\n  concurrency: %d\n  max-iterations: 0\n  ignore-dropped: true\n", vlib.ScenarioName, conc)
		if defConc > 0 {
			fmt.Fprintf(&b, "default:\n  concurrency: %d\n", defConc)
		}
		b.WriteString("stages:\n")
		for _, st := range stages {
			if st.UsersOmitted {
				fmt.Fprintf(&b, "- duration: %dms\n  mode: users\n", st.DurMs)
			} else if st.Users > 0 {
				fmt.Fprintf(&b, "- duration: %dms\n  mode: users\n  concurrency: %d\n", st.DurMs, st.Users)
			} else {
				extra := rapid.IntRange(0, conc).Draw(rt, "extraRequests")
				fmt.Fprintf(&b, "- duration: %dms\n  mode: constant\n  rate: %d/1s\n  jitter: 0\n  distribution: none\n", st.DurMs, conc+extra)
			}
		}
		// f1 gives the whole plan a budget of the sum of its stage durations; stages that start late (a
		// loaded machine, stragglers) eat into the last stage, which may then never get its first tick
		// accepted. A final idle stage (no requests) that is not judged keeps the judged ones clear of
		// the end of the budget; the run is cancelled as soon as it begins.
		b.WriteString("- duration: 2s\n  mode: constant\n  rate: 0/1s\n  jitter: 0\n  distribution: none\n")
		yaml := b.String()
		desc := strings.ReplaceAll(yaml, "\n", "|") + fmt.Sprintf(" tails=%v", func() []int {
			var r []int
			for _, st := range stages {
				r = append(r, st.TailMs)
			}
			return r
		}())

		var begun atomic.Int32 // number of stages that have begun
		ctx, cancel := context.WithCancel(context.Background())
		defer cancel()
		remove := vlib.InstallGates(func(point string) {
			if point == "file.stage.begin" {
				if int(begun.Add(1)) > n {
					cancel() // the idle padding stage has begun: the judged stages are over
				}
			}
		})
		defer remove()

		probes := make([]*stageProbe, n)
		for i := range probes {
			probes[i] = &stageProbe{open: make(chan struct{})}
		}
		var mu sync.Mutex
		handleStage := map[*f1testing.T]int{}
		live := map[*f1testing.T]string{}
		seen := make([]int, n) // distinct handles first seen in stage i
		var problems []string
		scenario := func(*f1testing.T) f1testing.RunFn {
			return func(it *f1testing.T) {
				cur := int(begun.Load()) - 1
				if cur < 0 {
					cur = 0
				}
				if cur >= n {
					cur = n - 1
				}
				mu.Lock()
				si, known := handleStage[it]
				if !known {
					si = cur
					handleStage[it] = si
					seen[si]++
				}
				if other, ok := live[it]; ok && len(problems) < 5 {
					problems = append(problems, fmt.Sprintf("iteration %s was handed the test handle %p that is still in use by iteration %s", it.Iteration, it, other))
				}
				live[it] = it.Iteration
				// the upper bound of stage si is judged only if all earlier pools showed all their handles
				complete := true
				for j := 0; j < si; j++ {
					if seen[j] != stages[j].Expected {
						complete = false
					}
				}
				mu.Unlock()
				p := probes[si]
				st := stages[si]
				k := p.inFlight.Add(1)
				for {
					hw := p.highWater.Load()
					if k <= hw || p.highWater.CompareAndSwap(hw, k) {
						break
					}
				}
				if complete && k > int64(st.Expected) {
					mu.Lock()
					if len(problems) < 5 {
						problems = append(problems, fmt.Sprintf("iteration %s entered while %d others were executing on handles of stage %d, whose pool has %d workers", it.Iteration, k-1, si, st.Expected))
					}
					mu.Unlock()
				}
				defer func() {
					mu.Lock()
					delete(live, it)
					mu.Unlock()
					p.inFlight.Add(-1)
				}()
				nth := p.entered.Add(1)
				if p.inside.Add(1) >= int64(st.Expected) {
					p.once.Do(func() { close(p.open) })
				}
				select {
				case <-p.open:
				case <-time.After(3 * time.Second): // give up; judged after Do returned
				}
				p.inside.Add(-1)
				if nth <= int64(st.Expected) && st.TailMs > 0 {
					time.Sleep(time.Duration(st.TailMs) * time.Millisecond)
				}
			}
		}
		spec := &vlib.RunSpec{Mode: "file", FileYAML: yaml, FileDir: dir, ScenarioFn: scenario, WaitTimeout: 20 * time.Second, Ctx: ctx}
		// one case in three through `run file <path>`: the CLI's own mapping of the file's limits
		viaCLI := rapid.IntRange(0, 2).Draw(rt, "viaCLI") == 0
		var err error
		if viaCLI {
			_, err = vlib.ExecuteCLI(spec)
		} else {
			_, err = vlib.Execute(spec)
		}
		if err != nil {
			rt.Fatalf("VERIF-INFRA: cannot execute %s: %v", desc, err)
		}
		straggle := false
		for i, st := range stages {
			if i < n-1 && st.TailMs > st.DurMs {
				straggle = true
			}
		}
		cls := []string{fmt.Sprintf("stages-%d", n)}
		if straggle {
			cls = append(cls, "iterations-outlive-their-stage")
		}
		usersThenRate := false
		for i := 1; i < n; i++ {
			if stages[i-1].Users > 0 && stages[i].Users == 0 && stages[i-1].Users != conc {
				usersThenRate = true
			}
		}
		if usersThenRate {
			cls = append(cls, "users-stage-then-rate-stage")
		}
		if defConc > 0 && defConc != conc {
			cls = append(cls, "default-concurrency-differs-from-limit")
		}
		if viaCLI {
			cls = append(cls, "through-the-cli")
		}
		var hws []int64
		for _, p := range probes {
			hws = append(hws, p.highWater.Load())
		}
		stats.Case("file-stages", desc, true, cls, func() any {
			return map[string]any{"config": desc, "high_water_per_stage": hws}
		})
		mu.Lock()
		ps := append([]string{}, problems...)
		mu.Unlock()
		if len(ps) > 0 {
			rt.Fatalf("VERIF-VIOLATION C04: %v (high-water marks per stage %v; %s)", ps, hws, desc)
		}
		for i, p := range probes {
			select {
			case <-p.open:
			default:
				rt.Fatalf("VERIF-VIOLATION C04: stage %d had at least %d requests pending for its pool of %d workers, but they never executed at the same time (at most %d did; high-water marks per stage %v) (%s)",
					i, stages[i].Expected, stages[i].Expected, p.highWater.Load(), hws, desc)
			}
		}
	})
}
