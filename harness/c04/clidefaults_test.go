package c04

import (
	"fmt"
	"strconv"
	"sync"
	"sync/atomic"
	"testing"
	"time"

	"pgregory.net/rapid"

	"github.com/form3tech-oss/f1/v2/pkg/f1"
	f1testing "github.com/form3tech-oss/f1/v2/pkg/f1/testing"
	"github.com/form3tech-oss/f1/v2/verifharness/vlib"
)

// Engine "cli-sequence": "for every concurrency value" includes the documented default (100, when
// --concurrency is not given) and the value of THIS command line when an earlier run of the same
// process - on the same F1 instance or on another - was given a different one. 2-3 users-mode runs
// through f1.New().Add().ExecuteWithArgs in a row; in each, every body waits on a barrier that opens
// only when `expected` bodies are inside at once (it must open), and no more than `expected` may ever
// be in flight.
const defaultConcurrency = 100 // the CLI's documented default of --concurrency

func TestProp_CLISequence(t *testing.T) {
	rapid.Check(t, func(rt *rapid.T) {
		runs := rapid.IntRange(2, 3).Draw(rt, "runs")
		sameInstance := rapid.Bool().Draw(rt, "sameF1Instance")
		type runPlan struct {
			Given    bool
			Conc     int
			Expected int
		}
		plans := make([]runPlan, runs)
		anyDefault := false
		for i := range plans {
			p := &plans[i]
			p.Given = rapid.IntRange(0, 2).Draw(rt, "concurrencyGiven") != 0
			if i == runs-1 && !anyDefault && rapid.Bool().Draw(rt, "lastOmits") {
				p.Given = false
			}
			if p.Given {
				p.Conc = rapid.OneOf(rapid.IntRange(1, 8), rapid.IntRange(1, 300)).Draw(rt, "concurrency")
				p.Expected = p.Conc
			} else {
				p.Expected = defaultConcurrency
				anyDefault = true
			}
		}
		var cur atomic.Pointer[runProbe]
		scenario := func(*f1testing.T) f1testing.RunFn {
			return func(*f1testing.T) {
				p := cur.Load()
				k := p.inFlight.Add(1)
				defer p.inFlight.Add(-1)
				for {
					hw := p.highWater.Load()
					if k <= hw || p.highWater.CompareAndSwap(hw, k) {
						break
					}
				}
				if k >= int64(p.expected) {
					p.once.Do(func() { close(p.open) })
				}
				select {
				case <-p.open:
				case <-time.After(3 * time.Second): // give up; judged after the run returned
				}
			}
		}
		var app *f1.F1
		desc := fmt.Sprintf("same F1 instance=%v runs=%+v", sameInstance, plans)
		for i, pl := range plans {
			if app == nil || !sameInstance {
				app = vlib.NewCLIApp(scenario)
			}
			p := &runProbe{expected: pl.Expected, open: make(chan struct{})}
			cur.Store(p)
			// enough iterations for every worker to be inside once, then the limit ends the run
			args := []string{"run", "users", vlib.ScenarioName, "-v", "--max-duration", "8s", "--max-iterations", strconv.Itoa(pl.Expected)}
			if pl.Given {
				args = append(args, "--concurrency", strconv.Itoa(pl.Conc))
			}
			_ = app.ExecuteWithArgs(args)
			hw := p.highWater.Load()
			opened := false
			select {
			case <-p.open:
				opened = true
			default:
			}
			cls := []string{}
			if !pl.Given {
				cls = append(cls, "concurrency-omitted")
				if i > 0 {
					cls = append(cls, "concurrency-omitted-after-an-explicit-run")
				}
			}
			stats.Case("cli-sequence", fmt.Sprintf("%s #%d", desc, i), true, cls, func() any {
				return map[string]any{"sequence": desc, "run": i, "args": args, "high_water": hw}
			})
			what := fmt.Sprintf("--concurrency %d", pl.Conc)
			if !pl.Given {
				what = "no --concurrency (default 100)"
			}
			if hw > int64(pl.Expected) {
				rt.Fatalf("VERIF-VIOLATION C04: run #%d with %s had %d iterations in flight at once (%s)", i, what, hw, desc)
			}
			if !opened {
				rt.Fatalf("VERIF-VIOLATION C04: run #%d in users mode with %s never had %d iterations executing at the same time within 3 s (at most %d) (%s)", i, what, pl.Expected, hw, desc)
			}
		}
	})
}

type runProbe struct {
	expected  int
	inFlight  atomic.Int64
	highWater atomic.Int64
	open      chan struct{}
	once      sync.Once
}
