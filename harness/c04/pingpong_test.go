package c04

import (
	"context"
	"fmt"
	"sync"
	"sync/atomic"
	"testing"
	"time"

	"github.com/prometheus/client_golang/prometheus"
	"pgregory.net/rapid"

	"github.com/form3tech-oss/f1/v2/internal/log"
	"github.com/form3tech-oss/f1/v2/internal/metrics"
	"github.com/form3tech-oss/f1/v2/internal/progress"
	"github.com/form3tech-oss/f1/v2/internal/workers"
	"github.com/form3tech-oss/f1/v2/pkg/f1/scenarios"
	f1testing "github.com/form3tech-oss/f1/v2/pkg/f1/testing"
	"github.com/form3tech-oss/f1/v2/verifharness/vlib"
)

// TestProp_PingPong: "when at least `concurrency` requests are pending all workers can be executing"
// checked at the moment it is hardest - right when the workers go idle. The harness hands the
// real TriggerPool (instant bodies) bursts of 1-8 back-to-back ticks of `concurrency` requests
// with drawn 0-4 us gaps, so that ticks keep landing while workers are on their way back to
// waiting, then stays silent until every request of the burst is started or dropped. A worker
// that slept through the last tick (lost wake-up) leaves a request pending with an idle worker,
// and since the harness only ticks again after the burst is accounted for, it stays there.
func TestProp_PingPong(t *testing.T) {
	rapid.Check(t, func(rt *rapid.T) {
		conc := rapid.SampledFrom([]int{1, 1, 2, 3}).Draw(rt, "concurrency")
		rounds := rapid.SampledFrom([]int{vlib.EnvInt("PP_ROUNDS", 3000), vlib.EnvInt("PP_ROUNDS", 10000)}).Draw(rt, "rounds")
		maxSpin := rapid.SampledFrom([]int{0, 200, 1000, 4000}).Draw(rt, "maxSpinNanos")
		lcg := uint64(rapid.Uint32().Draw(rt, "spinSeed"))*2 + 1

		st := &progress.Stats{}
		m := metrics.NewInstance(prometheus.NewRegistry(), false, nil)
		logger := log.NewDiscardLogger()
		var entered atomic.Int64
		sc := &scenarios.Scenario{Name: "c04", ScenarioFn: func(*f1testing.T) f1testing.RunFn {
			return func(*f1testing.T) { entered.Add(1) }
		}}
		as := workers.NewActiveScenario(sc, m, st, logger, log.NewSlogLogrusLogger(logger))
		as.Setup()
		pm := workers.New(0, as)
		pool := pm.NewTriggerPool(conc)
		ctx, cancel := context.WithCancel(context.Background())
		defer cancel()
		wctx := pool.Start(ctx)

		// bursts of back-to-back ticks (each superseding what is still pending), then silence: after
		// the last tick of a burst every request must end up started or dropped - with instant bodies
		// that means some worker must pick the last request up although ticks kept landing while it
		// was on its way back to waiting.
		stuckAt := -1
		var got int64
		var requested int64
		next := func(n uint64) uint64 {
			lcg = lcg*6364136223846793005 + 1442695040888963407
			return (lcg >> 33) % n
		}
		for r := 0; r < rounds; r++ {
			k := 1 + int(next(8))
			for i := 0; i < k; i++ {
				pool.Trigger(wctx, conc)
				requested += int64(conc)
				if maxSpin > 0 {
					end := time.Now().Add(time.Duration(next(uint64(maxSpin))))
					for time.Now().Before(end) {
					}
				}
			}
			deadline := time.Time{}
			for spins := 0; ; spins++ {
				if entered.Load()+int64(st.Total().DroppedIterationCount) >= requested {
					break
				}
				if spins > 200 {
					if deadline.IsZero() {
						deadline = time.Now().Add(10 * time.Second)
					} else if time.Now().After(deadline) {
						stuckAt, got = r, entered.Load()+int64(st.Total().DroppedIterationCount)
						break
					}
					time.Sleep(20 * time.Microsecond)
				}
			}
			if stuckAt >= 0 {
				break
			}
		}
		cancel()
		select {
		case <-pm.WaitForCompletion():
		case <-time.After(10 * time.Second):
			if stuckAt < 0 {
				rt.Fatalf("VERIF-VIOLATION C04: after %d ping-pong rounds with %d workers the pool did not stop within 10 s of cancel (a worker missed the stop broadcast)", rounds, conc)
			}
		}
		stats.Case("pingpong", fmt.Sprint(conc, rounds, maxSpin, lcg), true, []string{fmt.Sprintf("conc-%d", conc)}, func() any {
			return map[string]any{"concurrency": conc, "rounds": rounds, "max_spin_ns": maxSpin}
		})
		if stuckAt >= 0 {
			rt.Fatalf("VERIF-VIOLATION C04: burst %d: %d iterations were requested so far but only %d were started or dropped within 10 s of the last tick, with %d workers that have nothing to do - a worker that was going idle slept through the tick",
				stuckAt, requested, got, conc)
		}
	})
}

// TestProp_ScriptedAllWorkersPickUp: all `concurrency` workers are brought to the point between
// the emptiness test and take at the same moment (a barrier on the yield point), with
// concurrency + extra requests pending, and released together. All `concurrency` of them must
// end up executing at the same time (bodies wait for each other).
func TestProp_ScriptedAllWorkersPickUp(t *testing.T) {
	rapid.Check(t, func(rt *rapid.T) {
		conc := rapid.IntRange(2, 10).Draw(rt, "concurrency")
		first := conc + rapid.IntRange(0, 2*conc).Draw(rt, "extra")
		bar := vlib.NewBarrier("pool.worker.before_take", int32(conc), 3*time.Second)
		remove := vlib.InstallHooks(nil, nil, []*vlib.Barrier{bar})
		defer remove()

		st := &progress.Stats{}
		m := metrics.NewInstance(prometheus.NewRegistry(), false, nil)
		logger := log.NewDiscardLogger()
		var inside, high atomic.Int64
		open := make(chan struct{})
		var once sync.Once
		sc := &scenarios.Scenario{Name: "c04", ScenarioFn: func(*f1testing.T) f1testing.RunFn {
			return func(*f1testing.T) {
				n := inside.Add(1)
				for {
					h := high.Load()
					if n <= h || high.CompareAndSwap(h, n) {
						break
					}
				}
				if n >= int64(conc) {
					once.Do(func() { close(open) })
				}
				select {
				case <-open:
				case <-time.After(5 * time.Second):
				}
				inside.Add(-1)
			}
		}}
		as := workers.NewActiveScenario(sc, m, st, logger, log.NewSlogLogrusLogger(logger))
		as.Setup()
		pm := workers.New(0, as)
		pool := pm.NewTriggerPool(conc)
		ctx, cancel := context.WithCancel(context.Background())
		defer cancel()
		wctx := pool.Start(ctx)
		pool.Trigger(wctx, first)
		reached := false
		select {
		case <-bar.Full():
			reached = true
		case <-time.After(3 * time.Second):
		}
		opened := false
		select {
		case <-open:
			opened = true
		case <-time.After(6 * time.Second):
		}
		cancel()
		once.Do(func() { close(open) })
		select {
		case <-pm.WaitForCompletion():
		case <-time.After(20 * time.Second):
		}
		cls := []string{}
		if reached {
			cls = append(cls, "barrier-full")
		}
		if first%conc != 0 {
			cls = append(cls, "requests-not-multiple-of-workers")
		}
		stats.Case("scripted-pickup", fmt.Sprint(conc, first), reached, cls, func() any {
			return map[string]any{"script": "all workers released together between the emptiness test and take", "concurrency": conc, "requests": first, "max_executing": high.Load()}
		})
		if !opened {
			rt.Fatalf("VERIF-VIOLATION C04: %d requests were pending and all %d workers were released together just before taking one; at most %d iterations executed at the same time within 6 s",
				first, conc, high.Load())
		}
	})
}
