package c04

import (
	"context"
	"fmt"
	"strconv"
	"sync"
	"sync/atomic"
	"testing"
	"time"

	"pgregory.net/rapid"

	f1testing "github.com/form3tech-oss/f1/v2/pkg/f1/testing"
	"github.com/form3tech-oss/f1/v2/verifharness/vlib"
)

var stats = vlib.NewStats("C04")

func TestMain(m *testing.M) { vlib.Main(m, stats) }

var c04Modes = []string{"constant", "staged", "ramp", "gaussian", "users"}

// probe is the scenario-side oracle state: in-flight counter with high-water mark and the
// set of live per-iteration handles.
type probe struct {
	inFlight  atomic.Int64
	highWater atomic.Int64
	mu        sync.Mutex
	live      map[*f1testing.T]string
	problems  []string
	entries   atomic.Int64
}

func newProbe() *probe { return &probe{live: map[*f1testing.T]string{}} }

func (p *probe) enter(it *f1testing.T, conc int) {
	n := p.inFlight.Add(1)
	p.entries.Add(1)
	for {
		hw := p.highWater.Load()
		if n <= hw || p.highWater.CompareAndSwap(hw, n) {
			break
		}
	}
	p.mu.Lock()
	if n > int64(conc) && len(p.problems) < 5 {
		p.problems = append(p.problems, fmt.Sprintf("iteration %s entered while %d others were executing (concurrency %d)", it.Iteration, n-1, conc))
	}
	if other, ok := p.live[it]; ok && len(p.problems) < 5 {
		p.problems = append(p.problems, fmt.Sprintf("iteration %s was handed the test handle %p that is still in use by iteration %s", it.Iteration, it, other))
	}
	p.live[it] = it.Iteration
	p.mu.Unlock()
}

func (p *probe) leave(it *f1testing.T) {
	p.mu.Lock()
	delete(p.live, it)
	p.mu.Unlock()
	p.inFlight.Add(-1)
}

// TestProp_UpperBound: never more than `concurrency` bodies at once, never a shared handle.
func TestProp_UpperBound(t *testing.T) {
	dir := t.TempDir()
	rapid.Check(t, func(rt *rapid.T) {
		shape := vlib.GenShape(rt, vlib.ShapeOpts{Modes: c04Modes, MaxConcurrency: 48, MinDur: 60 * time.Millisecond, MaxDur: 300 * time.Millisecond, MaxPerTick: 200})
		// offered load: tick sizes from 0.5c to 4c are reached by PerTick in [1,200] vs c in [1,48]
		pattern := rapid.SampledFrom([]string{"fixed", "bimodal", "by-id"}).Draw(rt, "bodyPattern")
		baseUs := rapid.SampledFrom([]int{0, 200, 2000, 20000}).Draw(rt, "bodyMicros")
		p := newProbe()
		// in a third of the cases an iteration is not over when its body returns: it registered a cleanup
		// that takes a while, and the handle is the iteration's own until that cleanup is through
		cleanupUs := rapid.SampledFrom([]int{0, 0, 0, 200, 3000, 15000}).Draw(rt, "cleanupMicros")
		scenario := func(*f1testing.T) f1testing.RunFn {
			return func(it *f1testing.T) {
				p.enter(it, shape.Concurrency)
				if cleanupUs > 0 {
					mine := it.Iteration
					defer p.inFlight.Add(-1) // the bound is on executing iteration FUNCTIONS
					it.Cleanup(func() {
						time.Sleep(time.Duration(cleanupUs) * time.Microsecond)
						p.mu.Lock()
						if now := it.Iteration; now != mine && len(p.problems) < 5 {
							p.problems = append(p.problems, fmt.Sprintf("the handle of iteration %s was re-labelled %q while that iteration's cleanup was still running", mine, now))
						}
						delete(p.live, it)
						p.mu.Unlock()
					})
				} else {
					defer p.leave(it)
				}
				id, _ := strconv.ParseUint(it.Iteration, 10, 64)
				d := time.Duration(baseUs) * time.Microsecond
				switch pattern {
				case "bimodal":
					if id%3 == 0 {
						d *= 5
					}
				case "by-id":
					d = d * time.Duration(id%7) / 3
				}
				if d > 0 {
					time.Sleep(d)
				}
			}
		}
		spec := shape.Spec(dir)
		spec.ScenarioFn = scenario
		spec.WaitTimeout = 20 * time.Second
		// one case in four through the public entry point: the CLI's own mapping of --concurrency
		viaCLI := rapid.IntRange(0, 3).Draw(rt, "viaCLI") == 0
		var err error
		if viaCLI {
			_, err = vlib.ExecuteCLI(spec)
		} else {
			_, err = vlib.Execute(spec)
		}
		if err != nil {
			rt.Fatalf("VERIF-INFRA: cannot execute %s: %v", shape.Desc, err)
		}
		hw := p.highWater.Load()
		pressed := hw == int64(shape.Concurrency)
		cls := []string{"mode-" + shape.Mode}
		if viaCLI {
			cls = append(cls, "through-the-cli")
		}
		if pressed {
			cls = append(cls, "bound-pressed")
		}
		if cleanupUs > 0 {
			cls = append(cls, "handle-held-through-a-cleanup")
		}
		stats.Case("upper", shape.Desc+pattern+fmt.Sprint(baseUs, cleanupUs), pressed, cls, func() any {
			return map[string]any{"shape": shape.Desc, "body": pattern, "bodyMicros": baseUs, "high_water": hw, "iterations": p.entries.Load()}
		})
		p.mu.Lock()
		problems := append([]string{}, p.problems...)
		p.mu.Unlock()
		if len(problems) > 0 {
			rt.Fatalf("VERIF-VIOLATION C04: %v (high-water mark %d, %s)", problems, hw, shape.Desc)
		}
	})
}

// TestProp_Rendezvous: when at least `concurrency` requests are pending (users: always) all
// workers can execute at the same time: each body waits on a barrier that only opens once
// `concurrency` bodies are inside at once.
func TestProp_Rendezvous(t *testing.T) {
	dir := t.TempDir()
	rapid.Check(t, func(rt *rapid.T) {
		mode := rapid.SampledFrom(c04Modes).Draw(rt, "mode")
		conc := rapid.OneOf(rapid.IntRange(2, 8), rapid.IntRange(2, 48)).Draw(rt, "concurrency")
		extra := rapid.IntRange(0, conc).Draw(rt, "extraRequests")
		first := conc + extra // the first tick requests at least `concurrency`
		flags := map[string]string{}
		switch mode {
		case "constant":
			flags["rate"] = fmt.Sprintf("%d/1s", first)
			flags["distribution"] = "none"
		case "staged":
			flags["stages"] = fmt.Sprintf("0s:%d,10s:%d", first, first)
			flags["iterationFrequency"] = "1s"
			flags["distribution"] = "none"
		case "ramp":
			flags["start-rate"] = fmt.Sprintf("%d/1s", first)
			flags["end-rate"] = fmt.Sprintf("%d/1s", first+1)
			flags["ramp-duration"] = "10s"
			flags["distribution"] = "none"
		case "gaussian":
			// flat bell: 1 s ticks over a 10 s window, each requesting about volume/10 >= first
			flags["repeat"] = "10s"
			flags["iteration-frequency"] = "1s"
			flags["peak"] = "5s"
			flags["standard-deviation"] = "500s"
			flags["volume"] = strconv.Itoa(10*first + 10)
			flags["distribution"] = "none"
		}
		var inside atomic.Int64
		open := make(chan struct{})
		var once sync.Once
		ctx, cancel := context.WithCancel(context.Background())
		defer cancel()
		p := newProbe()
		// "twice" (users mode, 1 case in 2): every body of the first round registers a cleanup that itself
		// registers a cleanup (a shared release helper does that); the workers must all be usable again
		// afterwards: a second barrier, for the iterations that follow, must open as well
		twice := mode == "users" && rapid.Bool().Draw(rt, "twice")
		var entered, inside2 atomic.Int64
		open2 := make(chan struct{})
		var once2 sync.Once
		scenario := func(*f1testing.T) f1testing.RunFn {
			return func(it *f1testing.T) {
				p.enter(it, conc)
				defer p.leave(it)
				if twice && entered.Add(1) > int64(conc) {
					// second round
					if inside2.Add(1) >= int64(conc) {
						once2.Do(func() { close(open2); cancel() })
					}
					select {
					case <-open2:
					case <-time.After(4 * time.Second):
					}
					inside2.Add(-1)
					return
				}
				if twice {
					it.Cleanup(func() { it.Cleanup(func() {}) })
				}
				if inside.Add(1) >= int64(conc) {
					once.Do(func() {
						close(open)
						if !twice {
							cancel()
						}
					})
				}
				select {
				case <-open:
				case <-time.After(8 * time.Second): // give up; the run will be judged after Do returns
				}
				inside.Add(-1)
			}
		}
		spec := &vlib.RunSpec{Mode: mode, Flags: flags, FileDir: dir, ScenarioFn: scenario, WaitTimeout: 20 * time.Second, Ctx: ctx}
		if twice {
			spec.WaitTimeout = 3 * time.Second // a worker that never comes back must not hold the check up for long
		}
		spec.Opts.Concurrency = conc
		spec.Opts.MaxDuration = 5 * time.Second
		spec.Opts.IgnoreDropped = true
		// an iteration limit far out of reach takes no worker away
		limit := rapid.SampledFrom([]uint64{0, 0, 0, 1 << 40, 1<<63 - 1, 1 << 63, 1<<64 - 1}).Draw(rt, "maxIterations")
		spec.Opts.MaxIterations = limit
		if _, err := vlib.Execute(spec); err != nil {
			rt.Fatalf("VERIF-INFRA: cannot execute %s %v: %v", mode, flags, err)
		}
		opened := false
		select {
		case <-open:
			opened = true
		default:
		}
		desc := fmt.Sprintf("%s c=%d first-tick=%d flags=%v max-iterations=%d", mode, conc, first, flags, limit)
		rcls := []string{"mode-" + mode}
		if twice {
			rcls = append(rcls, "second-round-after-nested-cleanup-registration")
		}
		if limit >= 1<<62 {
			rcls = append(rcls, "limit-around-2^63-or-2^64")
		}
		stats.Case("rendezvous", desc, true, rcls, func() any {
			return map[string]any{"case": desc, "barrier_opened": opened, "high_water": p.highWater.Load()}
		})
		p.mu.Lock()
		problems := append([]string{}, p.problems...)
		p.mu.Unlock()
		if len(problems) > 0 {
			rt.Fatalf("VERIF-VIOLATION C04: %v (%s)", problems, desc)
		}
		if !opened {
			rt.Fatalf("VERIF-VIOLATION C04: with %d requests pending the %d workers never executed at the same time within 5 s (at most %d did) (%s)",
				first, conc, p.highWater.Load(), desc)
		}
		if twice {
			select {
			case <-open2:
			default:
				rt.Fatalf("VERIF-VIOLATION C04: the %d workers executed at the same time once, each registering a cleanup that registers a cleanup; for the iterations after that they never did again within 5 s (users mode: work is always pending) (%s)", conc, desc)
			}
		}
	})
}
