// Package c11 decides property C11: over one full repeat window the gaussian
// profile requests the configured volume (scaled by that window's weight over
// the mean weight) to within the discretisation error of its tick frequency,
// fractional rates being carried; requests are never negative and no tick
// requests more than one above the tick nearest the configured peak.
package c11

import (
	"fmt"
	"math"
	"strconv"
	"strings"
	"testing"
	"time"

	"pgregory.net/rapid"

	"github.com/form3tech-oss/f1/v2/internal/trigger/gaussian"
	"github.com/form3tech-oss/f1/v2/verifharness/vlib"
)

var stats = vlib.NewStats("C11")

func TestMain(m *testing.M) { vlib.Main(m, stats) }

// knownN1 is the identifier under which the N = 1 defect (DESIGN section 4, F6,
// gaussian half) would be listed in /verif/known_findings.json while it is open.
const knownN1 = "F6-gaussian-frequency-equals-repeat"

// ---------------------------------------------------------------------------
// case
// ---------------------------------------------------------------------------

type gcase struct {
	F        time.Duration `json:"tick_ns"`   // tick frequency f
	N        int           `json:"n"`         // ticks per window, repeat window R = N*f
	Peak     time.Duration `json:"peak_ns"`   // offset of the peak inside the window, in [0,R)
	Sigma    time.Duration `json:"sigma_ns"`  // standard deviation, >= f
	Volume   float64       `json:"volume"`    // >= 1
	Weights  []float64     `json:"weights"`   // none, or non-negative with positive mean
	BaseUnix int64         `json:"base_unix"` // any instant; windows are aligned from it
	Start    int           `json:"start"`     // first evaluated window, counted from the start of the weight cycle
	Windows  int           `json:"windows"`   // consecutive windows evaluated
	Entry    string        `json:"entry"`     // "calculator" (NewCalculator.For) or "rates" (CalculateGaussianRate.Rate)
	Zone     int           `json:"zone_s"`    // zone offset of the timestamps handed in (0 = UTC)
	Mono     bool          `json:"monotonic"` // the timestamps carry a monotonic clock reading, like those of time.Now() and of tickers
}

// monoNow is a reading of the process clock (wall + monotonic) taken once.
var monoNow = time.Now()

func (c gcase) R() time.Duration { return c.F * time.Duration(c.N) }

func (c gcase) L() int {
	if len(c.Weights) == 0 {
		return 1
	}
	return len(c.Weights)
}

func (c gcase) key() string {
	return fmt.Sprintf("%d/%d/%d/%d/%v/%v/%d/%d/%d/%s/%d", c.F, c.N, c.Peak, c.Sigma, c.Volume, c.Weights,
		c.BaseUnix, c.Start, c.Windows, c.Entry, c.Zone) + fmt.Sprint(c.Mono)
}

func (c gcase) String() string {
	return fmt.Sprintf("{tick=%s N=%d repeat=%s peak=%s stddev=%s volume=%v weights=%v base=%d start=%d windows=%d entry=%s zone=%d}",
		c.F, c.N, c.R(), c.Peak, c.Sigma, c.Volume, c.Weights, c.BaseUnix, c.Start, c.Windows, c.Entry, c.Zone)
}

// inDomain is the property's quantifier (volume >= 1, frequency dividing the
// window with N >= 2, peak inside the window, stddev >= frequency, weights
// none or non-negative with positive mean). A generator that leaves it is a
// harness bug.
func (c gcase) inDomain() string {
	switch {
	case c.F <= 0 || c.N < 2:
		return "N < 2"
	case c.R()/time.Duration(c.N) != c.F:
		return "repeat overflows"
	case c.Peak < 0 || c.Peak >= c.R():
		return "peak outside the window"
	case c.Sigma < c.F:
		return "stddev below the frequency"
	case !(c.Volume >= 1) || math.IsInf(c.Volume, 0):
		return "volume below 1"
	case c.Windows < 2 || c.Windows < len(c.Weights)+1:
		return "too few windows"
	case c.Start < 0 || c.Start >= c.L():
		return "start outside the weight cycle"
	}
	if len(c.Weights) > 0 {
		sum := 0.0
		for _, w := range c.Weights {
			if !(w >= 0) || math.IsInf(w, 0) {
				return "negative weight"
			}
			sum += w
		}
		if !(sum > 0) {
			return "weights without positive mean"
		}
	}
	return ""
}

func weightsArg(ws []float64) string {
	parts := make([]string, len(ws))
	for i, w := range ws {
		parts[i] = strconv.FormatFloat(w, 'g', -1, 64)
	}
	return strings.Join(parts, ",")
}

// ---------------------------------------------------------------------------
// oracle: normal density / mass re-implemented here (math.Exp, math.Erf/Erfc)
// ---------------------------------------------------------------------------

func pdf(x, mu, sigma float64) float64 {
	z := (x - mu) / sigma
	return math.Exp(-0.5*z*z) / (sigma * math.Sqrt(2*math.Pi))
}

// mass is the probability of [a,b] under N(mu, sigma), computed without
// cancellation (differences of erfc on one side of the mean, erf across it).
func mass(a, b, mu, sigma float64) float64 {
	za := (a - mu) / (sigma * math.Sqrt2)
	zb := (b - mu) / (sigma * math.Sqrt2)
	switch {
	case za >= 0:
		return 0.5 * (math.Erfc(za) - math.Erfc(zb))
	case zb <= 0:
		return 0.5 * (math.Erfc(-zb) - math.Erfc(-za))
	default:
		return 0.5 * (math.Erf(zb) - math.Erf(za))
	}
}

type bound struct {
	Covered  float64 `json:"covered"`  // mass of [0, R-f]: what the profile renormalises by
	Endpoint float64 `json:"endpoint"` // f/2 (g(0) + g(R-f))
	Trap     float64 `json:"trap"`     // f^2/8 * total variation of g'
	Eps      float64 `json:"eps"`      // (Endpoint + Trap) / Covered
}

// epsilon is the discretisation bound of a left Riemann sum with step f over
// the N ticks 0, f, ..., R-f of a density g, relative to the mass of [0, R-f]:
//
//	f * sum_{k<N} g(kf) = T + f/2 (g(0) + g(R-f)),  T = composite trapezoid over [0, R-f]
//	|T - integral_0^{R-f} g| <= f^2/8 * integral |g''| <= f^2/8 * TV(g') = f^2/8 * 4 e^{-1/2} / (sigma^2 sqrt(2 pi))
//
// (Peano kernel of the trapezoid rule, max (x-a)(b-x)/2 = f^2/8 per panel; g'
// rises to e^{-1/2}/(sigma^2 sqrt(2 pi)) at mu-sigma, falls to minus that at
// mu+sigma and returns to 0, so its total variation is four times that.)
func epsilon(c gcase) bound {
	f, mu, sigma := float64(c.F), float64(c.Peak), float64(c.Sigma)
	last := float64(c.R() - c.F)
	b := bound{
		Covered:  mass(0, last, mu, sigma),
		Endpoint: f / 2 * (pdf(0, mu, sigma) + pdf(last, mu, sigma)),
		Trap:     f * f / 8 * 4 * math.Exp(-0.5) / (sigma * sigma * math.Sqrt(2*math.Pi)),
	}
	b.Eps = (b.Endpoint + b.Trap) / b.Covered
	return b
}

// fpSlack allows for float64 rounding inside the code under test, which is not
// a discretisation effect: it renormalises by CDF(R-f)-CDF(0), a difference of
// two values in [0,1] each good to about an ulp (2^-53), so the relative error
// of the result is up to ~2^-51/covered; 8x that is allowed, plus 1e-3 absolute
// for the N accumulated products and the remainder arithmetic.
func fpSlack(vw float64, b bound) float64 {
	return 1e-3 + vw*math.Ldexp(1, -48)/b.Covered
}

func (c gcase) meanWeight() float64 {
	if len(c.Weights) == 0 {
		return 1
	}
	s := 0.0
	for _, w := range c.Weights {
		s += w
	}
	return s / float64(len(c.Weights))
}

// windowVolume is V * w_j / mean(w) for the window that is idx windows into
// the weight cycle.
func (c gcase) windowVolume(idx int) float64 {
	if len(c.Weights) == 0 {
		return c.Volume
	}
	return c.Volume * c.Weights[idx%len(c.Weights)] / c.meanWeight()
}

// peakTicks are the in-window tick indices nearest the configured peak (two on an exact tie).
func (c gcase) peakTicks() []int {
	q := int(c.Peak / c.F)
	rem := c.Peak % c.F
	var ks []int
	switch {
	case 2*rem < c.F:
		ks = []int{q}
	case 2*rem > c.F:
		ks = []int{q + 1}
	default:
		ks = []int{q, q + 1}
	}
	var in []int
	for _, k := range ks {
		if k <= c.N-1 {
			in = append(in, k)
		}
	}
	if len(in) == 0 {
		in = []int{c.N - 1}
	}
	return in
}

// ---------------------------------------------------------------------------
// running the code under test
// ---------------------------------------------------------------------------

type observation struct {
	sums    []int64 // per evaluated window
	minVal  int
	minAt   [2]int
	overBy  int // largest (value - peak value) seen in one window
	overAt  [2]int
	peakVal []int
	newErr  error
}

func (c gcase) location() *time.Location {
	if c.Zone == 0 {
		return time.UTC
	}
	return time.FixedZone("verif", c.Zone)
}

// cycleStart is an instant aligned on R*L counted from the zero time, which is
// how Calculator.For finds the start of the weight cycle (Time.Truncate).
func (c gcase) cycleStart() time.Time {
	return time.Unix(c.BaseUnix, 0).In(c.location()).Truncate(c.R() * time.Duration(c.L()))
}

func (c gcase) rateFn() (func(time.Time) int, error) {
	if c.Entry == "rates" {
		rates, err := gaussian.CalculateGaussianRate(c.Volume, 0, c.R(), c.F, c.Peak, c.Sigma, weightsArg(c.Weights), "none")
		if err != nil {
			return nil, err
		}
		if rates.IterationDuration != c.F {
			return nil, fmt.Errorf("iteration duration %s differs from the configured frequency %s", rates.IterationDuration, c.F)
		}
		return rates.Rate, nil
	}
	if c.Entry == "builder" {
		// the CLI's builder: flag set -> gaussian.Rate().New
		flags := map[string]string{"volume": strconv.FormatFloat(c.Volume, 'g', -1, 64), "repeat": c.R().String(), "iteration-frequency": c.F.String(),
			"peak": c.Peak.String(), "standard-deviation": c.Sigma.String(), "distribution": "none"}
		if len(c.Weights) > 0 {
			flags["weights"] = weightsArg(c.Weights)
		}
		trig, err := vlib.BuildTrigger(&vlib.RunSpec{Mode: "gaussian", Flags: flags})
		if err != nil {
			return nil, err
		}
		return trig.DryRun, nil
	}
	calc, err := gaussian.NewCalculator(c.Peak, c.Sigma, c.F, c.Weights, c.Volume, c.R())
	if err != nil {
		return nil, err
	}
	return calc.For, nil
}

// observe evaluates the profile on base.Truncate(R*L) + (start+j)*R + k*f.
// infra != "" means the harness' own timestamps are not aligned as assumed.
func observe(c gcase) (obs observation, infra string, panicked any) {
	defer func() {
		if r := recover(); r != nil {
			panicked = r
		}
	}()
	fn, err := c.rateFn()
	if err != nil {
		obs.newErr = err
		return obs, "", nil
	}
	R, L := c.R(), c.L()
	cycle := c.cycleStart()
	peaks := c.peakTicks()
	obs.sums = make([]int64, c.Windows)
	obs.peakVal = make([]int, c.Windows)
	obs.minVal = math.MaxInt
	obs.overBy = math.MinInt
	vals := make([]int, c.N)
	for j := 0; j < c.Windows; j++ {
		ws := cycle.Add(time.Duration(c.Start+j) * R)
		// the alignment Calculator.For relies on
		if !ws.Truncate(R).Equal(ws) {
			return obs, fmt.Sprintf("window start %s is not aligned on the repeat window", ws), nil
		}
		if idx := (c.Start + j) % L; !ws.Truncate(R * time.Duration(L)).Add(time.Duration(idx) * R).Equal(ws) {
			return obs, fmt.Sprintf("window start %s is not %d windows into its weight cycle", ws, idx), nil
		}
		var sum int64
		for k := 0; k < c.N; k++ {
			at := ws.Add(time.Duration(k) * c.F)
			if c.Mono {
				at = monoNow.Add(at.Sub(monoNow)) // same instant, with a monotonic reading attached
			}
			v := fn(at)
			vals[k] = v
			sum += int64(v)
			if v < obs.minVal {
				obs.minVal, obs.minAt = v, [2]int{j, k}
			}
		}
		obs.sums[j] = sum
		pv := math.MinInt
		for _, k := range peaks {
			if vals[k] > pv {
				pv = vals[k]
			}
		}
		obs.peakVal[j] = pv
		for k, v := range vals {
			// subtraction cannot overflow: only compared when both are >= 0
			if v >= 0 && pv >= 0 && v-pv > obs.overBy {
				obs.overBy, obs.overAt = v-pv, [2]int{j, k}
			}
		}
	}
	return obs, "", nil
}

// verdict returns a violation message ("" if the property holds on this case)
// or an infrastructure message.
func verdict(c gcase) (violation, infra string) {
	if why := c.inDomain(); why != "" {
		return "", "generated case outside the quantifier (" + why + "): " + c.String()
	}
	b := epsilon(c)
	if !(b.Covered > 0) || math.IsNaN(b.Eps) || math.IsInf(b.Eps, 0) {
		return "", fmt.Sprintf("oracle cannot bound the discretisation error (covered=%g) for %s", b.Covered, c)
	}
	obs, infra, panicked := observe(c)
	if infra != "" {
		return "", infra
	}
	if panicked != nil {
		return fmt.Sprintf("panic %v for %s", panicked, c), ""
	}
	if obs.newErr != nil {
		return fmt.Sprintf("input inside the property's domain rejected (%v): %s", obs.newErr, c), ""
	}
	if obs.minVal < 0 {
		return fmt.Sprintf("negative request %d at window %d tick %d for %s", obs.minVal, obs.minAt[0], obs.minAt[1], c), ""
	}
	for j, sum := range obs.sums {
		vw := c.windowVolume(c.Start + j)
		tol := b.Eps*vw + 1 + fpSlack(vw, b)
		if d := math.Abs(float64(sum) - vw); d > tol {
			return fmt.Sprintf("window %d (weight index %d) requested %d, configured volume for it %.6f: off by %.6f > allowed %.6f "+
				"(eps=%.3e covered=%.6g) for %s; all window sums %v", j, (c.Start+j)%c.L(), sum, vw, d, tol, b.Eps, b.Covered, c, obs.sums), ""
		}
	}
	// "fractional rates being carried to later ticks rather than lost" - also from one window into the
	// next: the requests of the windows evaluated so far add up to the sum of their real-valued tick
	// rates rounded down, so the running total is within ONE request (not one per window) of the
	// running total of the configured volumes, discretisation error aside.
	var cum int64
	var cumVol, cumTol float64
	for j, sum := range obs.sums {
		vw := c.windowVolume(c.Start + j)
		cum += sum
		cumVol += vw
		cumTol += b.Eps*vw + fpSlack(vw, b)
		if d := math.Abs(float64(cum) - cumVol); d > cumTol+1 {
			return fmt.Sprintf("windows 0..%d together requested %d, their configured volumes add up to %.6f: off by %.6f > allowed %.6f "+
				"(one carried request plus the discretisation error of %d windows; eps=%.3e) - fractions were lost between windows - for %s; window sums %v",
				j, cum, cumVol, d, cumTol+1, j+1, b.Eps, c, obs.sums), ""
		}
	}
	if obs.overBy > 1 {
		j, k := obs.overAt[0], obs.overAt[1]
		return fmt.Sprintf("window %d tick %d requests %d, more than one above the %d requested at the tick nearest the peak (ticks %v) for %s",
			j, k, obs.peakVal[j]+obs.overBy, obs.peakVal[j], c.peakTicks(), c), ""
	}
	return "", ""
}

// ---------------------------------------------------------------------------
// what the case can see (measured per case with the harness' own density):
// would a specific wrong profile be outside the allowed band on this input?
// ---------------------------------------------------------------------------

type reach struct {
	Disc       float64 `json:"disc"` // exact relative discretisation error of the left Riemann sum
	NoCarry    bool    `json:"sees_lost_carry"`
	NoRenorm   bool    `json:"sees_missing_renormalisation"`
	Shift      bool    `json:"sees_weight_index_shift"`
	SumNotMean bool    `json:"sees_sum_instead_of_mean"`
}

func measureReach(c gcase, b bound) reach {
	f, mu, sigma := float64(c.F), float64(c.Peak), float64(c.Sigma)
	g := make([]float64, c.N)
	riemann := 0.0
	for k := range g {
		g[k] = f * pdf(float64(time.Duration(k)*c.F), mu, sigma)
		riemann += g[k]
	}
	r := reach{Disc: riemann/b.Covered - 1}
	tol := func(vw float64) float64 { return b.Eps*vw + 1 + fpSlack(vw, b) }
	L := c.L()
	for j := 0; j < c.Windows; j++ {
		idx := (c.Start + j) % L
		vw := c.windowVolume(idx)
		// the +-1 the carried fraction may hide is given to the wrong profile
		if math.Abs(vw*riemann-vw)-1 > tol(vw) {
			r.NoRenorm = true
		}
		if L > 1 {
			if other := c.windowVolume(idx + 1); math.Abs(other*(1+r.Disc)-vw)-1 > tol(vw) {
				r.Shift = true
			}
			if math.Abs(vw/float64(L)*(1+r.Disc)-vw)-1 > tol(vw) {
				r.SumNotMean = true
			}
		}
	}
	// lost carry: every tick floors its own rate; look at the heaviest evaluated window
	best := 0.0
	for j := 0; j < c.Windows; j++ {
		if vw := c.windowVolume(c.Start + j); vw > best {
			best = vw
		}
	}
	floors := 0.0
	for _, gk := range g {
		floors += math.Floor(best * gk / b.Covered)
	}
	r.NoCarry = math.Abs(floors-best) > tol(best)
	return r
}

// nontrivial is the rule of the design: the bound is tight (eps < 1 %) and some
// evaluated window is asked for at least N/4 requests (so fractions matter).
func nontrivial(c gcase, b bound) bool {
	if !(b.Eps < 0.01) {
		return false
	}
	for j := 0; j < c.Windows; j++ {
		if c.windowVolume(c.Start+j) >= float64(c.N)/4 {
			return true
		}
	}
	return false
}

func record(section string, c gcase) string {
	b := epsilon(c)
	if !(b.Covered > 0) {
		return fmt.Sprintf("oracle: covered mass %g for %s", b.Covered, c)
	}
	rc := measureReach(c, b)
	// the derived bound must dominate the exact discretisation error (continuous numeric validation of epsilon)
	if math.Abs(rc.Disc) > b.Eps*(1+1e-9)+1e-10 {
		return fmt.Sprintf("derived bound eps=%g is below the exact discretisation error %g for %s", b.Eps, rc.Disc, c)
	}
	nt := nontrivial(c, b)
	cls := []string{"entry-" + c.Entry}
	add := func(cond bool, name string) {
		if cond {
			cls = append(cls, name)
		}
	}
	add(nt, "nontrivial")
	add(b.Eps < 0.01, "tight")
	add(b.Eps >= 0.01 && b.Eps < 0.1, "eps-1-10pct")
	add(b.Eps >= 0.1, "eps-over-10pct")
	add(len(c.Weights) == 0, "weights-none")
	add(len(c.Weights) == 1, "weights-single")
	add(len(c.Weights) > 1, "weights-several")
	hasZero := false
	for _, w := range c.Weights {
		hasZero = hasZero || w == 0
	}
	add(hasZero, "weights-with-zero")
	add(c.Start > 0, "start-mid-cycle")
	add(c.N == 2, "N=2")
	add(c.N > 2 && c.N <= 10, "N-3..10")
	add(c.N > 10 && c.N < 1000, "N-11..999")
	add(c.N >= 1000, "N>=1000")
	add(c.Sigma == c.F, "sigma=f")
	add(c.Sigma > c.F && c.Sigma < c.R(), "sigma-inside")
	add(c.Sigma >= c.R() && c.Sigma <= 50*c.R(), "sigma>=R")
	add(c.Sigma > 50*c.R(), "sigma-huge")
	add(c.Peak == 0, "peak=0")
	add(c.Peak%c.F == 0, "peak-on-tick")
	add(2*(c.Peak%c.F) == c.F, "peak-half-tick")
	add(c.Peak > c.R()-c.F, "peak-after-last-tick")
	add(c.Volume == 1, "volume=1")
	add(c.Volume < float64(c.N)/4, "volume<N/4")
	add(c.Volume >= float64(c.N)/4 && c.Volume <= 50*float64(c.N), "volume~N")
	add(c.Volume >= 1e6, "volume>=1e6")
	add(c.Volume != math.Trunc(c.Volume), "volume-fractional")
	add(c.Zone != 0, "zone-non-utc")
	add(rc.NoCarry, "sees-lost-carry")
	add(rc.NoRenorm, "sees-missing-renormalisation")
	add(rc.Shift, "sees-weight-index-shift")
	add(rc.SumNotMean, "sees-sum-instead-of-mean")
	stats.Case(section, c.key(), nt, cls, func() any {
		return map[string]any{"input": c, "repeat": c.R().String(), "tick": c.F.String(), "peak": c.Peak.String(),
			"stddev": c.Sigma.String(), "bound": b, "reach": rc}
	})
	return ""
}

// ---------------------------------------------------------------------------
// generators
// ---------------------------------------------------------------------------

const (
	maxN       = 20000
	maxTicks   = 120000 // per case, keeps one case in the low milliseconds
	minTick    = time.Millisecond
	maxTick    = time.Hour
	maxSigmaNs = int64(1) << 62
)

var binade = rapid.Float64Range(1, math.Nextafter(2, 1))

// unit draws from [0,1) without rapid's bias toward small values: inside one
// binade ([1,2)) rapid draws the significand uniformly, except that it returns
// the lower end itself with probability 1/9; that atom is redrawn.
func unit(t *rapid.T, label string) float64 {
	for i := 0; i < 6; i++ {
		if x := binade.Draw(t, label); x != 1 {
			return x - 1
		}
	}
	return 0
}

// choose picks an index with the given relative weights.
func choose(t *rapid.T, label string, weights ...float64) int {
	total := 0.0
	for _, w := range weights {
		total += w
	}
	x := unit(t, label) * total
	for i, w := range weights {
		if x < w {
			return i
		}
		x -= w
	}
	return len(weights) - 1
}

func uniformInt64(t *rapid.T, lo, hi int64, label string) int64 {
	if lo >= hi {
		return lo
	}
	v := lo + int64(unit(t, label)*(float64(hi)-float64(lo)+1))
	if v > hi {
		v = hi
	}
	return v
}

func logInt64(t *rapid.T, lo, hi int64, label string) int64 {
	if lo >= hi {
		return lo
	}
	x := math.Log(float64(lo)) + unit(t, label)*(math.Log(float64(hi))-math.Log(float64(lo)))
	v := int64(math.Round(math.Exp(x)))
	if v < lo {
		v = lo
	}
	if v > hi {
		v = hi
	}
	return v
}

var niceTicks = []time.Duration{time.Millisecond, 10 * time.Millisecond, 100 * time.Millisecond, 250 * time.Millisecond,
	time.Second, 5 * time.Second, 10 * time.Second, 15 * time.Second, time.Minute, 10 * time.Minute, 30 * time.Minute, time.Hour}

var niceWeights = []float64{0, 0, 0.5, 1, 1, 1.5, 2, 3, 10}

// genCase draws N from [1, maxN]; N == 1 is returned as is (the caller excludes and counts it).
func genCase(t *rapid.T) gcase {
	var c gcase
	if choose(t, "tickShape", 1, 2) == 0 {
		c.F = niceTicks[uniformInt64(t, 0, int64(len(niceTicks)-1), "tickNice")]
	} else {
		c.F = time.Duration(logInt64(t, int64(minTick), int64(maxTick), "tickLog"))
	}
	switch choose(t, "nShape", 12, 12, 10, 66) {
	case 0:
		c.N = int(uniformInt64(t, 1, 12, "nTiny"))
	case 1:
		c.N = int(uniformInt64(t, 2, 100, "nSmall"))
	case 2:
		nice := []int{2, 3, 24, 60, 100, 360, 1440, 3600, 10000, maxN}
		c.N = nice[uniformInt64(t, 0, int64(len(nice)-1), "nNice")]
	default:
		c.N = int(logInt64(t, 2, maxN, "nLog"))
	}
	if c.N == 1 {
		return c
	}
	R := c.R()
	f := int64(c.F)

	// a bell that sits well inside the window (tight bound) vs free placement
	if c.N >= 80 && choose(t, "bell", 45, 55) == 0 {
		c.Peak = time.Duration(uniformInt64(t, int64(R)/4, 3*int64(R)/4, "peakInside"))
		c.Sigma = time.Duration(logInt64(t, 5*f, int64(R)/16, "sigmaInside"))
	} else {
		switch choose(t, "peakShape", 1, 1, 1, 1, 4) {
		case 0:
			c.Peak = 0
		case 1:
			c.Peak = time.Duration(uniformInt64(t, 0, int64(c.N-1), "peakTick") * f)
		case 2:
			c.Peak = time.Duration(uniformInt64(t, 0, int64(c.N-1), "peakHalfTick")*f + f/2)
		case 3:
			c.Peak = R - time.Duration(uniformInt64(t, 1, f, "peakFromEnd"))
		default:
			c.Peak = time.Duration(uniformInt64(t, 0, int64(R)-1, "peak"))
		}
		hi50 := 50 * int64(R)
		switch choose(t, "sigmaShape", 1, 1, 1.5, 1, 5.5) {
		case 0:
			c.Sigma = c.F
		case 1:
			c.Sigma = time.Duration(uniformInt64(t, f, 10*f, "sigmaFewTicks"))
		case 2:
			c.Sigma = time.Duration(uniformInt64(t, int64(R), hi50, "sigmaWide"))
		case 3:
			hi := maxSigmaNs
			if int64(R) < hi/1000 {
				hi = 1000 * int64(R)
			}
			c.Sigma = time.Duration(logInt64(t, hi50, hi, "sigmaHuge"))
		default:
			c.Sigma = time.Duration(logInt64(t, f, int64(R), "sigmaLog"))
		}
	}

	switch choose(t, "volumeShape", 0.5, 1, 3.5, 1.5, 1, 2.5) {
	case 0:
		c.Volume = 1
	case 1:
		c.Volume = float64(uniformInt64(t, 1, 50, "volumeSmall"))
	case 2:
		c.Volume = math.Max(1, math.Round(float64(c.N)*(0.25+49.75*unit(t, "volumePerTick"))))
	case 3:
		c.Volume = math.Max(1, float64(c.N)*(0.25+49.75*unit(t, "volumePerTickFractional")))
	case 4:
		c.Volume = 1 + 999999*unit(t, "volumeFractional")
	default:
		c.Volume = float64(logInt64(t, 1, 1_000_000_000, "volumeLog"))
	}

	if choose(t, "weighted", 4, 6) == 1 {
		n := int(uniformInt64(t, 1, 7, "weightCount"))
		c.Weights = make([]float64, n)
		sum := 0.0
		for i := range c.Weights {
			if choose(t, "weightShape", 3, 1) == 0 {
				c.Weights[i] = niceWeights[uniformInt64(t, 0, int64(len(niceWeights)-1), "weight")]
			} else {
				c.Weights[i] = math.Round(unit(t, "weightFloat")*8000) / 1000
			}
			sum += c.Weights[i]
		}
		if sum == 0 {
			c.Weights[uniformInt64(t, 0, int64(n-1), "weightPositiveAt")] = []float64{0.25, 1, 4}[uniformInt64(t, 0, 2, "weightPositive")]
		}
		c.Start = int(uniformInt64(t, 0, int64(n-1), "start"))
	}
	c.Windows = len(c.Weights) + 1
	if c.Windows < 2 {
		c.Windows = 2
	}
	if extra := int(uniformInt64(t, 0, 2, "extraWindows")); (c.Windows+extra)*c.N <= maxTicks {
		c.Windows += extra
	}
	// small volumes over many windows: whole requests only come about by carrying fractions across windows
	if c.Volume <= 50 && choose(t, "manyWindows", 1, 1) == 1 {
		if extra := int(uniformInt64(t, 4, 24, "manyWindowsExtra")); (c.Windows+extra)*c.N <= maxTicks {
			c.Windows += extra
		}
	}
	c.BaseUnix = uniformInt64(t, 0, 4_000_000_000, "base")
	c.Entry = []string{"calculator", "rates", "builder"}[choose(t, "entry", 2, 2, 1)]
	c.Mono = choose(t, "monotonic", 3, 1) == 1
	if choose(t, "zoned", 4, 1) == 1 {
		c.Zone = []int{3600, -5 * 3600, 19800, 45 * 60 * 13}[uniformInt64(t, 0, 3, "zone")]
	}
	return c
}

// ---------------------------------------------------------------------------
// tests
// ---------------------------------------------------------------------------

func TestProp_VolumeAndPeak(t *testing.T) {
	rapid.Check(t, func(rt *rapid.T) {
		c := genCase(rt)
		if c.N == 1 {
			// iteration-frequency == repeat: probed by TestProp_SingleTickWindow, excluded here
			stats.AddNote("excluded_known", 1)
			return
		}
		if msg := record("windows", c); msg != "" {
			rt.Fatalf("VERIF-INFRA: %s", msg)
		}
		violation, infra := verdict(c)
		if infra != "" {
			rt.Fatalf("VERIF-INFRA: %s", infra)
		}
		if violation != "" {
			rt.Fatalf("VERIF-VIOLATION C11: %s", violation)
		}
	})
}

// TestEnum_SmallWindows enumerates a small scope completely: N in 2..9 with one
// tick length, every peak on a tick or half way between two, a lattice of
// deviations, volumes and weight lists, both entry points.
func TestEnum_SmallWindows(t *testing.T) {
	const f = time.Second
	n := 0
	for N := 2; N <= 9; N++ {
		R := f * time.Duration(N)
		for half := 0; half < 2*N; half++ {
			peak := time.Duration(half) * f / 2
			for _, sigma := range []time.Duration{f, f + 1, 2 * f, R / 2, R, 10 * R, 50 * R} {
				if sigma < f {
					continue
				}
				for _, v := range []float64{1, 2, float64(N) / 2, float64(N), 7.5 * float64(N), 1000, 123456789} {
					if v < 1 {
						continue
					}
					for _, ws := range [][]float64{nil, {3}, {1, 2}, {0, 1}, {2, 1, 0}, {1, 0.5, 1.5, 1}} {
						for _, entry := range []string{"calculator", "rates"} {
							c := gcase{F: f, N: N, Peak: peak, Sigma: sigma, Volume: v, Weights: ws, BaseUnix: 1_700_000_000,
								Start: n % max(1, len(ws)), Windows: max(2, len(ws)+1), Entry: entry}
							n++
							if msg := record("small-scope", c); msg != "" {
								t.Fatalf("VERIF-INFRA: %s", msg)
							}
							violation, infra := verdict(c)
							if infra != "" {
								t.Fatalf("VERIF-INFRA: %s", infra)
							}
							if violation != "" {
								t.Fatalf("VERIF-VIOLATION C11: %s", violation)
							}
						}
					}
				}
			}
		}
	}
	stats.Note("small_scope_exhaustive", true)
	stats.Note("small_scope_cases", int64(n))
}

// ---- N = 1: iteration-frequency equal to the repeat window ---------------------------------
//
// "tick frequency dividing it" includes the frequency equal to the window (R
// divides R), so the quantifier covers N = 1. There the only tick is at offset 0
// and the derived bound is void (the renormalising mass of [0, R-f] is 0), so
// the volume clause says nothing; "requests are never negative" still does.
// A constructor that refuses the input is accepted (nothing is requested).

type n1result struct {
	rejected bool
	message  string // violation
}

func probeN1(c gcase) (res n1result) {
	defer func() {
		if r := recover(); r != nil {
			res.message = fmt.Sprintf("panic %v for %s", r, c)
		}
	}()
	fn, err := c.rateFn()
	if err != nil {
		return n1result{rejected: true}
	}
	cycle := c.cycleStart()
	for j := 0; j < c.Windows; j++ {
		now := cycle.Add(time.Duration(c.Start+j) * c.R())
		if v := fn(now); v < 0 {
			return n1result{message: fmt.Sprintf("negative request %d at the only tick of window %d for %s", v, j, c)}
		}
	}
	return n1result{}
}

func genN1(t *rapid.T) gcase {
	c := gcase{N: 1}
	if choose(t, "tickShape", 1, 1) == 0 {
		c.F = niceTicks[uniformInt64(t, 0, int64(len(niceTicks)-1), "tickNice")]
	} else {
		c.F = time.Duration(logInt64(t, int64(minTick), int64(maxTick), "tickLog"))
	}
	f := int64(c.F)
	if choose(t, "peakShape", 1, 3) == 1 {
		c.Peak = time.Duration(uniformInt64(t, 0, f-1, "peak"))
	}
	c.Sigma = c.F
	if choose(t, "sigmaShape", 1, 3) == 1 {
		c.Sigma = time.Duration(logInt64(t, f, 50*f, "sigma"))
	}
	c.Volume = float64(logInt64(t, 1, 1_000_000_000, "volume"))
	if choose(t, "weighted", 1, 1) == 1 {
		c.Weights = [][]float64{{1}, {1, 2}, {0, 1}, {2, 1, 0}}[uniformInt64(t, 0, 3, "weights")]
	}
	c.Windows = len(c.Weights) + 2
	c.BaseUnix = uniformInt64(t, 0, 4_000_000_000, "base")
	c.Entry = []string{"calculator", "rates", "builder"}[choose(t, "entry", 2, 2, 1)]
	c.Mono = choose(t, "monotonic", 3, 1) == 1
	return c
}

func TestProp_SingleTickWindow(t *testing.T) {
	rapid.Check(t, func(rt *rapid.T) {
		c := genN1(rt)
		res := probeN1(c)
		cls := []string{"entry-" + c.Entry}
		switch {
		case res.rejected:
			cls = append(cls, "rejected")
		case res.message != "":
			cls = append(cls, "violates")
		default:
			cls = append(cls, "accepted-and-non-negative")
		}
		stats.Case("single-tick", c.key(), false, cls, func() any { return c })
		if res.message == "" {
			return
		}
		if vlib.KnownOpen(knownN1) {
			vlib.ReportKnown(knownN1)
			stats.AddNote("known_finding_reproduced", 1)
			return
		}
		rt.Fatalf("VERIF-VIOLATION C11: %s", res.message)
	})
}

// ---- regression table ----------------------------------------------------------------------

func TestRegress(t *testing.T) {
	day := 24 * time.Hour
	table := []gcase{
		// the command's defaults: 24 h window, 1 s ticks, peak 14 h, deviation 150 min, volume 86400
		{F: time.Second, N: 86400, Peak: 14 * time.Hour, Sigma: 150 * time.Minute, Volume: 86400, Windows: 2, Entry: "rates"},
		// rows of f1's own table
		{F: time.Minute, N: 1440, Peak: 14 * time.Hour, Sigma: time.Hour, Volume: 100000, Windows: 2, Entry: "calculator"},
		{F: time.Second, N: 7200, Peak: 14 * time.Minute, Sigma: time.Hour, Volume: 100000, Windows: 2, Entry: "calculator"},
		{F: time.Second, N: 3600, Peak: 5 * time.Minute, Sigma: 75 * time.Second, Volume: 23499, Windows: 3, Entry: "rates"},
		{F: 10 * time.Second, N: 60, Peak: 5 * time.Minute, Sigma: time.Minute, Volume: 1000000, Weights: []float64{1, 0.5, 1.5, 1}, Windows: 5, Entry: "calculator"},
		{F: 10 * time.Second, N: 60, Peak: 5 * time.Minute, Sigma: time.Minute, Volume: 1000000, Weights: []float64{1, 2, 2, 1}, Start: 3, Windows: 6, Entry: "rates"},
		// weekly weights on daily windows, started mid-week
		{F: time.Minute, N: 1440, Peak: 14 * time.Hour, Sigma: 150 * time.Minute, Volume: 500000, Weights: []float64{1, 1, 1, 1, 1, 0.5, 0}, Start: 4, Windows: 9, Entry: "rates", Zone: 19800},
		// hostile corners: two ticks, flat bell; deviation equal to the tick; peak on the first / after the last tick; volume 1
		{F: time.Hour, N: 2, Peak: 0, Sigma: 100 * time.Hour, Volume: 1000, Windows: 3, Entry: "calculator"},
		{F: time.Hour, N: 2, Peak: 2*time.Hour - 1, Sigma: time.Hour, Volume: 1, Windows: 3, Entry: "rates"},
		{F: time.Millisecond, N: 20000, Peak: 0, Sigma: time.Millisecond, Volume: 5000, Windows: 2, Entry: "calculator"},
		{F: time.Millisecond, N: 20000, Peak: 20*time.Second - 1, Sigma: time.Millisecond, Volume: 5000, Windows: 2, Entry: "calculator"},
		{F: time.Second, N: 1000, Peak: 500*time.Second + 500*time.Millisecond, Sigma: 30 * time.Second, Volume: 250, Windows: 3, Entry: "rates"},
		{F: time.Second, N: 1000, Peak: 500 * time.Second, Sigma: 30 * time.Second, Volume: 1, Windows: 4, Entry: "calculator"},
		{F: time.Second, N: 1000, Peak: 123456789 * time.Microsecond, Sigma: 50000 * time.Second, Volume: 1e9, Windows: 2, Entry: "calculator"},
		{F: time.Hour, N: maxN, Peak: 9999 * time.Hour, Sigma: 700 * time.Hour, Volume: 1e9, Weights: []float64{0, 3}, Start: 1, Windows: 3, Entry: "rates"},
		{F: 1234567 * time.Nanosecond, N: 777, Peak: 333 * time.Millisecond, Sigma: 40 * time.Millisecond, Volume: 1942.5, Weights: []float64{0.001, 7.999}, Windows: 3, Entry: "rates"},
		{F: day / 2, N: 2, Peak: 14 * time.Hour, Sigma: 150 * time.Minute * 5, Volume: 86400, Windows: 2, Entry: "rates"},
	}
	for i := range table {
		c := table[i]
		if c.BaseUnix == 0 {
			c.BaseUnix = 1_790_000_000 + int64(i)*86400*37
		}
		if msg := record("regress", c); msg != "" {
			t.Errorf("VERIF-INFRA: %s", msg)
			continue
		}
		violation, infra := verdict(c)
		if infra != "" {
			t.Errorf("VERIF-INFRA: %s", infra)
		}
		if violation != "" {
			t.Errorf("VERIF-VIOLATION C11: %s", violation)
		}
	}
}

// TestRegress_SingleTickWindow: shrunk failure of TestProp_SingleTickWindow (F6):
// iteration-frequency == repeat, every tick requests MinInt64.
func TestRegress_SingleTickWindow(t *testing.T) {
	day := 24 * time.Hour
	for _, c := range []gcase{
		{F: time.Second, N: 1, Peak: 0, Sigma: time.Second, Volume: 1, Windows: 2, BaseUnix: 1_790_000_000, Entry: "calculator"},
		{F: day, N: 1, Peak: 14 * time.Hour, Sigma: 150 * time.Minute * 10, Volume: 86400, Windows: 2, BaseUnix: 1_790_000_000, Entry: "rates"},
	} {
		res := probeN1(c)
		stats.Case("regress", c.key(), false, []string{"single-tick"}, func() any { return c })
		if res.message == "" {
			continue
		}
		if vlib.KnownOpen(knownN1) {
			vlib.ReportKnown(knownN1)
			continue
		}
		t.Errorf("VERIF-VIOLATION C11: %s", res.message)
	}
}
