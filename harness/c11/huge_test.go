package c11

import (
	"fmt"
	"math"
	"testing"
	"time"

	"pgregory.net/rapid"

	"github.com/form3tech-oss/f1/v2/internal/trigger/gaussian"
)

// Engine "huge-volumes": "requests are never negative" at the top of the volume range. Volumes of
// 1e15-2e19 per window, with weight lists of wide dynamic range (so that one window's share is many
// times the mean): f1 may refuse such a profile (its largest request has to fit an int), but a profile
// it accepts must not hand out a negative - or wrapped-around - request at any tick of any window of
// the weight cycle.
func TestProp_HugeVolumes(t *testing.T) {
	rapid.Check(t, func(rt *rapid.T) {
		f := rapid.SampledFrom([]time.Duration{time.Second, time.Minute, 15 * time.Minute}).Draw(rt, "tick")
		n := rapid.IntRange(2, 60).Draw(rt, "N")
		repeat := f * time.Duration(n)
		peak := time.Duration(rapid.Int64Range(0, int64(repeat)-1).Draw(rt, "peak"))
		sigma := time.Duration(rapid.Int64Range(int64(f), 4*int64(repeat)).Draw(rt, "sigma"))
		volume := math.Pow(10, 15+4.3*rapid.Float64Range(0, 1).Draw(rt, "volumeExp"))
		nw := rapid.IntRange(0, 20).Draw(rt, "weights")
		weights := make([]float64, nw)
		spiky := nw >= 2 && rapid.Bool().Draw(rt, "spiky")
		for i := range weights {
			if spiky {
				// one window carries almost everything: its share is many times the mean
				weights[i] = rapid.SampledFrom([]float64{0, 0.001, 0.005, 0.005, 0.01}).Draw(rt, "smallWeight")
			} else {
				weights[i] = rapid.SampledFrom([]float64{0, 0.001, 0.005, 0.01, 0.1, 0.5, 1, 1, 2}).Draw(rt, "weight")
			}
		}
		if spiky {
			weights[rapid.IntRange(0, nw-1).Draw(rt, "spikeAt")] = rapid.SampledFrom([]float64{0.5, 0.905, 1, 2}).Draw(rt, "spike")
		}
		desc := fmt.Sprintf("tick=%s N=%d peak=%s stddev=%s volume=%.6g weights=%v", f, n, peak, sigma, volume, weights)
		calc, err := gaussian.NewCalculator(peak, sigma, f, weights, volume, repeat)
		cls := []string{}
		if err != nil {
			cls = append(cls, "refused")
		} else {
			cls = append(cls, "accepted")
		}
		stats.Case("huge-volumes", desc, err == nil && nw > 0, cls, func() any { return desc })
		if err != nil {
			return
		}
		l := max(1, nw)
		base := time.Unix(1_700_000_000, 0).Truncate(repeat * time.Duration(l))
		for w := 0; w < l; w++ {
			for k := 0; k < n; k++ {
				at := base.Add(time.Duration(w)*repeat + time.Duration(k)*f)
				if v := calc.For(at); v < 0 {
					rt.Fatalf("VERIF-VIOLATION C11: negative request %d at window %d tick %d of an accepted profile (%s)", v, w, k, desc)
				}
			}
		}
	})
}
