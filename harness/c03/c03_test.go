package c03

import (
	"fmt"
	"sort"
	"strconv"
	"strings"
	"sync"
	"sync/atomic"
	"testing"
	"time"

	"pgregory.net/rapid"

	f1testing "github.com/form3tech-oss/f1/v2/pkg/f1/testing"
	"github.com/form3tech-oss/f1/v2/verifharness/vlib"
)

var stats = vlib.NewStats("C03")

func TestMain(m *testing.M) { vlib.Main(m, stats) }

type limCase struct {
	Mode              string
	N                 uint64 // 0 = no limit (then the run is short and duration-bound)
	Conc              int
	PerTick           int
	TickMs            int
	Dist              string
	BodyUs            int
	FailEvery         int
	Flags             map[string]string
	YAML              string
	Keeps             bool // the trigger keeps requesting until the limit stops it
	LaterFile         bool // file mode: the limit is crossed in a later stage
	MaxDur            time.Duration
	FailSetupHandleAt uint64 // iteration id that calls Fail on the scenario-level handle (0 = never)
	SlowFirst         int    // users hand-over class: the iterations with ids <= SlowFirst take 80 ms, all others nothing
	Huge              bool   // the limit is around 2^63 or 2^64-1: never reached
	ShortPlan         bool   // staged/file: the trigger's own duration (1.2 s) is shorter than max-duration (8 s)
}

func (c limCase) desc() string {
	s := fmt.Sprintf("%s N=%d c=%d per=%d/%dms dist=%s body=%dus failEvery=%d failSetupHandleAt=%d shortPlan=%v slowFirst=%d flags=%v", c.Mode, c.N, c.Conc, c.PerTick, c.TickMs, c.Dist, c.BodyUs, c.FailEvery, c.FailSetupHandleAt, c.ShortPlan, c.SlowFirst, c.Flags)
	if c.YAML != "" {
		s += " yaml=" + strings.ReplaceAll(c.YAML, "\n", "|")
	}
	return s
}

func genCase(t *rapid.T) limCase {
	var c limCase
	c.Mode = rapid.SampledFrom(vlib.AllModes).Draw(t, "mode")
	limited := rapid.IntRange(0, 5).Draw(t, "limited") != 0
	if limited {
		c.N = uint64(rapid.OneOf(rapid.IntRange(1, 12), rapid.IntRange(1, 200)).Draw(t, "N"))
		if c.Mode == "file" && c.N < 9 {
			c.N += 9 // room for early stages that request fewer than N/3 each
		}
	}
	c.Conc = rapid.OneOf(rapid.IntRange(1, 8), rapid.IntRange(1, 64)).Draw(t, "concurrency")
	c.TickMs = rapid.SampledFrom([]int{5, 10, 20}).Draw(t, "tickMs")
	if !limited && rapid.IntRange(0, 2).Draw(t, "hugeLimit") == 0 {
		// a limit that is valid but far out of reach (around 2^63 and at the top of the range): the run is
		// duration-bound, ids start at 1 as always
		c.N = rapid.SampledFrom([]uint64{1<<63 - 1, 1 << 63, 1<<63 + 1, 1<<64 - 1}).Draw(t, "hugeN")
		c.Huge = true
	}
	// tick size from well below N/10 to above 3N, but large enough that the limit is reached within ~40 ticks
	n := int(c.N)
	if n == 0 || c.Huge {
		n = 40
	}
	lo := n/40 + 1
	c.PerTick = rapid.OneOf(rapid.IntRange(lo, max(lo, n/4+1)), rapid.IntRange(lo, 3*n+2)).Draw(t, "perTick")
	c.Dist = rapid.SampledFrom([]string{"none", "none", "regular", "random"}).Draw(t, "distribution")
	c.BodyUs = rapid.SampledFrom([]int{0, 0, 100, 1000, 3000}).Draw(t, "bodyMicros")
	if c.Mode == "file" && rapid.Bool().Draw(t, "slowBodies") {
		// iterations that outlive their stage: the next stage's pool starts while they are still running
		c.BodyUs = 60000
		if c.N > 40 {
			c.N = 40
		}
	}
	// rarely, an iteration marks the SETUP handle failed (Errorf on the scenario-level T from inside an
	// iteration): that must not stop later iterations from being invoked
	if rapid.IntRange(0, 9).Draw(t, "failSetupHandle") == 0 {
		c.FailSetupHandleAt = uint64(rapid.IntRange(1, 3).Draw(t, "failSetupHandleAt"))
	}
	c.FailEvery = rapid.SampledFrom([]int{0, 0, 2, 7}).Draw(t, "failEvery")
	c.Flags = map[string]string{}
	c.Keeps = !c.Huge
	if limited {
		c.MaxDur = 8 * time.Second // generous: only the limit ends the run
	} else {
		c.MaxDur = time.Duration(rapid.IntRange(60, 250).Draw(t, "durationMs")) * time.Millisecond
	}
	rate := fmt.Sprintf("%d/%dms", c.PerTick, c.TickMs)
	planLen := "10s"
	if limited && (c.Mode == "staged" || c.Mode == "file") && rapid.Bool().Draw(t, "shortPlan") {
		// the trigger ends by itself long before max-duration: the limit must hold all the same. The
		// trigger may end before the limit is reached, so only "never more than N" is asserted.
		c.ShortPlan = true
		c.Keeps = false
		planLen = "1200ms"
	}
	switch c.Mode {
	case "constant":
		c.Flags["rate"] = rate
		c.Flags["distribution"] = c.Dist
	case "staged":
		c.Flags["stages"] = fmt.Sprintf("0s:%d,%s:%d", c.PerTick, planLen, c.PerTick)
		c.Flags["iterationFrequency"] = fmt.Sprintf("%dms", c.TickMs)
		c.Flags["distribution"] = c.Dist
	case "ramp":
		c.Flags["start-rate"] = rate
		c.Flags["end-rate"] = fmt.Sprintf("%d/%dms", c.PerTick+rapid.IntRange(1, 5).Draw(t, "rampUp"), c.TickMs)
		c.Flags["ramp-duration"] = "10s"
		c.Flags["distribution"] = c.Dist
	case "gaussian":
		// wide bell over a 1 s window: every tick requests about PerTick (never 0 for long)
		c.Flags["repeat"] = "1s"
		c.Flags["iteration-frequency"] = fmt.Sprintf("%dms", c.TickMs)
		c.Flags["peak"] = "500ms"
		c.Flags["standard-deviation"] = "5s"
		c.Flags["volume"] = strconv.Itoa(c.PerTick * (1000 / c.TickMs))
		c.Flags["distribution"] = "none"
	case "users":
	case "file":
		var b strings.Builder
		fmt.Fprintf(&b, "scenario: %s\nlimits:\n  max-duration: %s\n  concurrency: %d\n  max-iterations: %d\n  ignore-dropped: true\nstages:\n",
			vlib.ScenarioName, c.MaxDur, c.Conc, c.N)
		nst := rapid.IntRange(1, 3).Draw(t, "fileStages")
		if !limited {
			nst = 1
		}
		for i := 0; i < nst; i++ {
			last := i == nst-1
			d := planLen
			if !last {
				// an early stage that certainly cannot reach the limit: one tick of fewer than N/3 requests
				d = fmt.Sprintf("%dms", c.TickMs+30)
				small := int(c.N) / (3 * nst)
				if small >= 1 && c.BodyUs >= 60000 && rapid.Bool().Draw(t, fmt.Sprintf("earlyUsersStage%d", i)) {
					// a users stage whose first iterations (60 ms) outlast it: each of its workers comes back to
					// the id dispenser when the next stage's pool is already drawing ids from it
					fmt.Fprintf(&b, "- duration: %s\n  mode: users\n  concurrency: %d\n", d, small)
					c.LaterFile = true
				} else if small < 1 {
					fmt.Fprintf(&b, "- duration: %s\n  mode: constant\n  rate: 0/%dms\n  jitter: 0\n  distribution: none\n", d, c.TickMs)
				} else {
					fmt.Fprintf(&b, "- duration: %s\n  mode: constant\n  rate: %d/1s\n  jitter: 0\n  distribution: none\n", d, small)
					c.LaterFile = true
				}
				continue
			}
			if !limited {
				d = c.MaxDur.String()
			}
			if rapid.Bool().Draw(t, fmt.Sprintf("usersStage%d", i)) {
				fmt.Fprintf(&b, "- duration: %s\n  mode: users\n  concurrency: %d\n", d, rapid.IntRange(1, c.Conc).Draw(t, "users"))
			} else {
				fmt.Fprintf(&b, "- duration: %s\n  mode: constant\n  rate: %s\n  jitter: 0\n  distribution: %s\n", d, rate, c.Dist)
			}
		}
		c.YAML = b.String()
		if limited && !c.ShortPlan && rapid.IntRange(0, 4).Draw(t, "usersHandOver") == 0 {
			// users stage -> users stage: the first stage's workers are each inside an 80 ms iteration when
			// the stage ends after 40 ms; they come back to the id dispenser while the second stage's workers
			// draw ids from it as fast as they can (instant bodies, a limit of 1e5-3e5 keeps them at it)
			u := rapid.IntRange(2, 8).Draw(t, "firstStageUsers")
			c.Conc = rapid.IntRange(2, 8).Draw(t, "secondStageUsers")
			c.N = uint64(rapid.IntRange(100000, 300000).Draw(t, "bigN"))
			c.SlowFirst, c.BodyUs, c.FailEvery, c.FailSetupHandleAt = u, 0, 0, 0
			c.LaterFile, c.Keeps = true, true
			c.YAML = fmt.Sprintf("scenario: %s\nlimits:\n  max-duration: %s\n  concurrency: %d\n  max-iterations: %d\n  ignore-dropped: true\nstages:\n"+
				"- duration: 40ms\n  mode: users\n  concurrency: %d\n- duration: 10s\n  mode: users\n  concurrency: %d\n",
				vlib.ScenarioName, c.MaxDur, c.Conc, c.N, u, c.Conc)
		}
	}
	return c
}

func TestProp_LimitIsExact(t *testing.T) {
	dir := t.TempDir()
	rapid.Check(t, func(rt *rapid.T) {
		c := genCase(rt)
		var mu sync.Mutex
		var ids []uint64
		var kept []string // the id strings as the scenario saw them, kept beyond the iteration (map keys, logs)
		var bad []string
		var invocations atomic.Uint64
		scenario := func(st *f1testing.T) f1testing.RunFn {
			return func(it *f1testing.T) {
				invocations.Add(1)
				first := it.Iteration
				defer func() {
					// the id an invocation observes is its own for as long as it runs
					if last := it.Iteration; last != first {
						mu.Lock()
						bad = append(bad, fmt.Sprintf("an invocation started as iteration %q and later observed id %q", first, last))
						mu.Unlock()
					}
				}()
				id, err := strconv.ParseUint(it.Iteration, 10, 64)
				if c.FailSetupHandleAt != 0 && id == c.FailSetupHandleAt {
					st.Fail()
				}
				mu.Lock()
				if err != nil {
					bad = append(bad, it.Iteration)
				}
				ids = append(ids, id)
				kept = append(kept, first)
				mu.Unlock()
				if c.BodyUs > 0 {
					time.Sleep(time.Duration(c.BodyUs) * time.Microsecond)
				}
				if c.SlowFirst > 0 && id <= uint64(c.SlowFirst) {
					time.Sleep(80 * time.Millisecond)
				}
				if c.FailEvery > 0 && id%uint64(c.FailEvery) == 0 {
					it.Fail()
				}
			}
		}
		spec := &vlib.RunSpec{Mode: c.Mode, Flags: c.Flags, FileYAML: c.YAML, FileDir: dir, ScenarioFn: scenario, WaitTimeout: 20 * time.Second}
		spec.Opts.Concurrency = c.Conc
		spec.Opts.MaxDuration = c.MaxDur
		spec.Opts.MaxIterations = c.N
		spec.Opts.IgnoreDropped = true
		// one case in four goes through the public entry point (f1.New().Add().ExecuteWithArgs): the
		// CLI's own mapping of --max-iterations / --concurrency / the config file's limits onto the run
		viaCLI := rapid.IntRange(0, 3).Draw(rt, "viaCLI") == 0
		start := time.Now()
		var out *vlib.RunOutcome
		var err error
		if viaCLI {
			// other limits on the same command line must not move this one
			spec.Opts.MaxFailures = rapid.SampledFrom([]uint64{0, 1, c.N + 7, 1000}).Draw(rt, "maxFailures")
			spec.Opts.MaxFailuresRate = rapid.SampledFrom([]int{0, 0, 50}).Draw(rt, "maxFailuresRate")
			_, err = vlib.ExecuteCLI(spec)
		} else {
			out, err = vlib.Execute(spec)
		}
		if err != nil {
			rt.Fatalf("VERIF-INFRA: cannot execute %s: %v", c.desc(), err)
		}
		elapsed := time.Since(start)
		mu.Lock()
		got := append([]uint64{}, ids...)
		// an id a scenario has kept stays what it was: it does not change when the worker moves on
		for i, s := range kept {
			if want := strconv.FormatUint(ids[i], 10); s != want && len(bad) < 5 {
				bad = append(bad, fmt.Sprintf("the id string kept from iteration %s reads %q after the run", want, s))
			}
		}
		mu.Unlock()
		sort.Slice(got, func(i, j int) bool { return got[i] < got[j] })
		inv := invocations.Load()

		contended := c.N > 0 && c.Conc >= 4 && c.PerTick >= 2
		nontrivial := contended || c.LaterFile
		cls := []string{"mode-" + c.Mode}
		if c.N > 0 {
			cls = append(cls, "limited")
		}
		if contended {
			cls = append(cls, "contended-last-ids")
		}
		if c.LaterFile {
			cls = append(cls, "limit-crossed-in-later-stage")
		}
		if c.Mode == "file" && c.BodyUs >= 60000 {
			cls = append(cls, "iterations-outlive-their-stage")
		}
		if c.FailSetupHandleAt != 0 {
			cls = append(cls, "setup-handle-failed-mid-run")
		}
		if c.ShortPlan {
			cls = append(cls, "trigger-ends-before-max-duration")
		}
		if viaCLI {
			cls = append(cls, "through-the-cli")
		}
		if c.Huge {
			cls = append(cls, "limit-around-2^63-or-2^64")
		}
		if c.SlowFirst > 0 {
			cls = append(cls, "users-stage-hands-over-to-a-busy-users-stage")
		}
		stats.Case("runs", c.desc(), nontrivial, cls, func() any {
			return map[string]any{"case": c.desc(), "invocations": inv, "elapsed_ms": elapsed.Milliseconds(), "through_the_cli": viaCLI}
		})

		mu.Lock()
		badCopy := append([]string{}, bad...)
		mu.Unlock()
		if len(badCopy) > 0 {
			rt.Fatalf("VERIF-VIOLATION C03: ids observed inside invocations are not their own distinct numbers: %v (%s)", head2(badCopy, 4), c.desc())
		}
		// ids are exactly 1..k, each once
		for i, id := range got {
			if id != uint64(i+1) {
				rt.Fatalf("VERIF-VIOLATION C03: %d invocations observed ids %v...: expected exactly 1..%d, each once (%s)", inv, head(got, i+3), len(got), c.desc())
			}
		}
		if c.Huge && inv == 0 {
			rt.Fatalf("VERIF-VIOLATION C03: with max-iterations %d (far out of reach) the iteration function was never invoked in a run of %s (%s)", c.N, elapsed, c.desc())
		}
		if c.N > 0 {
			if inv > c.N {
				rt.Fatalf("VERIF-VIOLATION C03: max-iterations %d but the iteration function was invoked %d times (%s)", c.N, inv, c.desc())
			}
			if c.Keeps && elapsed < c.MaxDur-500*time.Millisecond && inv != c.N {
				rt.Fatalf("VERIF-VIOLATION C03: the run ended after %s (max-duration %s) with %d invocations although the trigger kept requesting and max-iterations is %d (%s)",
					elapsed, c.MaxDur, inv, c.N, c.desc())
			}
			if c.Keeps && inv != c.N {
				// the generous duration expired before the limit was reached: machine too slow, not a verdict
				stats.AddNote("limit_not_reached_within_duration", 1)
				return
			}
		}
		if out == nil {
			return
		}
		snap := out.Result.Snapshot()
		if tot := snap.SuccessfulIterationDurations.Count + snap.FailedIterationDurations.Count; tot != inv {
			rt.Fatalf("VERIF-VIOLATION C03: %d invocations but the result reports %d started iterations (%s)", inv, tot, c.desc())
		}
	})
}

func head2(s []string, n int) []string {
	if n > len(s) {
		n = len(s)
	}
	return s[:n]
}

func head(s []uint64, n int) []uint64 {
	if n > len(s) {
		n = len(s)
	}
	return s[:n]
}
