package c03

import (
	"context"
	"fmt"
	"sort"
	"strconv"
	"sync"
	"sync/atomic"
	"testing"
	"time"

	"github.com/prometheus/client_golang/prometheus"
	"pgregory.net/rapid"

	"github.com/form3tech-oss/f1/v2/internal/log"
	"github.com/form3tech-oss/f1/v2/internal/metrics"
	"github.com/form3tech-oss/f1/v2/internal/progress"
	"github.com/form3tech-oss/f1/v2/internal/workers"
	"github.com/form3tech-oss/f1/v2/pkg/f1/scenarios"
	f1testing "github.com/form3tech-oss/f1/v2/pkg/f1/testing"
	"github.com/form3tech-oss/f1/v2/verifharness/vlib"
)

// TestProp_ScriptedStageHandover: ids stay gapless across the pools of consecutive config-file
// stages even when the first stage is stopped while a worker is picking work up. Two trigger
// pools share one PoolManager (as the stages of a file run do). In the first, one worker is
// parked between the emptiness test and take, the pool is cancelled with its stop path parked
// between setting the flag and draining, the worker is released (it may still take the pending
// job and be handed an id), then the stop path. The second pool then runs a few more iterations.
// Every id handed out must be observed by exactly one invocation: ids are exactly 1..k.
func TestProp_ScriptedStageHandover(t *testing.T) {
	rapid.Check(t, func(rt *rapid.T) {
		conc := rapid.IntRange(1, 3).Draw(rt, "concurrency")
		first := rapid.IntRange(1, conc+2).Draw(rt, "firstStageTick")
		second := rapid.IntRange(1, 3).Draw(rt, "secondStageTick")
		nth := int32(rapid.IntRange(1, min(first, conc)).Draw(rt, "nthArrival"))
		limit := uint64(rapid.SampledFrom([]int{0, 0, first + second, first + second + 3}).Draw(rt, "limit"))

		gw := vlib.NewGate("pool.worker.before_take", nth, 3*time.Second)
		gs := vlib.NewGate("pool.stop.after_flag", 1, 3*time.Second)
		remove := vlib.InstallGates(nil, gw, gs)
		defer remove()

		var mu sync.Mutex
		var ids []uint64
		release := make(chan struct{})
		st := &progress.Stats{}
		m := metrics.NewInstance(prometheus.NewRegistry(), false, nil)
		logger := log.NewDiscardLogger()
		sc := &scenarios.Scenario{Name: "c03", ScenarioFn: func(*f1testing.T) f1testing.RunFn {
			return func(it *f1testing.T) {
				id, _ := strconv.ParseUint(it.Iteration, 10, 64)
				mu.Lock()
				ids = append(ids, id)
				mu.Unlock()
				<-release
			}
		}}
		as := workers.NewActiveScenario(sc, m, st, logger, log.NewSlogLogrusLogger(logger))
		as.Setup()
		pm := workers.New(limit, as)

		ctx1, cancel1 := context.WithCancel(context.Background())
		pool1 := pm.NewTriggerPool(conc)
		w1 := pool1.Start(ctx1)
		pool1.Trigger(w1, first)
		reached := false
		select {
		case <-gw.Arrived():
			reached = true
		case <-time.After(3 * time.Second):
		}
		if reached {
			// let the other woken workers take their jobs
			time.Sleep(300 * time.Microsecond)
		}
		cancel1()
		select {
		case <-gs.Arrived():
		case <-time.After(3 * time.Second):
			reached = false
		}
		count := func() int { mu.Lock(); defer mu.Unlock(); return len(ids) }
		before := count()
		gw.Open()
		deadline := time.Now().Add(20 * time.Millisecond)
		for time.Now().Before(deadline) && count() == before {
			time.Sleep(50 * time.Microsecond)
		}
		gs.Open()
		// second stage: a fresh pool on the same manager
		remove()
		ctx2, cancel2 := context.WithCancel(context.Background())
		defer cancel2()
		pool2 := pm.NewTriggerPool(conc)
		w2 := pool2.Start(ctx2)
		pool2.Trigger(w2, second)
		time.Sleep(2 * time.Millisecond)
		cancel2()
		close(release)
		select {
		case <-pm.WaitForCompletion():
		case <-time.After(20 * time.Second):
			rt.Fatalf("VERIF-VIOLATION C03: the two stage pools did not finish within 20 s (c=%d first=%d second=%d)", conc, first, second)
		}
		mu.Lock()
		got := append([]uint64{}, ids...)
		mu.Unlock()
		sort.Slice(got, func(i, j int) bool { return got[i] < got[j] })
		cls := []string{}
		if reached {
			cls = append(cls, "gates-reached")
		}
		stats.Case("scripted-handover", fmt.Sprint(conc, first, second, nth, limit), reached, cls, func() any {
			return map[string]any{"script": "stage stopped while a worker picks work up, next stage continues", "concurrency": conc, "first_tick": first, "second_tick": second, "limit": limit, "ids": got}
		})
		for i, id := range got {
			if id != uint64(i+1) {
				rt.Fatalf("VERIF-VIOLATION C03: c=%d limit=%d: first stage tick(%d) stopped while worker arrival #%d was picking work up, second stage tick(%d): the ids observed are %v, expected exactly 1..%d each once (an id was handed out but its iteration never ran, or ran twice)",
					conc, limit, first, nth, second, got, len(got))
			}
		}
		if limit > 0 && uint64(len(got)) > limit {
			rt.Fatalf("VERIF-VIOLATION C03: %d invocations with max-iterations %d", len(got), limit)
		}
	})
}

// TestProp_NextIterationHammer: the id dispenser itself under contention for the last ids. G
// goroutines leave a spin barrier together and each asks the real PoolManager for ids; with a
// limit N exactly min(N, requests) requests are granted and the granted ids are exactly 1..k.
func TestProp_NextIterationHammer(t *testing.T) {
	rapid.Check(t, func(rt *rapid.T) {
		limit := uint64(rapid.OneOf(rapid.IntRange(1, 4), rapid.IntRange(1, 40)).Draw(rt, "limit"))
		g := rapid.IntRange(2, 8).Draw(rt, "goroutines")
		per := rapid.IntRange(1, 4).Draw(rt, "requestsEach")
		rounds := rapid.SampledFrom([]int{20, 60}).Draw(rt, "rounds")
		for r := 0; r < rounds; r++ {
			pm := workers.New(limit, nil)
			var ready, granted sync.WaitGroup
			var start atomic.Bool
			got := make([][]uint64, g)
			ready.Add(g)
			granted.Add(g)
			for i := 0; i < g; i++ {
				go func(i int) {
					defer granted.Done()
					ready.Done()
					for !start.Load() {
					}
					for k := 0; k < per; k++ {
						if id, err := pm.NextIteration(); err == nil {
							got[i] = append(got[i], id)
						}
					}
				}(i)
			}
			ready.Wait()
			start.Store(true)
			granted.Wait()
			var all []uint64
			for _, ids := range got {
				all = append(all, ids...)
			}
			sort.Slice(all, func(i, j int) bool { return all[i] < all[j] })
			want := uint64(g * per)
			if limit < want {
				want = limit
			}
			if r == 0 {
				stats.Case("hammer", fmt.Sprint(limit, g, per, rounds), uint64(g*per) > limit, []string{}, func() any {
					return map[string]any{"limit": limit, "goroutines": g, "requests_each": per, "rounds": rounds}
				})
			}
			if uint64(len(all)) != want {
				rt.Fatalf("VERIF-VIOLATION C03: limit %d, %d goroutines x %d requests at the same instant: %d ids were granted (%v), exactly %d may be", limit, g, per, len(all), all, want)
			}
			for i, id := range all {
				if id != uint64(i+1) {
					rt.Fatalf("VERIF-VIOLATION C03: limit %d, %d goroutines x %d requests: granted ids %v are not exactly 1..%d each once", limit, g, per, all, len(all))
				}
			}
			if !pm.MaxIterationsReached() && uint64(g*per) > limit {
				rt.Fatalf("VERIF-VIOLATION C03: limit %d: %d requests were made but MaxIterationsReached() is false", limit, g*per)
			}
		}
	})
}
