package c03

import (
	"fmt"
	"sort"
	"strconv"
	"sync"
	"testing"
	"time"

	"pgregory.net/rapid"

	f1testing "github.com/form3tech-oss/f1/v2/pkg/f1/testing"
	"github.com/form3tech-oss/f1/v2/verifharness/vlib"
)

// Engine "users-hand-over": a config file whose first stage is a users stage of 8-32 workers, each
// inside an 80 ms iteration when the stage ends after 40 ms. They come back to the shared id
// dispenser - only to learn that their pool has stopped - while the 2-8 workers of the second (users)
// stage draw ids from it as fast as they can (instant bodies; the limit of 1e5-3e5 keeps them at it
// for a few hundred ms). Ids must be exactly 1..N, each once.
func TestProp_UsersHandOver(t *testing.T) {
	dir := t.TempDir()
	rapid.Check(t, func(rt *rapid.T) {
		u := rapid.IntRange(8, 32).Draw(rt, "firstStageUsers")
		c := rapid.IntRange(2, 8).Draw(rt, "secondStageUsers")
		n := uint64(rapid.IntRange(100000, 300000).Draw(rt, "maxIterations"))
		slowMs := rapid.IntRange(60, 120).Draw(rt, "slowMs")
		yaml := fmt.Sprintf("scenario: %s\nlimits:\n  max-duration: 20s\n  concurrency: %d\n  max-iterations: %d\n  ignore-dropped: true\nstages:\n"+
			"- duration: 40ms\n  mode: users\n  concurrency: %d\n- duration: 20s\n  mode: users\n  concurrency: %d\n", vlib.ScenarioName, c, n, u, c)
		var mu sync.Mutex
		ids := make([]uint64, 0, n)
		scenario := func(*f1testing.T) f1testing.RunFn {
			return func(it *f1testing.T) {
				id, _ := strconv.ParseUint(it.Iteration, 10, 64)
				mu.Lock()
				ids = append(ids, id)
				mu.Unlock()
				if id <= uint64(u) {
					time.Sleep(time.Duration(slowMs) * time.Millisecond)
				}
			}
		}
		spec := &vlib.RunSpec{Mode: "file", FileYAML: yaml, FileDir: dir, ScenarioFn: scenario, WaitTimeout: 20 * time.Second}
		if _, err := vlib.Execute(spec); err != nil {
			rt.Fatalf("VERIF-INFRA: cannot execute: %v", err)
		}
		desc := fmt.Sprintf("users(%d, 40ms, first iterations %dms) -> users(%d) max-iterations=%d", u, slowMs, c, n)
		mu.Lock()
		got := append([]uint64{}, ids...)
		mu.Unlock()
		sort.Slice(got, func(i, j int) bool { return got[i] < got[j] })
		stats.Case("users-hand-over", desc, true, []string{}, func() any { return map[string]any{"case": desc, "invocations": len(got)} })
		for i, id := range got {
			if id != uint64(i+1) {
				lo := max(0, i-2)
				rt.Fatalf("VERIF-VIOLATION C03: %d invocations; sorted ids around position %d are %v: expected exactly 1..%d, each once (%s)", len(got), i, got[lo:min(len(got), i+3)], len(got), desc)
			}
		}
		if uint64(len(got)) > n {
			rt.Fatalf("VERIF-VIOLATION C03: max-iterations %d but the iteration function was invoked %d times (%s)", n, len(got), desc)
		}
	})
}
