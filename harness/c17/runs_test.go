package c17

import (
	"fmt"
	"strconv"
	"sync"
	"sync/atomic"
	"testing"
	"time"

	"pgregory.net/rapid"

	"github.com/form3tech-oss/f1/v2/internal/progress"
	f1testing "github.com/form3tech-oss/f1/v2/pkg/f1/testing"
	"github.com/form3tech-oss/f1/v2/verifharness/vlib"
)

// ---- engine 2: whole runs whose bodies and cleanups sleep for known times -----------------------

// slack is the only upper time allowance of the package; it is applied to a
// minimum over >= minClass iterations (see upperBound).
const (
	slack    = 20 * time.Millisecond
	minClass = 8
)

// obs is what the harness measured for one iteration with its own monotonic clock.
type obs struct {
	ID      uint64
	Failed  bool
	Body    time.Duration // whole body, entry to last statement
	Env     time.Duration // body entry to the entry of the cleanup that runs first
	entry   time.Time
	cleaned bool
}

type runCase struct {
	Mode        string // users | constant-1 | constant-q
	Concurrency int
	N           int // max-iterations
	PerTick     int
	TickMs      int
	BodyMs      []int // body sleep by id (cycled), 1..5 ms
	CleanupMs   int   // >= 60
	Cleanups    int   // 1 or 2; the one that runs first sleeps CleanupMs
	FailEvery   int   // ids divisible by this fail (0 = none)
	FailNow     bool  // failing iterations use FailNow (panic path) instead of Fail
}

func (c runCase) key() string { return fmt.Sprintf("%+v", c) }

func genRunCase(t *rapid.T) runCase {
	c := runCase{
		Mode:      rapid.SampledFrom([]string{"users", "constant-1", "constant-q"}).Draw(t, "mode"),
		CleanupMs: rapid.IntRange(60, 75).Draw(t, "cleanupMs"),
		Cleanups:  rapid.SampledFrom([]int{1, 1, 2}).Draw(t, "cleanups"),
		FailEvery: rapid.SampledFrom([]int{0, 0, 2, 3}).Draw(t, "failEvery"),
		FailNow:   rapid.Bool().Draw(t, "failNow"),
		BodyMs:    rapid.SliceOfN(rapid.IntRange(1, 5), 1, 6).Draw(t, "bodyMs"),
	}
	switch c.Mode {
	case "users":
		c.Concurrency = rapid.IntRange(1, 3).Draw(t, "concurrency")
		c.N = rapid.IntRange(8, 20).Draw(t, "n")
	case "constant-1":
		c.Concurrency, c.PerTick = 1, 1
		c.TickMs = rapid.IntRange(100, 150).Draw(t, "tickMs")
		c.N = rapid.IntRange(8, 12).Draw(t, "n")
	default:
		c.Concurrency = 1
		c.PerTick = rapid.IntRange(2, 3).Draw(t, "perTick")
		c.TickMs = rapid.IntRange(100, 150).Draw(t, "tickMs")
		c.N = rapid.IntRange(8, 16).Draw(t, "n")
	}
	if c.FailEvery == 2 && c.N < 16 && c.Mode != "constant-1" {
		c.N = 16 // both outcome classes reach the size the upper bound needs
	}
	return c
}

// boundsOf returns, over the given observations, sum/min/max of the body times and the minimum envelope.
func boundsOf(os []obs) (sum, mn, mx, minEnv time.Duration) {
	for i, o := range os {
		sum += o.Body
		if i == 0 || o.Body < mn {
			mn = o.Body
		}
		if o.Body > mx {
			mx = o.Body
		}
		if i == 0 || o.Env < minEnv {
			minEnv = o.Env
		}
	}
	return
}

// judgeOutcome checks one outcome's figures (snapshot and exported sum) against
// the body-side measurements. Every comparison but the last is a lower bound:
// recorded_i >= body_i for each i implies min >= min body, max >= max body,
// floor(sum/n) >= floor(sum body/n), exported sum >= sum body. The last one is
// the package's single upper time bound (see DESIGN 2.4): recorded minimum <=
// minimum envelope + slack, where the envelope of an iteration runs from body
// entry to the entry of its first cleanup. A tree that measures cleanups or
// queueing (each >= 60 ms) makes every duration exceed that by >= 40 ms; on a
// correct tree recorded_j <= envelope_j + (start clock -> body entry), so a
// false alarm needs a 20 ms stall inside that call instruction window.
func judgeOutcome(name string, got progress.IterationDurationsSnapshot, exportedCount uint64, exportedSum float64, os []obs) string {
	if got.Count != uint64(len(os)) {
		return fmt.Sprintf("%s: snapshot count %d, %d such bodies ran", name, got.Count, len(os))
	}
	if exportedCount != uint64(len(os)) {
		return fmt.Sprintf("%s: exported sample count %d, %d such bodies ran", name, exportedCount, len(os))
	}
	if len(os) == 0 {
		return ""
	}
	sum, mn, mx, minEnv := boundsOf(os)
	if got.Min < mn {
		return fmt.Sprintf("%s: recorded minimum %v is below the shortest body %v (by the body's own clock)", name, got.Min, mn)
	}
	if got.Max < mx {
		return fmt.Sprintf("%s: recorded maximum %v is below the longest body %v", name, got.Max, mx)
	}
	if floor := sum / time.Duration(len(os)); got.Average < floor {
		return fmt.Sprintf("%s: recorded mean %v is below the mean body time %v", name, got.Average, floor)
	}
	if exportedSum < float64(sum.Nanoseconds()) {
		return fmt.Sprintf("%s: exported sample_sum %.0f ns is below the sum of the body times %d ns", name, exportedSum, sum.Nanoseconds())
	}
	if !(got.Min <= got.Average && got.Average <= got.Max) {
		return fmt.Sprintf("%s: min <= mean <= max broken: %v/%v/%v", name, got.Min, got.Average, got.Max)
	}
	if len(os) >= minClass && got.Min > minEnv+slack {
		return fmt.Sprintf("%s: recorded minimum %v exceeds the shortest body-entry-to-first-cleanup interval %v by more than %v over %d iterations: "+
			"cleanups or waiting are inside the measured interval", name, got.Min, minEnv, slack, len(os))
	}
	return ""
}

func TestProp_TimedRuns(t *testing.T) {
	rapid.Check(t, func(rt *rapid.T) {
		c := genRunCase(rt)
		var mu sync.Mutex
		var all []*obs
		var inFlight atomic.Int64
		scenario := func(*f1testing.T) f1testing.RunFn {
			return func(it *f1testing.T) {
				o := &obs{entry: time.Now()}
				inFlight.Add(1)
				o.ID, _ = strconv.ParseUint(it.Iteration, 10, 64)
				mu.Lock()
				all = append(all, o)
				mu.Unlock()
				// cleanups run last-registered first; the one registered last sleeps >= 60 ms
				it.Cleanup(func() { inFlight.Add(-1) })
				if c.Cleanups == 2 {
					it.Cleanup(func() { time.Sleep(time.Millisecond) })
				}
				it.Cleanup(func() {
					o.Env = time.Since(o.entry)
					o.cleaned = true
					time.Sleep(time.Duration(c.CleanupMs) * time.Millisecond)
				})
				time.Sleep(time.Duration(c.BodyMs[int(o.ID)%len(c.BodyMs)]) * time.Millisecond)
				if c.FailEvery > 0 && o.ID%uint64(c.FailEvery) == 0 {
					o.Failed = true
					if c.FailNow {
						o.Body = time.Since(o.entry)
						it.FailNow()
					}
					it.Fail()
				}
				o.Body = time.Since(o.entry)
			}
		}
		spec := &vlib.RunSpec{Mode: "users", ScenarioFn: scenario, WaitTimeout: 30 * time.Second}
		spec.Opts.Concurrency = c.Concurrency
		spec.Opts.MaxIterations = uint64(c.N)
		spec.Opts.MaxDuration = 60 * time.Second
		spec.Opts.IgnoreDropped = true
		if c.Mode != "users" {
			spec.Mode = "constant"
			spec.Flags = map[string]string{"rate": fmt.Sprintf("%d/%dms", c.PerTick, c.TickMs), "distribution": "none", "jitter": "0"}
		}
		out, err := vlib.Execute(spec)
		if err != nil {
			rt.Fatalf("VERIF-INFRA: cannot execute run %+v: %v", c, err)
		}
		if inFlight.Load() != 0 {
			stats.AddNote("runs_skipped_iterations_still_running", 1)
			return
		}
		mc, err := vlib.GatherCounts(out.Metrics)
		if err != nil {
			rt.Fatalf("VERIF-INFRA: gather: %v", err)
		}
		snap := out.Result.Snapshot()
		var pass, fail []obs
		for _, o := range all {
			if !o.cleaned {
				rt.Fatalf("VERIF-INFRA: iteration %d finished without its cleanup having run", o.ID)
			}
			if o.Failed {
				fail = append(fail, *o)
			} else {
				pass = append(pass, *o)
			}
		}
		cls := []string{"mode-" + c.Mode}
		if len(pass) >= minClass {
			cls = append(cls, "upper-bound-on-successful")
		}
		if len(fail) >= minClass {
			cls = append(cls, "upper-bound-on-failed")
		}
		if len(fail) > 0 {
			cls = append(cls, "with-failed")
		}
		if snap.DroppedIterationCount > 0 {
			cls = append(cls, "with-drops")
		}
		stats.Case("runs", c.key(), len(all) >= minClass, cls, func() any {
			return map[string]any{"case": c, "passed": len(pass), "failed": len(fail), "dropped": snap.DroppedIterationCount,
				"snapshot_successful": snap.SuccessfulIterationDurations.String()}
		})
		msg := judgeOutcome("successful", snap.SuccessfulIterationDurations, mc.Iteration["success"], mc.IterSum["success"], pass)
		if msg == "" {
			msg = judgeOutcome("failed", snap.FailedIterationDurations, mc.Iteration["fail"], mc.IterSum["fail"], fail)
		}
		if msg != "" {
			path := vlib.SaveArtefact("c17-run", map[string]any{"case": c, "observations": append(pass, fail...), "snapshot": snap})
			rt.Fatalf("VERIF-VIOLATION C17: run %+v: %s (artefact %s)", c, msg, path)
		}
	})
}
