package c17

import (
	"context"
	"fmt"
	"strconv"
	"testing"
	"time"

	"github.com/prometheus/client_golang/prometheus"
	"pgregory.net/rapid"

	"github.com/form3tech-oss/f1/v2/internal/log"
	"github.com/form3tech-oss/f1/v2/internal/metrics"
	"github.com/form3tech-oss/f1/v2/internal/progress"
	"github.com/form3tech-oss/f1/v2/internal/workers"
	"github.com/form3tech-oss/f1/v2/pkg/f1/scenarios"
	f1testing "github.com/form3tech-oss/f1/v2/pkg/f1/testing"
	"github.com/form3tech-oss/f1/v2/verifharness/vlib"
)

// ---- engine 3: the real one-worker trigger pool, one statistics collect per iteration ----------
//
// With a single worker every Record and every Snapshot below happens on the
// worker goroutine (a snapshot is taken inside each iteration's cleanup, one more
// after the pool has stopped), so this is sequential use, and exactly one
// iteration is recorded between two consecutive collects. Every period therefore
// holds at most one record, which yields the recorded duration of each iteration
// individually (the k-th record found belongs to the k-th iteration); the growth
// of the exported summary's sum is read the same way. Iterations fall into two
// classes:
//   after-idle: first request of a tick; the worker had been waiting for work >= idle ms
//   queued:     2nd/3rd request of a tick; the request waited for the worker through the
//               preceding iteration's body and cleanup (>= 60 ms)
// and the minimum-over-a-class upper bound is applied to each class separately,
// so a tree that counts either kind of waiting is seen even though the very
// first iteration of a pool never waits.

type rigObs struct {
	ID       uint64
	Tick     int
	Pos      int           // position within its tick (0 = taken by an idle worker)
	Body     time.Duration // by the body's own clock
	Env      time.Duration // body entry -> cleanup entry
	Recorded time.Duration // period figure of the collect made in the cleanup
	Exported time.Duration // growth of the exported sample_sum
	entry    time.Time
}

type rigCase struct {
	PerTick   []int // requests per tick (1..3), one worker
	BodyMs    []int
	CleanupMs int
	IdleMs    int
}

func (c rigCase) key() string { return fmt.Sprintf("%+v", c) }

func exportedSuccess(m *metrics.Metrics) (uint64, float64, error) {
	mc, err := vlib.GatherCounts(m)
	if err != nil {
		return 0, 0, err
	}
	return mc.Iteration["success"], mc.IterSum["success"], nil
}

func TestProp_PoolPerIteration(t *testing.T) {
	rapid.Check(t, func(rt *rapid.T) {
		c := rigCase{
			PerTick:   rapid.SliceOfN(rapid.SampledFrom([]int{1, 2, 2, 3}), 8, 10).Draw(rt, "perTick"),
			BodyMs:    rapid.SliceOfN(rapid.IntRange(1, 5), 1, 6).Draw(rt, "bodyMs"),
			CleanupMs: rapid.IntRange(60, 70).Draw(rt, "cleanupMs"),
			IdleMs:    rapid.IntRange(60, 70).Draw(rt, "idleMs"),
		}
		// both classes must reach the size the upper bound needs: raise ticks to 3 requests until 8 requests queue
		queuedPlanned := 0
		for _, n := range c.PerTick {
			queuedPlanned += n - 1
		}
		for i := 0; i < len(c.PerTick) && queuedPlanned < minClass; i++ {
			queuedPlanned += 3 - c.PerTick[i]
			c.PerTick[i] = 3
		}
		st := &progress.Stats{}
		m := metrics.NewInstance(prometheus.NewRegistry(), true, nil)
		logger := log.NewDiscardLogger()
		var all []*rigObs // appended and filled on the single worker goroutine; read after done signals
		done := make(chan string, 64)
		var curTick, curPos int // written by the harness before a tick / by the worker after each iteration
		type collect struct {
			period progress.IterationDurationsSnapshot
			cnt    uint64
			sum    float64
		}
		var collects []collect // one per cleanup (worker goroutine) plus a final one after the pool has stopped
		takeCollect := func() error {
			snap := st.Snapshot(0)
			cnt, sum, err := exportedSuccess(m)
			collects = append(collects, collect{snap.SuccessfulIterationDurationsForPeriod, cnt, sum})
			return err
		}
		sc := &scenarios.Scenario{Name: "c17", ScenarioFn: func(*f1testing.T) f1testing.RunFn {
			return func(it *f1testing.T) {
				o := &rigObs{entry: time.Now(), Tick: curTick, Pos: curPos}
				curPos++
				o.ID, _ = strconv.ParseUint(it.Iteration, 10, 64)
				all = append(all, o)
				it.Cleanup(func() {
					o.Env = time.Since(o.entry)
					msg := ""
					if err := takeCollect(); err != nil {
						msg = "VERIF-INFRA: gather: " + err.Error()
					}
					time.Sleep(time.Duration(c.CleanupMs) * time.Millisecond)
					done <- msg
				})
				time.Sleep(time.Duration(c.BodyMs[int(o.ID)%len(c.BodyMs)]) * time.Millisecond)
				o.Body = time.Since(o.entry)
			}
		}}
		as := workers.NewActiveScenario(sc, m, st, logger, log.NewSlogLogrusLogger(logger))
		as.Setup()
		pm := workers.New(0, as)
		pool := pm.NewTriggerPool(1)
		ctx, cancel := context.WithCancel(context.Background())
		workerCtx := pool.Start(ctx)
		shutdown := func() {
			cancel()
			select {
			case <-pm.WaitForCompletion():
			case <-time.After(30 * time.Second):
			}
		}
		for k, n := range c.PerTick {
			time.Sleep(time.Duration(c.IdleMs) * time.Millisecond) // the worker waits for work
			curTick, curPos = k, 0
			pool.Trigger(workerCtx, n)
			for i := 0; i < n; i++ {
				select {
				case msg := <-done:
					if msg != "" {
						shutdown()
						if len(msg) > 11 && msg[:11] == "VERIF-INFRA" {
							rt.Fatalf("%s", msg)
						}
						rt.Fatalf("VERIF-VIOLATION C17: pool %+v: %s", c, msg)
					}
				case <-time.After(60 * time.Second):
					shutdown()
					rt.Fatalf("VERIF-INFRA: iteration %d of tick %d did not finish within 60 s (%+v)", i, k, c)
				}
			}
		}
		shutdown()
		if err := takeCollect(); err != nil {
			rt.Fatalf("VERIF-INFRA: gather: %v", err)
		}
		total := st.Total()
		fail := func(format string, args ...any) {
			path := vlib.SaveArtefact("c17-pool", map[string]any{"case": c, "observations": all})
			rt.Fatalf("VERIF-VIOLATION C17: pool %+v: %s (artefact %s)", c, fmt.Sprintf(format, args...), path)
		}
		// Exactly one iteration is recorded between two consecutive collects (whether the code records before
		// or after the cleanups), so every period holds at most one record and the k-th record found is the
		// k-th iteration's (one worker: iterations are sequential).
		var recDur, expDur []time.Duration
		var prevCnt uint64
		var prevSum float64
		for k, cl := range collects {
			switch {
			case cl.period.Count > 1:
				fail("collect %d: period count %d although at most one iteration finished since the previous collect", k, cl.period.Count)
			case cl.period.Count == 1:
				if cl.period.Min != cl.period.Max || cl.period.Min != cl.period.Average {
					fail("collect %d: period figures of a single record differ: %s", k, cl.period)
				}
				recDur = append(recDur, cl.period.Min)
			}
			switch {
			case cl.cnt < prevCnt || cl.cnt > prevCnt+1:
				fail("collect %d: exported sample count went from %d to %d although at most one iteration finished", k, prevCnt, cl.cnt)
			case cl.cnt == prevCnt+1:
				expDur = append(expDur, time.Duration(cl.sum-prevSum))
			}
			prevCnt, prevSum = cl.cnt, cl.sum
		}

		var idle, queued []rigObs
		var recorded []int64
		for k, o := range all {
			if k < len(recDur) {
				o.Recorded = recDur[k]
			}
			if k < len(expDur) {
				o.Exported = expDur[k]
			}
			recorded = append(recorded, int64(o.Recorded))
			if o.Pos == 0 {
				idle = append(idle, *o)
			} else {
				queued = append(queued, *o)
			}
		}
		cls := []string{}
		if len(idle) >= minClass {
			cls = append(cls, "upper-bound-on-after-idle")
		}
		if len(queued) >= minClass {
			cls = append(cls, "upper-bound-on-queued")
		}
		stats.Case("pool", c.key(), len(all) >= minClass, cls, func() any {
			return map[string]any{"case": c, "iterations": len(all), "after_idle": len(idle), "queued": len(queued),
				"totals": total.SuccessfulIterationDurations.String()}
		})
		if len(recDur) != len(all) || len(expDur) != len(all) {
			fail("%d iterations ran; the period figures of the collects hold %d records and the exported summary %d samples", len(all), len(recDur), len(expDur))
		}
		// lower bounds, per iteration, for both sinks
		for _, o := range all {
			if o.Recorded < o.Body {
				fail("iteration %d: progress statistics recorded %v, its body took %v by its own clock", o.ID, o.Recorded, o.Body)
			}
			if o.Exported < o.Body {
				fail("iteration %d: exported metric grew by %v, its body took %v by its own clock", o.ID, o.Exported, o.Body)
			}
		}
		// exact aggregation of the real durations
		if msg := compare("final totals", total.SuccessfulIterationDurations, recorded); msg != "" {
			fail("%s (per-iteration recorded durations %v)", msg, recorded)
		}
		if total.FailedIterationDurations.Count != 0 || total.DroppedIterationCount != 0 {
			fail("no iteration failed and no request was superseded, totals report %d failed / %d dropped",
				total.FailedIterationDurations.Count, total.DroppedIterationCount)
		}
		// the upper bound: minimum over a class of >= 8 iterations
		for _, class := range []struct {
			name string
			os   []rigObs
		}{{"taken by a worker that had been idle", idle}, {"queued behind another iteration", queued}} {
			if len(class.os) < minClass {
				continue
			}
			best := map[string]time.Duration{}
			for i, o := range class.os {
				if d := o.Recorded - o.Env; i == 0 || d < best["progress statistics"] {
					best["progress statistics"] = d
				}
				if d := o.Exported - o.Env; i == 0 || d < best["exported metric"] {
					best["exported metric"] = d
				}
			}
			for sink, d := range best {
				if d > slack {
					fail("%s: each of the %d iterations %s has a recorded duration more than %v above its body-entry-to-cleanup-entry interval (smallest excess %v): "+
						"cleanups or waiting are inside the measured interval", sink, len(class.os), class.name, slack, d)
				}
			}
		}
	})
}
