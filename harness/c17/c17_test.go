package c17

import (
	"fmt"
	"strings"
	"testing"
	"time"

	"pgregory.net/rapid"

	"github.com/form3tech-oss/f1/v2/internal/metrics"
	"github.com/form3tech-oss/f1/v2/internal/progress"
	"github.com/form3tech-oss/f1/v2/verifharness/vlib"
)

var stats = vlib.NewStats("C17")

func TestMain(m *testing.M) { vlib.Main(m, stats) }

// ---- engine 1: sequential histories on the real progress.Stats against a list-keeping model ----

const (
	outSuccess = 0
	outFailed  = 1
	outDropped = 2

	maxDur = int64(1_000_000_000_000) // 10^12 ns
)

var outName = [3]string{"s", "f", "d"}
var outType = [3]metrics.ResultType{metrics.SuccessResult, metrics.FailedResult, metrics.DroppedResult}

// op is one step of a history: Kind 'r' = Record(Out, D), 'S' = Snapshot(Period), 'T' = Total().
type op struct {
	Kind   byte
	Out    int
	D      int64
	Period time.Duration
}

func (o op) String() string {
	switch o.Kind {
	case 'r':
		return fmt.Sprintf("%s%d", outName[o.Out], o.D)
	case 'S':
		return "SNAP"
	default:
		return "TOTAL"
	}
}

func render(h []op) string {
	var b strings.Builder
	for i, o := range h {
		if i > 0 {
			b.WriteByte(' ')
		}
		b.WriteString(o.String())
	}
	return b.String()
}

// figures is the reference arithmetic over the full list of durations.
func figures(list []int64) (n uint64, mean, mn, mx int64) {
	if len(list) == 0 {
		return 0, 0, 0, 0
	}
	var sum int64
	mn, mx = list[0], list[0]
	for _, d := range list {
		sum += d // <= 10^12 * len, far below 2^63
		if d < mn {
			mn = d
		}
		if d > mx {
			mx = d
		}
	}
	return uint64(len(list)), sum / int64(len(list)), mn, mx
}

// compare returns "" if the reported figures are exactly those of list. Over an
// empty list there is no iteration whose duration a figure could state: mean, minimum
// and maximum are all 0 (what the views print as "0s"); anything else is the duration
// of an iteration outside the period (or lifetime) the figures stand for.
func compare(what string, got progress.IterationDurationsSnapshot, list []int64) string {
	n, mean, mn, mx := figures(list)
	if got.Count != n {
		return fmt.Sprintf("%s: count %d, model %d", what, got.Count, n)
	}
	if n == 0 {
		if got.Average != 0 || got.Min != 0 || got.Max != 0 {
			return fmt.Sprintf("%s: nothing was recorded in it, yet it reports mean/min/max %d/%d/%d - figures of iterations outside it", what,
				int64(got.Average), int64(got.Min), int64(got.Max))
		}
		return ""
	}
	if int64(got.Average) != mean || int64(got.Min) != mn || int64(got.Max) != mx {
		return fmt.Sprintf("%s: count/mean/min/max %d/%d/%d/%d, model %d/%d/%d/%d over %v", what,
			got.Count, int64(got.Average), int64(got.Min), int64(got.Max), n, mean, mn, mx, tail(list))
	}
	if !(got.Min <= got.Average && got.Average <= got.Max) {
		return fmt.Sprintf("%s: min <= mean <= max broken: %d/%d/%d", what, int64(got.Min), int64(got.Average), int64(got.Max))
	}
	return ""
}

func tail(l []int64) []int64 {
	if len(l) > 12 {
		return l[len(l)-12:]
	}
	return l
}

// traits are the measured features of a history (for the class report).
type traits struct {
	collects, recordsBetween      int // collects; collects (other than the first) preceded by >= 1 record since the previous collect
	snapAfterTotal                bool
	emptyPeriodAfterData          bool
	periodMinAboveLifetime        bool
	periodNewMin, periodNewMax    bool
	hasOne, hasHuge, hasEqual     bool
	outcomes                      [3]int
	successPeriodsNonEmpty        int
	failedOnlyBetween             bool
	snapshots, totals, recordings int
}

func (tr traits) nontrivial() bool { return tr.collects >= 2 && tr.recordsBetween >= 1 }

func (tr traits) classes() []string {
	cls := []string{}
	add := func(c bool, s string) {
		if c {
			cls = append(cls, s)
		}
	}
	add(tr.nontrivial(), "nontrivial")
	add(tr.snapAfterTotal, "snapshot-after-total")
	add(tr.emptyPeriodAfterData, "empty-period-after-data")
	add(tr.periodMinAboveLifetime, "period-min-above-lifetime-min")
	add(tr.periodNewMin, "period-sets-new-lifetime-min")
	add(tr.periodNewMax, "period-sets-new-lifetime-max")
	add(tr.hasOne, "has-duration-1")
	add(tr.hasHuge, "has-duration-near-1e12")
	add(tr.hasEqual, "has-equal-durations")
	add(tr.outcomes[0] > 0 && tr.outcomes[1] > 0 && tr.outcomes[2] > 0, "all-three-outcomes")
	add(tr.successPeriodsNonEmpty >= 3, "three-nonempty-periods")
	add(tr.recordings >= 50, "fifty-or-more-records")
	add(tr.totals > 0 && tr.snapshots > 0, "snapshots-and-totals")
	return cls
}

// runHistory replays h on a fresh real Stats and on the model; it returns the
// first disagreement ("" = none) and the history's traits.
func runHistory(h []op) (msg string, tr traits) {
	defer func() {
		if r := recover(); r != nil {
			msg = fmt.Sprintf("panic: %v", r)
		}
	}()
	st := &progress.Stats{}
	var life [2][]int64 // full lists, per outcome (success, failed)
	var period []int64  // successful since the previous collect of either kind
	var dropped uint64
	var prevCount [2]uint64
	var prevDropped uint64
	sinceCollect := 0
	lastCollect := byte(0)
	seen := map[int64]bool{}

	for i, o := range h {
		switch o.Kind {
		case 'r':
			st.Record(outType[o.Out], o.D)
			tr.recordings++
			tr.outcomes[o.Out]++
			sinceCollect++
			if o.Out == outDropped {
				dropped++
				continue
			}
			life[o.Out] = append(life[o.Out], o.D)
			if o.Out == outSuccess {
				period = append(period, o.D)
			}
			if o.D == 1 {
				tr.hasOne = true
			}
			if o.D >= maxDur-8 {
				tr.hasHuge = true
			}
			if seen[o.D] {
				tr.hasEqual = true
			}
			seen[o.D] = true
		case 'S', 'T':
			var snap progress.Snapshot
			if o.Kind == 'S' {
				snap = st.Snapshot(o.Period)
				tr.snapshots++
			} else {
				snap = st.Total()
				tr.totals++
			}
			tr.collects++
			if tr.collects >= 2 && sinceCollect > 0 {
				tr.recordsBetween++
			}
			at := fmt.Sprintf("step %d (%s)", i, o)
			if m := compare(at+" lifetime successful", snap.SuccessfulIterationDurations, life[0]); m != "" {
				return m, tr
			}
			if m := compare(at+" lifetime failed", snap.FailedIterationDurations, life[1]); m != "" {
				return m, tr
			}
			if snap.DroppedIterationCount != dropped {
				return fmt.Sprintf("%s: dropped count %d, %d dropped records so far", at, snap.DroppedIterationCount, dropped), tr
			}
			if snap.SuccessfulIterationDurations.Count < prevCount[0] || snap.FailedIterationDurations.Count < prevCount[1] ||
				snap.DroppedIterationCount < prevDropped {
				return fmt.Sprintf("%s: a lifetime count decreased: %d/%d/%d after %d/%d/%d", at, snap.SuccessfulIterationDurations.Count,
					snap.FailedIterationDurations.Count, snap.DroppedIterationCount, prevCount[0], prevCount[1], prevDropped), tr
			}
			prevCount[0], prevCount[1] = snap.SuccessfulIterationDurations.Count, snap.FailedIterationDurations.Count
			prevDropped = snap.DroppedIterationCount
			if o.Kind == 'S' {
				if m := compare(at+" period successful", snap.SuccessfulIterationDurationsForPeriod, period); m != "" {
					return m, tr
				}
				if lastCollect == 'T' {
					tr.snapAfterTotal = true
				}
			}
			// traits of this collect
			before := life[0][:len(life[0])-len(period)]
			if len(period) > 0 {
				tr.successPeriodsNonEmpty++
				if len(before) > 0 {
					_, _, bmn, bmx := figures(before)
					_, _, pmn, pmx := figures(period)
					if pmn > bmn {
						tr.periodMinAboveLifetime = true
					}
					if pmn < bmn {
						tr.periodNewMin = true
					}
					if pmx > bmx {
						tr.periodNewMax = true
					}
				}
			} else if len(before) > 0 {
				tr.emptyPeriodAfterData = true
			}
			period = period[:0:0]
			sinceCollect = 0
			lastCollect = o.Kind
		}
	}
	return "", tr
}

// genDuration draws a positive duration in [1, 10^12], biased to 1, to values
// already used, to ascending/descending runs and to the top of the range.
func genDuration(t *rapid.T, style int, last *int64) int64 {
	clamp := func(v int64) int64 {
		if v < 1 {
			return 1
		}
		if v > maxDur {
			return maxDur
		}
		return v
	}
	var d int64
	switch style {
	case 1: // ascending run
		d = clamp(*last + rapid.Int64Range(0, 1000).Draw(t, "up"))
	case 2: // descending run
		if *last == 0 {
			*last = rapid.Int64Range(1, maxDur).Draw(t, "top")
		}
		d = clamp(*last - rapid.Int64Range(0, 1000).Draw(t, "down"))
	case 3: // all equal
		if *last == 0 {
			*last = rapid.OneOf(rapid.Just(int64(1)), rapid.Int64Range(1, maxDur), rapid.Just(maxDur)).Draw(t, "the")
		}
		d = *last
	case 4: // huge values: the sum is what is stressed
		d = maxDur - rapid.Int64Range(0, 8).Draw(t, "below")
	case 5: // tiny range: equal values and min/max ties
		d = rapid.Int64Range(1, 3).Draw(t, "tiny")
	default:
		d = rapid.OneOf(
			rapid.Just(int64(1)),
			rapid.Int64Range(1, 10),
			rapid.Int64Range(1, maxDur),
			rapid.Map(rapid.IntRange(0, 11), func(k int) int64 { return pow10(k) }),
			rapid.Map(rapid.Int64Range(0, 8), func(k int64) int64 { return maxDur - k }),
			rapid.Just(clamp(*last)), // repeat the previous value
			rapid.Just(clamp(*last+1)),
			rapid.Just(clamp(*last-1)),
		).Draw(t, "d")
	}
	*last = d
	return d
}

func pow10(k int) int64 {
	v := int64(1)
	for ; k > 0; k-- {
		v *= 10
	}
	return v
}

func genHistory(t *rapid.T) []op {
	steps := rapid.OneOf(rapid.IntRange(1, 12), rapid.IntRange(1, 60), rapid.IntRange(30, 200)).Draw(t, "steps")
	style := rapid.SampledFrom([]int{0, 0, 0, 1, 2, 3, 4, 5}).Draw(t, "style")
	// weights of record : snapshot : total
	wSnap := rapid.SampledFrom([]int{1, 2, 4}).Draw(t, "wSnap")
	wTotal := rapid.SampledFrom([]int{0, 1, 2}).Draw(t, "wTotal")
	var last [2]int64
	h := make([]op, 0, steps)
	for i := 0; i < steps; i++ {
		k := rapid.IntRange(0, 6+wSnap+wTotal-1).Draw(t, "action")
		switch {
		case k < 6:
			out := rapid.SampledFrom([]int{outSuccess, outSuccess, outSuccess, outFailed, outFailed, outDropped}).Draw(t, "outcome")
			o := op{Kind: 'r', Out: out}
			if out == outDropped {
				// production passes 0 for dropped iterations; a positive value must be ignored just the same
				if rapid.Bool().Draw(t, "droppedWithDuration") {
					o.D = rapid.Int64Range(1, maxDur).Draw(t, "dd")
				}
			} else {
				o.D = genDuration(t, style, &last[out])
			}
			h = append(h, o)
		case k < 6+wSnap:
			h = append(h, op{Kind: 'S', Period: time.Duration(rapid.Int64Range(0, 5_000_000_000).Draw(t, "period"))})
		default:
			h = append(h, op{Kind: 'T'})
		}
	}
	return h
}

func TestProp_SequentialHistories(t *testing.T) {
	rapid.Check(t, func(rt *rapid.T) {
		h := genHistory(rt)
		msg, tr := runHistory(h)
		stats.Case("model", render(h), tr.nontrivial(), tr.classes(), func() any { return render(h) })
		if msg != "" {
			rt.Fatalf("VERIF-VIOLATION C17: %s\nhistory: %s", msg, render(h))
		}
	})
}

// TestEnum_SmallHistories enumerates every history up to a length bound over a
// seven-letter alphabet (three successful durations, one failed, one dropped,
// Snapshot, Total) and ends each with a Snapshot and a Total.
func TestEnum_SmallHistories(t *testing.T) {
	alphabet := []op{
		{Kind: 'r', Out: outSuccess, D: 1},
		{Kind: 'r', Out: outSuccess, D: 2},
		{Kind: 'r', Out: outSuccess, D: 5},
		{Kind: 'r', Out: outFailed, D: 3},
		{Kind: 'r', Out: outDropped},
		{Kind: 'S', Period: time.Second},
		{Kind: 'T'},
	}
	maxLen := vlib.ByTier(6, 8)
	shard, shards := vlib.Shard()
	n := 0
	idx := 0
	h := make([]op, 0, maxLen+2)
	var walk func()
	walk = func() {
		if len(h) > 0 {
			idx++
			if idx%shards == shard {
				full := append(append([]op{}, h...), op{Kind: 'S', Period: time.Second}, op{Kind: 'T'})
				msg, tr := runHistory(full)
				stats.Case("enum", render(full), tr.nontrivial(), tr.classes(), func() any { return render(full) })
				n++
				if msg != "" {
					t.Fatalf("VERIF-VIOLATION C17: %s\nhistory: %s", msg, render(full))
				}
			}
		}
		if len(h) == maxLen {
			return
		}
		for _, a := range alphabet {
			h = append(h, a)
			walk()
			h = h[:len(h)-1]
		}
	}
	walk()
	stats.Note("enum_exhaustive", true)
	stats.Note("enum_max_len", fmt.Sprint(maxLen))
	stats.AddNote("enum_cases", int64(n))
}

// parse reads the rendering back ("s5 f3 d0 SNAP TOTAL").
func parse(s string) []op {
	var h []op
	for _, w := range strings.Fields(s) {
		switch {
		case w == "SNAP":
			h = append(h, op{Kind: 'S', Period: time.Second})
		case w == "TOTAL":
			h = append(h, op{Kind: 'T'})
		default:
			var d int64
			fmt.Sscanf(w[1:], "%d", &d)
			h = append(h, op{Kind: 'r', Out: strings.IndexByte("sfd", w[0]), D: d})
		}
	}
	return h
}

// TestRegress replays hostile constants and shrunk sensitivity failures as plain table tests.
func TestRegress(t *testing.T) {
	for _, s := range []string{
		"SNAP",
		"TOTAL",
		"s1 SNAP",
		"s1 TOTAL SNAP",
		// period minimum above the lifetime minimum, then an empty period (sentinel 0 must not become the minimum)
		"s1 SNAP s2 SNAP SNAP TOTAL",
		"s5 SNAP SNAP s7 SNAP",
		// a later period lowers the minimum / raises the maximum
		"s5 SNAP s1 SNAP s9 SNAP",
		// Total collects too: the next period starts after it
		"s4 TOTAL s6 SNAP",
		"s4 s4 TOTAL SNAP s4 SNAP",
		// period figures are not lifetime figures
		"s10 SNAP s2 s4 SNAP",
		// failed durations and dropped records do not leak into successful figures
		"f3 d0 SNAP s2 f9 SNAP d7 SNAP",
		// integer mean is the floor
		"s1 s2 SNAP s2 SNAP",
		"s1 s1 s2 TOTAL",
		"s1 s2 s2 SNAP",
		// shrunk sensitivity failures: a longer period must not overwrite the lifetime maximum; stale period min/max
		"s2 SNAP s1 s1 s1 s1 SNAP TOTAL",
		"s1 SNAP s2 SNAP",
		"s5 SNAP s2 SNAP s3 SNAP",
		"f3 SNAP f1 TOTAL f9 SNAP",
		// huge values: the sum of a thousand 10^12 still fits
		strings.Repeat("s1000000000000 ", 1000) + "SNAP " + strings.Repeat("s999999999999 ", 500) + "SNAP TOTAL",
		"s1000000000000 s1 SNAP s1000000000000 SNAP",
	} {
		h := parse(s)
		if msg, _ := runHistory(h); msg != "" {
			if len(s) > 200 {
				s = s[:200] + "..."
			}
			t.Errorf("VERIF-VIOLATION C17: %s\nhistory: %s", msg, s)
		}
	}
}
