package c14

import (
	"fmt"
	"math"
	"strconv"
	"testing"
	"time"

	"pgregory.net/rapid"

	"github.com/form3tech-oss/f1/v2/internal/trigger/gaussian"
	"github.com/form3tech-oss/f1/v2/verifharness/vlib"
)

// "Accepted rate strings mean what they spell: N/<duration> is N per that duration" - also where a
// rate string is a flag of its own: the gaussian trigger's --peak-rate is turned into a volume by
// gaussian.CalculateVolume, which is linear in the rate the string spells. Metamorphic oracle: two
// spellings of the same rate (N per unit and k*N per k*unit; units with and without sub-millisecond
// parts) give the same volume (up to the final rounding), a finite one, and doubling N doubles it.
func TestProp_PeakRateSpellings(t *testing.T) {
	units := []time.Duration{500 * time.Microsecond, 1500 * time.Microsecond, 1999 * time.Microsecond, 250 * time.Nanosecond,
		time.Millisecond, 10 * time.Millisecond, 2500 * time.Microsecond, time.Second, 90 * time.Second, time.Hour}
	rapid.Check(t, func(rt *rapid.T) {
		n := rapid.OneOf(rapid.IntRange(1, 20), rapid.IntRange(1, 100000)).Draw(rt, "n")
		u := rapid.SampledFrom(units).Draw(rt, "unit")
		k := rapid.SampledFrom([]int{2, 3, 10, 1000}).Draw(rt, "k")
		peak := time.Duration(rapid.IntRange(1, 23).Draw(rt, "peakHour")) * time.Hour
		stddev := time.Duration(rapid.IntRange(1, 180).Draw(rt, "stddevMinutes")) * time.Minute
		a := fmt.Sprintf("%d/%s", n, u)
		b := fmt.Sprintf("%d/%s", n*k, time.Duration(k)*u)
		d := fmt.Sprintf("%d/%s", 2*n, u)
		va, erra := gaussian.CalculateVolume(a, peak, stddev)
		vb, errb := gaussian.CalculateVolume(b, peak, stddev)
		vd, errd := gaussian.CalculateVolume(d, peak, stddev)
		sub := u%time.Millisecond != 0
		cls := []string{}
		if sub {
			cls = append(cls, "unit-with-sub-millisecond-part")
		}
		stats.Case("peak-rate", a+"|"+b+peak.String()+stddev.String(), sub, cls, func() any {
			return map[string]any{"spelling": a, "same_rate": b, "peak": peak.String(), "stddev": stddev.String(), "volume": va}
		})
		if erra != nil || errb != nil || errd != nil {
			rt.Fatalf("VERIF-VIOLATION C14: peak rates %q, %q, %q (valid rate strings): errors %v / %v / %v", a, b, d, erra, errb, errd)
		}
		for _, v := range []float64{va, vb, vd} {
			if math.IsNaN(v) || math.IsInf(v, 0) || v < 0 {
				rt.Fatalf("VERIF-VIOLATION C14: peak rate %q (peak %s, stddev %s) gives the volume %v without an error", a, peak, stddev, v)
			}
		}
		tol := 1 + 1e-9*math.Max(va, vb)
		if math.Abs(va-vb) > tol {
			rt.Fatalf("VERIF-VIOLATION C14: peak rates %q and %q spell the same rate but give the volumes %v and %v (peak %s, stddev %s)", a, b, va, vb, peak, stddev)
		}
		// through the CLI's builder the peak rate must actually drive the profile: `--peak-rate R` is the
		// same trigger as `--volume CalculateVolume(R, peak, stddev)` (the volume flag is ignored then)
		common := map[string]string{"repeat": "24h0m0s", "iteration-frequency": "1m0s", "peak": peak.String(), "standard-deviation": stddev.String(), "distribution": "none"}
		withPeak := map[string]string{"peak-rate": a, "volume": "7"}
		withVolume := map[string]string{"volume": strconv.FormatFloat(va, 'f', -1, 64)}
		for k, v := range common {
			withPeak[k], withVolume[k] = v, v
		}
		tp, errp := vlib.BuildTrigger(&vlib.RunSpec{Mode: "gaussian", Flags: withPeak})
		tv, errv := vlib.BuildTrigger(&vlib.RunSpec{Mode: "gaussian", Flags: withVolume})
		if (errp == nil) != (errv == nil) {
			rt.Fatalf("VERIF-VIOLATION C14: run gaussian --peak-rate %s and --volume %v (the volume that peak rate stands for) are not accepted alike: %v / %v", a, va, errp, errv)
		}
		if errp == nil {
			day := time.Date(2024, 5, 17, 0, 0, 0, 0, time.UTC)
			for i := 0; i < 12; i++ {
				at := day.Add(peak - 6*30*time.Minute + time.Duration(i)*30*time.Minute)
				if x, y := tp.DryRun(at), tv.DryRun(at); x != y {
					rt.Fatalf("VERIF-VIOLATION C14: run gaussian --peak-rate %s requests %d at %s, --volume %v (what that peak rate stands for) requests %d (peak %s, stddev %s)", a, x, at.Format("15:04"), va, y, peak, stddev)
				}
			}
		}
		if math.Abs(vd-2*va) > 2+1e-9*vd {
			rt.Fatalf("VERIF-VIOLATION C14: peak rate %q gives the volume %v, twice that rate (%q) gives %v (peak %s, stddev %s)", a, va, d, vd, peak, stddev)
		}
	})
}
