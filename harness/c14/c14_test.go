// Package c14 decides property C14: every user input (rate string, stages
// string, flag combination, YAML config file, arbitrary bytes) is either
// rejected with an error before setup runs, or yields a trigger that can run
// (positive tick interval, usable rate function, at least one worker); malformed
// input never crashes; accepted rate strings mean what they spell.
//
// The package is split into independent units (one TestProp_* per input
// language) because several independent defects hide behind each other and
// rapid stops at the first failure of a unit.
//
// This file: shared oracle pieces (panic capture, the "runnable" predicate,
// known-finding triage).
package c14

import (
	"fmt"
	"math/rand"
	"runtime"
	"runtime/debug"
	"strings"
	"testing"
	"time"

	"pgregory.net/rapid"

	"github.com/form3tech-oss/f1/v2/internal/trigger/api"
	"github.com/form3tech-oss/f1/v2/verifharness/vlib"
)

var stats = vlib.NewStats("C14")

func TestMain(m *testing.M) { vlib.Main(m, stats) }

// Proposed ids of the genuine defects this package reproduces. A guard is
// active only while the id is listed as "open" in /verif/known_findings.json
// (or the file named by VERIF_KNOWN); otherwise the check stays strict.
const (
	kRateEmptyUnit   = "C14-F4a-rate-empty-unit-panics"                  // ParseRate("N/") slices an empty string
	kRateDotUnit     = "C14-F4b-rate-leading-dot-unit-misread"           // "N/.5s" is read as N per 1.5s
	kRateZeroUnit    = "C14-F4c-rate-zero-unit-accepted"                 // "N/0s" accepted, tick interval 0
	kCfgJitter       = "C14-F5a-config-missing-jitter-nil-deref"         // stage and default both without jitter
	kCfgConcurrency  = "C14-F5b-config-concurrency-not-positive"         // limits / default / users-stage concurrency <= 0 accepted
	kFreqNotPositive = "C14-F6a-iteration-frequency-not-positive"        // iteration-frequency <= 0 accepted (staged; gaussian until 8eb0748)
	kGaussCovered    = "C14-F6b-gaussian-no-covered-mass"                // covered mass CDF(repeat-frequency)-CDF(0) <= 0, or so small (or stddev so narrow) that the request at the peak overflows int: MinInt64 requests
	kNegStageTarget  = "C14-N1-staged-negative-target-accepted"          // "1s:-5" accepted: negative requests, rand.Intn panic behind the random distribution
	kGaussNegScale   = "C14-N2-gaussian-volume-or-weights-not-validated" // volume < 0, a weight < 0 or not finite, or all-zero weights accepted
	kNonFinite       = "C14-N3-config-non-finite-float-accepted"         // jitter / volume .nan or .inf in a config file accepted: MinInt64 requests
)

// failer is satisfied by *testing.T, *rapid.T and *testing.F's T.
type failer interface {
	Fatalf(format string, args ...any)
}

// settle ends the judgement of one case: a violation on an input that belongs
// to the exact input class of an OPEN known finding is counted and excused
// (the KNOWN-FINDING line is printed); everything else fails the unit.
func settle(f failer, known []string, violation string) {
	if violation == "" {
		return
	}
	for _, id := range known {
		if id != "" && vlib.KnownOpen(id) {
			vlib.ReportKnown(id)
			stats.AddNote("excluded_known", 1)
			stats.AddNote("excluded_known:"+id, 1)
			return
		}
	}
	f.Fatalf("VERIF-VIOLATION C14: %s", violation)
}

// panicSite extracts the frame that caused a panic from the current
// goroutine's stack (called inside a deferred recover): the innermost frame
// below the panic that is neither the Go runtime nor the standard library,
// prefixed by the standard-library function that panicked, if any.
func panicSite() string {
	lines := strings.Split(string(debug.Stack()), "\n")
	goroot := runtime.GOROOT()
	seenPanic := false
	via := ""
	for i := 0; i+1 < len(lines); i++ {
		l := lines[i]
		if strings.HasPrefix(l, "panic(") {
			seenPanic = true
			continue
		}
		if !seenPanic || strings.HasPrefix(l, "\t") || !strings.HasPrefix(lines[i+1], "\t") {
			continue
		}
		if strings.HasPrefix(l, "runtime.") || strings.HasPrefix(l, "runtime/") {
			continue
		}
		loc := strings.TrimSpace(lines[i+1])
		if j := strings.Index(loc, " +0x"); j > 0 {
			loc = loc[:j]
		}
		fn := l
		if j := strings.LastIndex(fn, "("); j > 0 {
			fn = fn[:j]
		}
		if j := strings.LastIndex(fn, "/"); j >= 0 {
			fn = fn[j+1:]
		}
		if (goroot != "" && strings.HasPrefix(loc, goroot)) || strings.Contains(loc, "/src/") && !strings.Contains(loc, "/internal/trigger") {
			if via == "" {
				via = fn
			}
			continue
		}
		// keep the path relative to the module for readability
		for _, marker := range []string{"/internal/", "/pkg/"} {
			if j := strings.LastIndex(loc, marker); j >= 0 {
				loc = loc[j+1:]
				break
			}
		}
		if via != "" {
			return loc + " in " + fn + " calling " + via
		}
		return loc + " in " + fn
	}
	return "?"
}

// try runs f and converts a panic into a message.
func try(f func()) (panicMsg string) {
	defer func() {
		if r := recover(); r != nil {
			panicMsg = fmt.Sprintf("%v (at %s)", r, panicSite())
		}
	}()
	f()
	return ""
}

var baseTime = time.Date(2024, 3, 10, 9, 0, 0, 0, time.UTC)

// sweep returns n strictly increasing synthetic instants.
func sweep(start time.Time, step time.Duration, n int) []time.Time {
	if step <= 0 {
		step = time.Second
	}
	out := make([]time.Time, n)
	for i := range out {
		out[i] = start.Add(time.Duration(i) * step)
	}
	return out
}

// spread returns n increasing instants covering [start, start+total] and one
// step beyond it.
func spread(start time.Time, total time.Duration, n int) []time.Time {
	if n < 3 {
		n = 3
	}
	if total <= 0 || total > 1000*time.Hour {
		return sweep(start, time.Second, n)
	}
	step := total / time.Duration(n-2)
	if step <= 0 {
		step = 1
	}
	return sweep(start, step, n)
}

// runnable is the property's "a trigger that can run" for one (tick interval,
// rate function) pair: the interval is positive (time.NewTicker panics
// otherwise), and the rate function can be called at increasing instants
// without panicking and never asks for a negative number of iterations.
// It returns "" or the violation text, and the largest value seen.
func runnable(what string, interval time.Duration, fn api.RateFunction, at []time.Time) (string, int) {
	if interval <= 0 {
		return fmt.Sprintf("%s: accepted, but the tick interval is %v (not positive: time.NewTicker panics)", what, interval), 0
	}
	if fn == nil {
		return fmt.Sprintf("%s: accepted, but the rate function is nil", what), 0
	}
	maxV := 0
	for i, ts := range at {
		var v int
		if p := try(func() { v = fn(ts) }); p != "" {
			return fmt.Sprintf("%s: accepted, but the rate function panicked on call %d (t0+%v): %s", what, i+1, ts.Sub(at[0]), p), maxV
		}
		if v < 0 {
			return fmt.Sprintf("%s: accepted, but the rate function asked for %d iterations on call %d (t0+%v)", what, v, i+1, ts.Sub(at[0])), maxV
		}
		if v > maxV {
			maxV = v
		}
	}
	return "", maxV
}

// seedGlobalRand pins math/rand's global source (api.WithJitter and the random
// distribution draw from it) so that a rapid case replays identically. The
// oracle holds for every stream; this only affects reproducibility.
func seedGlobalRand(seed int64) {
	rand.Seed(seed) //nolint:staticcheck // deliberate: effective for go <= 1.23 main modules
}

// rapid's IntRange / SampledFrom are strongly biased towards small values
// (index 0 is drawn ~10x as often as index 50 of 100). Shape and pool choices
// use these helpers instead: inside the binade [1,2) rapid draws the
// significand uniformly except for an atom at the lower end, which is redrawn.
var binade = rapid.Float64Range(1, 2)

func unit01(t *rapid.T, label string) float64 {
	for i := 0; i < 6; i++ {
		if x := binade.Draw(t, label); x != 1 && x < 2 {
			return x - 1
		}
	}
	return 0
}

// unif draws uniformly from 0..n-1 (shrinks towards 0).
func unif(t *rapid.T, label string, n int) int {
	if n <= 1 {
		return 0
	}
	v := int(unit01(t, label) * float64(n))
	if v >= n {
		v = n - 1
	}
	return v
}

// pick draws uniformly from a pool (shrinks towards the first element).
func pick[T any](t *rapid.T, label string, pool []T) T {
	return pool[unif(t, label, len(pool))]
}

var documentedDistributions = map[string]bool{"none": true, "regular": true, "random": true}

func clip(s string, n int) string {
	if len(s) <= n {
		return s
	}
	return s[:n] + fmt.Sprintf("...(%d bytes)", len(s))
}

func has(list []string, s string) bool {
	for _, x := range list {
		if x == s {
			return true
		}
	}
	return false
}
