package c14

// Arbitrary bytes: a rapid unit (raw bytes, bytes over the grammars' alphabet,
// byte-level mutations of valid inputs), native Go fuzz targets with the same
// semantic oracle inside (thorough tier), and a plain test that replays the
// fuzz seed corpus (both tiers).

import (
	"embed"
	"encoding/hex"
	"fmt"
	"sort"
	"strings"
	"testing"

	"pgregory.net/rapid"

	"github.com/form3tech-oss/f1/v2/internal/ui"
)

func discardOutput() *ui.Output { return ui.NewDiscardOutput() }

//go:embed testdata/seeds/*.yaml
var seedFS embed.FS

// valid inputs from the repository's own tests and documentation, and hostile constants
var rateSeeds = []string{
	"1/s", "10/s", "10/1s", "1/1s", "5/1s", "0/s", "6/s", "5/100ms", "10/100ms", "30/100ms", "0/100ms", "20", "2/m", "1/h", "3/10us", "4/µs", "1/ns",
	"5/", "1/.5s", "1/0s", "1/0", "7/0h0m", "-5/s", "-5", "1/-1s", "1/+1s", "", "/", "/s", "s", "1//s", "1/s/s", " 1/s", "1/ s", "1 /s", "1/1.5s", "1/0.5s",
	"9223372036854775807/s", "9223372036854775808/s", "1/9999999999h", "1/9223372036854775807ns", "1/9223372036854775808ns",
	"٣/s", "1/٣s", "1/S", "1/1d", "1e3/s", "1.5/s", "0x10/s", "1_000/s", "1/1h30m", "1/μs", "+5/s", "1/\x00", "\xff/s", "1/\xffs",
}

var stagesSeeds = []string{
	"0s:1, 10s:1", "0s:1,10s:1,20s:20,1m:50,1h:200", "0s:0,300ms:30", "5m:100,2m:0,10s:100", "1s:10",
	"0s:1:2", "0BB:1", "1s:BB", "1s:-5", "0s:-1,1s:0", "", ",", ":", "1s:", ":1", "1s:1,", ",1s:1", "1s:9223372036854775807", "1s:9223372036854775808",
	"-1s:5", "1s:1.5", "1s;1", "1s:1\n", " 1s : 1 ", "1s:٣", "9999999999h:1", "1s:1,1s", "0:1",
}

var hostileConfigs = []string{
	// F5a: no jitter on the stage nor in the default section
	"scenario: template\nlimits:\n  max-duration: 1m\n  concurrency: 50\n  max-iterations: 100\n  ignore-dropped: true\nstages:\n- duration: 5s\n  mode: constant\n  rate: 6/s\n  distribution: none\n",
	// F5b: users stage with concurrency 0 / -1, limits.concurrency 0 / -1
	"scenario: template\nlimits:\n  max-duration: 1m\n  concurrency: 50\n  max-iterations: 100\n  ignore-dropped: true\nstages:\n- duration: 5s\n  mode: users\n  concurrency: 0\n",
	"scenario: template\nlimits:\n  max-duration: 1m\n  concurrency: 50\n  max-iterations: 100\n  ignore-dropped: true\nstages:\n- duration: 5s\n  mode: users\n  concurrency: -1\n",
	"scenario: template\nlimits:\n  max-duration: 1m\n  concurrency: 0\n  max-iterations: 100\n  ignore-dropped: true\nstages:\n- duration: 5s\n  mode: users\n",
	"scenario: template\nlimits:\n  max-duration: 1m\n  concurrency: -1\n  max-iterations: 100\n  ignore-dropped: true\nstages:\n- duration: 5s\n  mode: constant\n  rate: 6/s\n  jitter: 0\n  distribution: none\n",
	// F6a / F6b in a config
	"scenario: template\nlimits:\n  max-duration: 1m\n  concurrency: 5\n  max-iterations: 100\n  ignore-dropped: true\nstages:\n- duration: 5s\n  mode: staged\n  stages: 0s:1,10s:1\n  iteration-frequency: 0s\n  jitter: 0\n  distribution: none\n",
	"scenario: template\nlimits:\n  max-duration: 1m\n  concurrency: 5\n  max-iterations: 100\n  ignore-dropped: true\nstages:\n- duration: 5s\n  mode: gaussian\n  volume: 100\n  repeat: 1s\n  iteration-frequency: 1s\n  peak: 500ms\n  weights: \"\"\n  standard-deviation: 100ms\n  jitter: 0\n  distribution: none\n",
	// F4 in a config
	"scenario: template\nlimits:\n  max-duration: 1m\n  concurrency: 5\n  max-iterations: 100\n  ignore-dropped: true\nstages:\n- duration: 5s\n  mode: constant\n  rate: 5/\n  jitter: 0\n  distribution: none\n",
	"scenario: template\nlimits:\n  max-duration: 1m\n  concurrency: 5\n  max-iterations: 100\n  ignore-dropped: true\nstages:\n- duration: 5s\n  mode: constant\n  rate: 1/0s\n  jitter: 0\n  distribution: none\n",
	// structure
	"", "a", "- a", "{}", "[]", "null", "scenario: x", "stages: [null]", "stages:\n- null\n", "? a\n: b", "&a [*a]", "a: &a [*a, *a]", "%YAML 1.2\n---\n", "\t", "\x00", "stages: {a: b}",
	"scenario: template\ndefault: null\nlimits: null\nstages: null\n",
	"scenario: template\nlimits:\n  max-duration: 1m\n  concurrency: 5\n  max-iterations: 100\n  ignore-dropped: true\nstages:\n- duration: 5s\n  mode: users\n  parameters: null\n",
	"scenario: template\nlimits:\n  max-duration: 1m\n  concurrency: 5\n  max-iterations: 100\n  ignore-dropped: true\nstages:\n- duration: 5s\n  mode: constant\n  rate: 1/s\n  jitter: .nan\n  distribution: none\n",
}

func yamlSeeds() [][]byte {
	entries, err := seedFS.ReadDir("testdata/seeds")
	if err != nil {
		panic(err)
	}
	names := make([]string, 0, len(entries))
	for _, e := range entries {
		names = append(names, e.Name())
	}
	sort.Strings(names)
	var out [][]byte
	for _, n := range names {
		b, err := seedFS.ReadFile("testdata/seeds/" + n)
		if err != nil {
			panic(err)
		}
		out = append(out, b)
	}
	for _, h := range hostileConfigs {
		out = append(out, []byte(h))
	}
	return out
}

// ---------------------------------------------------------------------------
// one judgement of arbitrary bytes against all three parsers

type bytesVerdict struct {
	rateAccepted, stagesAccepted, configAccepted bool
	violation                                    string
	known                                        []string
}

func judgeBytes(b []byte, dist string) (v bytesVerdict) {
	s := string(b)
	var viol string
	v.rateAccepted, viol = judgeRate(s)
	if viol != "" {
		v.violation, v.known = viol, rateKnown(s)
		return v
	}
	v.stagesAccepted, _, viol = judgeStages(s, dist)
	if viol != "" {
		v.violation, v.known = viol, stagesKnown(s)
		return v
	}
	res := judgePlan(b, 6)
	v.configAccepted = res.accepted
	if res.violation != "" {
		v.violation, v.known = res.violation, planKnown(b)
	}
	return v
}

var grammarBytes = []byte("0123456789/:,.-+ smhunµ\n\t:-_abcdefgilorty{}[]\"'#&*!|>%@`\\\x00\xff")

func mutateBytes(t *rapid.T, b []byte) []byte {
	out := append([]byte{}, b...)
	n := 1
	if unif(t, "moreMutations", 4) == 3 {
		n += 1 + unif(t, "mutations", 3)
	}
	for i := 0; i < n; i++ {
		switch unif(t, "mutation", 5) {
		case 0: // replace
			if len(out) > 0 {
				out[unif(t, "pos", len(out))] = pick(t, "byte", grammarBytes)
			}
		case 1: // insert
			pos := unif(t, "pos", len(out)+1)
			out = append(out[:pos], append([]byte{pick(t, "byte", grammarBytes)}, out[pos:]...)...)
		case 2: // delete a byte
			if len(out) > 0 {
				pos := unif(t, "pos", len(out))
				out = append(out[:pos], out[pos+1:]...)
			}
		case 3: // delete a line
			lines := strings.Split(string(out), "\n")
			if len(lines) > 1 {
				k := unif(t, "line", len(lines))
				lines = append(lines[:k], lines[k+1:]...)
				out = []byte(strings.Join(lines, "\n"))
			}
		default: // random byte
			if len(out) > 0 {
				out[unif(t, "pos", len(out))] = rapid.Byte().Draw(t, "rawByte")
			}
		}
	}
	return out
}

func TestProp_RawBytes(t *testing.T) {
	yseeds := yamlSeeds()
	rapid.Check(t, func(rt *rapid.T) {
		var b []byte
		shape := ""
		switch k := unif(rt, "bytesShape", 100); {
		case k < 20:
			b, shape = rapid.SliceOfN(rapid.Byte(), 0, 48).Draw(rt, "raw"), "raw"
		case k < 40:
			b, shape = rapid.SliceOfN(rapid.SampledFrom(grammarBytes), 0, 24).Draw(rt, "alphabet"), "alphabet"
		case k < 55:
			b, shape = mutateBytes(rt, []byte(pick(rt, "rateSeed", rateSeeds))), "mutated-rate"
		case k < 70:
			b, shape = mutateBytes(rt, []byte(pick(rt, "stagesSeed", stagesSeeds))), "mutated-stages"
		default:
			b, shape = mutateBytes(rt, pick(rt, "yamlSeed", yseeds)), "mutated-config"
		}
		dist := pick(rt, "distribution", []string{"none", "regular", "random"})
		seedGlobalRand(rapid.Int64().Draw(rt, "randSeed"))
		v := judgeBytes(b, dist)
		recordBytes("bytes", b, shape, v)
		settle(rt, v.known, v.violation)
	})
}

func recordBytes(section string, b []byte, shape string, v bytesVerdict) {
	cls := []string{"shape-" + shape}
	some := v.rateAccepted || v.stagesAccepted || v.configAccepted
	switch {
	case v.violation != "":
		cls = append(cls, "violates")
	case some:
		cls = append(cls, "accepted-by-some-parser")
	default:
		cls = append(cls, "rejected-by-all")
	}
	if v.rateAccepted {
		cls = append(cls, "rate-accepted")
	}
	if v.stagesAccepted {
		cls = append(cls, "stages-accepted")
	}
	if v.configAccepted {
		cls = append(cls, "config-accepted")
	}
	if len(v.known) > 0 {
		cls = append(cls, "in-known-finding-class")
	}
	// non-trivial: accepted by a parser, or a few bytes away from an input that is
	stats.Case(section, hex.EncodeToString(b), some || strings.HasPrefix(shape, "mutated"), cls, func() any {
		return map[string]any{"bytes": fmt.Sprintf("%q", clip(string(b), 300)), "rate": v.rateAccepted, "stages": v.stagesAccepted, "config": v.configAccepted, "violation": v.violation}
	})
}

// ---------------------------------------------------------------------------
// native fuzz targets (thorough tier) and the corpus replay (both tiers)

func FuzzParseRate(f *testing.F) {
	for _, s := range rateSeeds {
		f.Add(s)
	}
	f.Fuzz(func(t *testing.T, s string) {
		accepted, violation := judgeRate(s)
		recordRate("fuzz-rate", s, "fuzz", accepted, violation)
		settle(t, rateKnown(s), violation)
	})
}

var fuzzDists = []string{"none", "regular", "random"}

func FuzzParseStages(f *testing.F) {
	for i, s := range stagesSeeds {
		f.Add(s, uint8(i))
	}
	f.Fuzz(func(t *testing.T, s string, d uint8) {
		dist := fuzzDists[int(d)%len(fuzzDists)]
		seedGlobalRand(int64(d))
		accepted, n, violation := judgeStages(s, dist)
		recordStages("fuzz-stages", s, dist, "fuzz", accepted, n, violation)
		settle(t, stagesKnown(s), violation)
	})
}

func FuzzParseConfigFile(f *testing.F) {
	for _, b := range yamlSeeds() {
		f.Add(b)
	}
	f.Fuzz(func(t *testing.T, b []byte) {
		seedGlobalRand(1)
		res := judgePlan(b, 6)
		v := bytesVerdict{configAccepted: res.accepted, violation: res.violation}
		if res.violation != "" {
			v.known = planKnown(b)
		}
		recordBytes("fuzz-config", b, "fuzz", v)
		settle(t, v.known, res.violation)
	})
}

// collector gathers violations instead of stopping at the first one.
type collector struct{ msgs []string }

func (c *collector) Fatalf(format string, args ...any) {
	c.msgs = append(c.msgs, fmt.Sprintf(format, args...))
}

func (c *collector) report(t *testing.T) {
	for _, m := range c.msgs {
		t.Errorf("%s", m)
	}
}

// TestFuzzCorpus replays the seed corpus of the three fuzz targets through the
// same oracles (the quick tier's stand-in for the fuzzers, and a guard that the
// corpus itself stays judged in the thorough tier).
func TestFuzzCorpus(t *testing.T) {
	var c collector
	for _, s := range rateSeeds {
		accepted, violation := judgeRate(s)
		recordRate("corpus", s, "seed", accepted, violation)
		settle(&c, rateKnown(s), violation)
	}
	for i, s := range stagesSeeds {
		dist := fuzzDists[i%len(fuzzDists)]
		seedGlobalRand(int64(i))
		accepted, n, violation := judgeStages(s, dist)
		recordStages("corpus", s, dist, "seed", accepted, n, violation)
		settle(&c, stagesKnown(s), violation)
	}
	accepted := 0
	for _, b := range yamlSeeds() {
		seedGlobalRand(1)
		v := judgeBytes(b, "random")
		if v.configAccepted {
			accepted++
		}
		recordBytes("corpus", b, "seed", v)
		settle(&c, v.known, v.violation)
	}
	if accepted < 10 {
		t.Errorf("VERIF-INFRA: only %d of the seed configs are accepted; the seed corpus no longer matches the parser", accepted)
	}
	c.report(t)
}
