package c14

// TestRegress: shrunk failures found by the generated units and the hostile
// constants of DESIGN section 4, replayed as plain table tests (bypass rapid).
// Each entry goes through the same oracle and the same known-finding triage
// as the generated cases.

import (
	"testing"
	"time"

	"github.com/form3tech-oss/f1/v2/internal/trigger/api"
	"github.com/form3tech-oss/f1/v2/internal/trigger/constant"
	"github.com/form3tech-oss/f1/v2/internal/trigger/gaussian"
	"github.com/form3tech-oss/f1/v2/internal/trigger/ramp"
	"github.com/form3tech-oss/f1/v2/internal/trigger/staged"
)

const cfgHead = "scenario: verif_scenario\nlimits:\n  max-duration: 1s\n  concurrency: 5\n  max-iterations: 0\n  ignore-dropped: true\n"

func TestRegress(t *testing.T) {
	var c collector

	// ---- rate strings -------------------------------------------------------
	for _, s := range []string{
		// F4a (shrunk: "0/")
		"0/", "5/", "2147483647/",
		// F4b (shrunk: "0/.5ns")
		"0/.5ns", "1/.5s", "10/.25m", "1/.0s",
		// F4c (shrunk: "0/0ns")
		"0/0ns", "1/0s", "1/0", "5/00ms", "7/0h0m0s", "1/0.0s",
		// must be accepted exactly
		"0", "1", "20", "1/s", "10/1s", "5/100ms", "3/µs", "2/m", "1/h", "007/01s", "9223372036854775807/9223372036854775807ns",
		// must not crash
		"", "/", "/s", "-5/s", "1/-1s", "1//s", "9223372036854775808", "1/9223372036854775808ns", "٣/s", "1/٣s", " 1/s", "1/ s", "\xff",
	} {
		accepted, violation := judgeRate(s)
		recordRate("regress", s, "table", accepted, violation)
		settle(&c, rateKnown(s), violation)
	}

	// ---- stages strings -----------------------------------------------------
	for _, e := range []struct{ s, dist string }{
		// F11 (shrunk: "0s:-1,1s:0"): negative requests; behind the random distribution rand.Intn panics
		{"0s:-1,1s:0", "none"}, {"1s:-5", "none"}, {"1s:-5", "random"}, {"0s:-3,1s:-3", "random"}, {"1s:-5", "regular"},
		{"0s:1, 10s:1", "regular"}, {"0s:1,10s:1,20s:20,1m:50,1h:200", "random"}, {"0s:1:2", "none"}, {"0BB:1", "none"}, {"1s:BB", "none"},
		{"", "none"}, {",", "none"}, {"-1s:5", "random"}, {"1s:9223372036854775807", "random"},
	} {
		seedGlobalRand(7)
		accepted, n, violation := judgeStages(e.s, e.dist)
		recordStages("regress", e.s, e.dist, "table", accepted, n, violation)
		settle(&c, stagesKnown(e.s), violation)
	}

	// ---- builder arguments ----------------------------------------------------
	type calc struct {
		name  string
		known []string
		at    []time.Time
		f     func() (*api.Rates, error)
	}
	tick := sweep(baseTime, 100*time.Millisecond, 12)
	for _, e := range []calc{
		{"constant 1/0s", []string{kRateZeroUnit}, tick, func() (*api.Rates, error) { return constant.CalculateConstantRate(0, "1/0s", "none") }},
		{"constant 5/", []string{kRateEmptyUnit}, tick, func() (*api.Rates, error) { return constant.CalculateConstantRate(0, "5/", "none") }},
		{"constant 10/s jitter 50 random", nil, tick, func() (*api.Rates, error) { return constant.CalculateConstantRate(50, "10/s", "random") }},
		// N1 behind the random distribution: rand.Intn(negative) panics
		{"staged 0s:-3,1s:-3 random", []string{kNegStageTarget}, tick, func() (*api.Rates, error) {
			return staged.CalculateStagedRate(0, time.Second, "0s:-3,1s:-3", "random", nil)
		}},
		// F6a
		{"staged iteration-frequency 0s", []string{kFreqNotPositive}, tick, func() (*api.Rates, error) {
			return staged.CalculateStagedRate(0, 0, "0s:0", "none", nil)
		}},
		{"staged iteration-frequency -1s", []string{kFreqNotPositive}, tick, func() (*api.Rates, error) {
			return staged.CalculateStagedRate(0, -time.Second, "0s:1,10s:1", "regular", nil)
		}},
		{"gaussian iteration-frequency 0s", []string{kFreqNotPositive, kGaussCovered}, tick, func() (*api.Rates, error) {
			return gaussian.CalculateGaussianRate(100, 0, time.Hour, 0, 30*time.Minute, 10*time.Minute, "", "none")
		}},
		// F6b: iteration-frequency == repeat (zero covered mass), > repeat (negative mass), peak outside the window
		{"gaussian iteration-frequency == repeat", []string{kGaussCovered}, tick, func() (*api.Rates, error) {
			return gaussian.CalculateGaussianRate(100, 0, time.Second, time.Second, 500*time.Millisecond, 100*time.Millisecond, "", "none")
		}},
		{"gaussian iteration-frequency > repeat", []string{kGaussCovered}, tick, func() (*api.Rates, error) {
			return gaussian.CalculateGaussianRate(1, 0, time.Millisecond, 10*time.Millisecond, 0, 125*time.Microsecond, "", "none")
		}},
		{"gaussian default peak 14h with repeat 1h", []string{kGaussCovered}, tick, func() (*api.Rates, error) {
			return gaussian.CalculateGaussianRate(86400, 0, time.Hour, time.Second, 14*time.Hour, time.Minute, "", "none")
		}},
		// F6b residue after 8eb0748 (shrunk by hand from seed 6): the mass inside the window is positive but ~1e-198
		{"gaussian peak at the window end, narrow bell", []string{kGaussCovered}, sweep(baseTime.Truncate(10*time.Minute).Add(9*time.Minute+59*time.Second), 100*time.Millisecond, 12), func() (*api.Rates, error) {
			return gaussian.CalculateGaussianRate(1, 0, 10*time.Minute, time.Minute, 10*time.Minute, 2*time.Second, "1.0,1.0", "none")
		}},
		{"gaussian peak 46m outside a 10m window", []string{kGaussCovered}, tick, func() (*api.Rates, error) {
			return gaussian.CalculateGaussianRate(1000, 0, 10*time.Minute, time.Second, 56*time.Minute+15*time.Second, 75*time.Second, "", "none")
		}},
		// N2
		{"gaussian volume -1 random", []string{kGaussNegScale}, sweep(baseTime.Truncate(time.Minute).Add(29*time.Second), 100*time.Millisecond, 30), func() (*api.Rates, error) {
			return gaussian.CalculateGaussianRate(-100000, 0, time.Minute, time.Second, 30*time.Second, 10*time.Second, "", "random")
		}},
		{"gaussian weights 0", []string{kGaussNegScale}, tick, func() (*api.Rates, error) {
			return gaussian.CalculateGaussianRate(100, 0, time.Minute, time.Second, 30*time.Second, 10*time.Second, "0", "none")
		}},
		{"gaussian weights -1,1", []string{kGaussNegScale}, tick, func() (*api.Rates, error) {
			return gaussian.CalculateGaussianRate(100, 0, time.Minute, time.Second, 30*time.Second, 10*time.Second, "-1,1", "none")
		}},
		{"gaussian weights NaN", []string{kGaussNegScale}, tick, func() (*api.Rates, error) {
			return gaussian.CalculateGaussianRate(0, 0, 200*time.Millisecond, 10*time.Millisecond, 0, 25*time.Millisecond, "NaN", "none")
		}},
		{"gaussian defaults", nil, tick, func() (*api.Rates, error) {
			return gaussian.CalculateGaussianRate(86400, 0, 24*time.Hour, time.Second, 14*time.Hour, 150*time.Minute, "", "regular")
		}},
		{"ramp 0/s..10/s over 10s", nil, spread(baseTime, 10*time.Second, 12), func() (*api.Rates, error) {
			return ramp.CalculateRampRate("0/s", "10/s", "none", 10*time.Second, 0)
		}},
		{"ramp 0/0s..1/0s", []string{kRateZeroUnit}, tick, func() (*api.Rates, error) {
			return ramp.CalculateRampRate("0/0s", "1/0s", "none", 0, 0)
		}},
	} {
		seedGlobalRand(7)
		var rates *api.Rates
		var err error
		violation := ""
		if p := try(func() { rates, err = e.f() }); p != "" {
			violation = e.name + ": panicked: " + p
		} else if err == nil {
			violation, _ = runnable(e.name, rates.IterationDuration, rates.Rate, e.at)
		}
		stats.Case("regress", e.name, true, []string{"builder-arguments"}, func() any { return e.name })
		settle(&c, e.known, violation)
	}

	// ---- config files ---------------------------------------------------------
	for _, y := range []string{
		// F5a (shrunk): neither the stage nor the default section has jitter
		cfgHead + "stages:\n- duration: 1s\n  mode: constant\n  rate: 1/s\n  distribution: none\n",
		cfgHead + "default:\n  distribution: none\nstages:\n- duration: 1s\n  mode: ramp\n  start-rate: 0/s\n  end-rate: 10/s\n",
		cfgHead + "stages:\n- duration: 1s\n  mode: staged\n  stages: 0s:1,1s:1\n  iteration-frequency: 100ms\n  distribution: none\n",
		// F5b (shrunk)
		cfgHead + "stages:\n- duration: 1s\n  mode: users\n  concurrency: 0\n",
		cfgHead + "stages:\n- duration: 1s\n  mode: users\n  concurrency: -1\n",
		cfgHead + "default:\n  concurrency: 0\nstages:\n- duration: 1s\n  mode: users\n",
		"scenario: s\nlimits:\n  max-duration: 1s\n  concurrency: 0\n  max-iterations: 0\n  ignore-dropped: true\nstages:\n- duration: 1s\n  mode: users\n",
		"scenario: s\nlimits:\n  max-duration: 1s\n  concurrency: -1\n  max-iterations: 0\n  ignore-dropped: true\nstages:\n- duration: 1s\n  mode: constant\n  rate: 1/s\n  jitter: 0\n  distribution: none\n",
		// F6a in a config
		cfgHead + "stages:\n- duration: 1s\n  mode: staged\n  stages: 0s:1,1s:1\n  iteration-frequency: 0s\n  jitter: 0\n  distribution: none\n",
		// N3: a float that is not finite
		cfgHead + "stages:\n- duration: 1s\n  mode: constant\n  rate: 1/s\n  jitter: .nan\n  distribution: none\n",
		cfgHead + "stages:\n- duration: 1s\n  mode: gaussian\n  volume: .inf\n  repeat: 1m\n  iteration-frequency: 1s\n  peak: 30s\n  weights: \"\"\n  standard-deviation: 10s\n  jitter: 0\n  distribution: none\n",
		// a valid one of each mode
		cfgHead + "stages:\n- duration: 1s\n  mode: constant\n  rate: 1/s\n  jitter: 0\n  distribution: none\n",
		cfgHead + "stages:\n- duration: 1s\n  mode: users\n",
	} {
		seedGlobalRand(7)
		res := judgePlan([]byte(y), 6)
		recordPlan("regress", genConfig{}, y, res, planKnown([]byte(y)), false)
		settle(&c, planKnown([]byte(y)), res.violation)
	}
	c.report(t)
}
