package c14

// Flag sets of the four rate builders (constant, staged, ramp, gaussian).
//
// api.Trigger does not expose its tick interval, so every case is judged on
// the Calculate*Rate function the builder's constructor calls (same arguments,
// mirrored from the flag values exactly as the constructor derives them) AND
// on the constructor itself (builder.Flags -> New): both must not panic, they
// must agree on accept/reject, and an accepted flag set must be runnable.

import (
	"context"
	"fmt"
	"math"
	"strconv"
	"strings"
	"testing"
	"time"

	"pgregory.net/rapid"

	"github.com/form3tech-oss/f1/v2/internal/options"
	"github.com/form3tech-oss/f1/v2/internal/trigger/api"
	"github.com/form3tech-oss/f1/v2/internal/trigger/constant"
	"github.com/form3tech-oss/f1/v2/internal/trigger/gaussian"
	"github.com/form3tech-oss/f1/v2/internal/trigger/ramp"
	"github.com/form3tech-oss/f1/v2/internal/trigger/staged"
	f1testing "github.com/form3tech-oss/f1/v2/pkg/f1/testing"
	"github.com/form3tech-oss/f1/v2/verifharness/vlib"
)

// ---------------------------------------------------------------------------
// value generators shared by the flag and the config generators

// durations in the sane range -1s .. 48h including 0
var (
	goodDurations = []time.Duration{
		time.Millisecond, 10 * time.Millisecond, 50 * time.Millisecond, 100 * time.Millisecond, 101 * time.Millisecond,
		200 * time.Millisecond, 250 * time.Millisecond, 500 * time.Millisecond, time.Second, 2 * time.Second, 10 * time.Second,
		time.Minute, 10 * time.Minute, time.Hour, 150 * time.Minute, 14 * time.Hour, 24 * time.Hour, 48 * time.Hour,
	}
	edgeDurations = []time.Duration{0, -time.Second, -time.Millisecond, -1, 1, time.Microsecond}
)

func genDuration(t *rapid.T, label string, edgePct int) time.Duration {
	k := unif(t, label+"Kind", 100)
	switch {
	case k < edgePct:
		return pick(t, label, edgeDurations)
	case k < edgePct+15:
		return time.Duration(rapid.Int64Range(int64(time.Millisecond), int64(48*time.Hour)).Draw(t, label))
	default:
		return pick(t, label, goodDurations)
	}
}

// rate strings for builder-level cases: sane magnitudes (N <= 10^6), mostly
// canonical, some near-misses (the three classes of F4 among them)
func genBuilderRate(t *rapid.T, label string) string {
	k := unif(t, label+"Kind", 100)
	n := rapid.OneOf(
		rapid.SampledFrom([]int{0, 1, 2, 5, 10, 30, 100, 1000}),
		rapid.IntRange(0, 1_000_000),
	).Draw(t, label+"N")
	u := pick(t, label+"U", []string{"s", "s", "1s", "100ms", "10ms", "50ms", "200ms", "500ms", "1m", "2s", "ms", "m", "h", "250ms", "1ms"})
	switch {
	case k < 70:
		return fmt.Sprintf("%d/%s", n, u)
	case k < 78:
		return strconv.Itoa(n)
	default:
		return pick(t, label+"Odd", []string{
			fmt.Sprintf("%d/", n), fmt.Sprintf("%d/.5s", n), fmt.Sprintf("%d/0s", n), fmt.Sprintf("%d/0", n),
			fmt.Sprintf("-%d/%s", n+1, u), fmt.Sprintf("%d/-1s", n), fmt.Sprintf("%d/1.5s", n), fmt.Sprintf("%d/0.5s", n),
			fmt.Sprintf("%d /%s", n, u), fmt.Sprintf("%d/1", n), "", "/s", "abc", fmt.Sprintf("%d/0ms", n), fmt.Sprintf("%d/.1s", n),
			fmt.Sprintf("%d/1h30m", n), fmt.Sprintf("%d//s", n), fmt.Sprintf("%d/1d", n),
		})
	}
}

// jitter within -50 .. 200 (percent), mostly 0 or 0..100; NaN/Inf are outside the sane range
func genJitter(t *rapid.T) float64 {
	k := unif(t, "jitterKind", 100)
	switch {
	case k < 55:
		return 0
	case k < 90:
		return float64(rapid.IntRange(1, 100).Draw(t, "jitter"))
	case k < 95:
		return rapid.Float64Range(0, 100).Draw(t, "jitterF")
	default:
		return pick(t, "jitterOdd", []float64{-50, -1, 100.5, 150, 200})
	}
}

func genDistribution(t *rapid.T) string {
	if unif(t, "distKind", 10) == 9 {
		return pick(t, "distOdd", []string{"", "Regular", "NONE", "uniform", "none ", "poisson", "random,regular", "0"})
	}
	return pick(t, "dist", []string{"none", "regular", "random"})
}

func fmtFloat(f float64) string { return strconv.FormatFloat(f, 'g', -1, 64) }

// ---------------------------------------------------------------------------
// common judgement of one builder case

type builderCase struct {
	Mode  string
	Flags map[string]string
	// MaxDuration is the common --max-duration flag (ramp reads it when ramp-duration is 0)
	MaxDuration time.Duration
	Seed        int64
	Calls       int
	Run         bool // candidate for an actual 60 ms run
}

func (c builderCase) key() string {
	keys := make([]string, 0, len(c.Flags))
	for k := range c.Flags {
		keys = append(keys, k)
	}
	sortStrings(keys)
	var b strings.Builder
	b.WriteString(c.Mode)
	for _, k := range keys {
		fmt.Fprintf(&b, " --%s=%q", k, c.Flags[k])
	}
	if c.Mode == "ramp" {
		fmt.Fprintf(&b, " --max-duration=%s", c.MaxDuration)
	}
	return b.String()
}

func sortStrings(s []string) {
	for i := 1; i < len(s); i++ {
		for j := i; j > 0 && s[j] < s[j-1]; j-- {
			s[j], s[j-1] = s[j-1], s[j]
		}
	}
}

type builderResult struct {
	accepted  bool
	violation string
	infra     string
	maxValue  int
	ran       bool
}

// judgeBuilder: calc mirrors the constructor's call of Calculate*Rate; at
// returns the instants at which the rate function is asked.
func judgeBuilder(c builderCase, calc func() (*api.Rates, error), at func() []time.Time, dist string) (res builderResult) {
	what := c.key()
	seedGlobalRand(c.Seed)
	var rates *api.Rates
	var cerr error
	if p := try(func() { rates, cerr = calc() }); p != "" {
		res.violation = fmt.Sprintf("%s: Calculate*Rate panicked: %s", what, p)
		return res
	}
	spec := &vlib.RunSpec{Mode: c.Mode, Flags: c.Flags}
	spec.Opts.MaxDuration = c.MaxDuration
	var trig *api.Trigger
	var berr error
	if p := try(func() { trig, berr = vlib.BuildTrigger(spec) }); p != "" {
		res.violation = fmt.Sprintf("%s: the builder's constructor panicked: %s", what, p)
		return res
	}
	if berr != nil && strings.HasPrefix(berr.Error(), "flag ") {
		res.infra = fmt.Sprintf("%s: the harness produced a flag value pflag cannot parse: %v", what, berr)
		return res
	}
	if (cerr == nil) != (berr == nil) {
		res.infra = fmt.Sprintf("%s: the harness' mirror of the constructor disagrees with it: Calculate*Rate err=%v, constructor err=%v", what, cerr, berr)
		return res
	}
	if cerr != nil {
		return res
	}
	res.accepted = true
	if !documentedDistributions[dist] {
		res.violation = fmt.Sprintf("%s: accepted although %q is not one of the documented distributions none|regular|random", what, dist)
		return res
	}
	instants := at()
	res.violation, res.maxValue = runnable(what, rates.IterationDuration, rates.Rate, instants)
	if res.violation != "" {
		return res
	}
	if trig == nil || trig.Trigger == nil || trig.DryRun == nil {
		res.violation = fmt.Sprintf("%s: the constructor returned no error but an incomplete trigger", what)
		return res
	}
	// the trigger's own (fresh) rate function, as `chart` and the run use it
	v, m := runnable(what+" [trigger.DryRun]", rates.IterationDuration, trig.DryRun, instants)
	if m > res.maxValue {
		res.maxValue = m
	}
	if v != "" {
		res.violation = v
		return res
	}
	if c.Run && res.maxValue <= 5000 && rates.IterationDuration >= 100*time.Microsecond {
		// a third, fresh trigger is started for real
		res.ran = true
		res.violation = startForReal(what, spec)
	}
	return res
}

// startForReal runs a freshly built trigger for ~60 ms through run.Run.Do.
// Only "it returns without panicking" is demanded.
func startForReal(what string, spec *vlib.RunSpec) string {
	fresh := &vlib.RunSpec{Mode: spec.Mode, Flags: spec.Flags, FileYAML: spec.FileYAML, FileDir: spec.FileDir}
	fresh.Opts = options.RunOptions{Concurrency: 2, MaxDuration: 60 * time.Millisecond, IgnoreDropped: true}
	if spec.Mode == "ramp" {
		fresh.Opts.MaxDuration = spec.Opts.MaxDuration
	}
	ctx, cancel := context.WithTimeout(context.Background(), 60*time.Millisecond)
	defer cancel()
	fresh.Ctx = ctx
	fresh.WaitTimeout = 5 * time.Second
	fresh.ScenarioFn = func(*f1testing.T) f1testing.RunFn { return func(*f1testing.T) {} }
	var err error
	if p := try(func() { _, err = vlib.Execute(fresh) }); p != "" {
		return fmt.Sprintf("%s: accepted, but starting the trigger panicked: %s", what, p)
	}
	if err != nil {
		return fmt.Sprintf("%s: accepted by the static checks, but the run could not be performed: %v", what, err)
	}
	return ""
}

func recordBuilder(section string, c builderCase, res builderResult, extra []string, known []string) {
	cls := append([]string{}, extra...)
	switch {
	case res.violation != "":
		cls = append(cls, "violates")
	case res.accepted:
		cls = append(cls, "accepted")
	default:
		cls = append(cls, "rejected")
	}
	if res.ran {
		cls = append(cls, "started-for-real")
	}
	if len(known) > 0 {
		cls = append(cls, "in-known-finding-class")
	}
	// non-trivial: accepted, or rejected with at most one questionable value
	nontrivial := res.accepted || has(extra, "one-questionable-value")
	stats.Case(section, c.key(), nontrivial, cls, func() any {
		return map[string]any{"flags": c.key(), "accepted": res.accepted, "violation": res.violation, "max_rate_seen": res.maxValue}
	})
}

func runSample(t *rapid.T) bool {
	return unif(t, "startForReal", vlib.ByTier(64, 16)) == 1
}

// questionable counts how many of the drawn values lie outside the plainly valid pool.
type questionable struct{ n int }

func (q *questionable) add(cond bool) {
	if cond {
		q.n++
	}
}

func (q *questionable) classes() []string {
	switch q.n {
	case 0:
		return []string{"all-values-plain"}
	case 1:
		return []string{"one-questionable-value"}
	default:
		return []string{"several-questionable-values"}
	}
}

func rateIsPlain(s string) bool { ok, _, _ := refCanonical(s); return ok }

// ---------------------------------------------------------------------------
// constant

func TestProp_ConstantFlags(t *testing.T) {
	rapid.Check(t, func(rt *rapid.T) {
		rateArg := genBuilderRate(rt, "rate")
		jitter := genJitter(rt)
		dist := genDistribution(rt)
		c := builderCase{Mode: "constant", Seed: rapid.Int64().Draw(rt, "randSeed"), Calls: 5 + rapid.IntRange(0, 25).Draw(rt, "extraCalls"), Run: runSample(rt),
			Flags: map[string]string{"rate": rateArg, "jitter": fmtFloat(jitter), "distribution": dist}}
		res := judgeBuilder(c,
			func() (*api.Rates, error) { return constant.CalculateConstantRate(jitter, rateArg, dist) },
			func() []time.Time { return sweep(baseTime, 100*time.Millisecond, c.Calls) }, dist)
		var q questionable
		q.add(!rateIsPlain(rateArg))
		q.add(jitter < 0 || jitter > 100)
		q.add(!documentedDistributions[dist])
		known := rateKnown(rateArg)
		recordBuilder("constant", c, res, append(q.classes(), "dist-"+distClass(dist)), known)
		if res.infra != "" {
			rt.Fatalf("VERIF-INFRA: %s", res.infra)
		}
		settle(rt, known, res.violation)
	})
}

func distClass(d string) string {
	if documentedDistributions[d] {
		return d
	}
	return "undocumented"
}

// ---------------------------------------------------------------------------
// staged

const stagedStartLayout = "2006-01-02T15:04:05+07:00" // as in staged_rate.go

func genBuilderStages(t *rapid.T) string {
	n := rapid.IntRange(1, 4).Draw(t, "nStages")
	odd := -1
	if unif(t, "oddStages", 10) >= 8 {
		odd = unif(t, "oddAt", n)
	}
	var parts []string
	for i := 0; i < n; i++ {
		d := pick(t, "dur", []string{"0s", "100ms", "300ms", "1s", "10s", "1m", "1h"})
		g := strconv.Itoa(rapid.OneOf(rapid.SampledFrom([]int{0, 1, 10, 30, 100}), rapid.IntRange(0, 100000)).Draw(t, "target"))
		if i == odd {
			switch unif(t, "oddKind", 4) {
			case 0:
				g = pick(t, "negTarget", []string{"-1", "-5", "-100", "-30"})
			case 1:
				d = pick(t, "oddDur", []string{"-1s", "1", "", "1d"})
			case 2:
				g = pick(t, "oddTarget", []string{"", "abc", "1.5"})
			default:
				parts = append(parts, d+g)
				continue
			}
		}
		parts = append(parts, d+":"+g)
	}
	return strings.Join(parts, pick(t, "joiner", []string{",", ",", ", "}))
}

func stagesArePlain(s string) bool {
	st, err := staged.ParseStages(s)
	if err != nil {
		return false
	}
	for _, x := range st {
		if x.Duration < 0 || x.EndTarget < 0 {
			return false
		}
	}
	return true
}

func stagesTotal(s string) time.Duration {
	st, err := staged.ParseStages(s)
	if err != nil {
		return 0
	}
	var d time.Duration
	for _, x := range st {
		d += x.Duration
	}
	return d
}

func TestProp_StagedFlags(t *testing.T) {
	rapid.Check(t, func(rt *rapid.T) {
		stg := genBuilderStages(rt)
		freq := genDuration(rt, "frequency", 12)
		jitter := genJitter(rt)
		dist := genDistribution(rt)
		startStr := pick(rt, "startTime", []string{"", "", "", "2024-03-10T09:00:00+07:00", "2024-03-10T08:59:30+07:00", "garbage", "2024-03-10T09:00:00Z"})
		c := builderCase{Mode: "staged", Seed: rapid.Int64().Draw(rt, "randSeed"), Calls: 5 + rapid.IntRange(0, 25).Draw(rt, "extraCalls"), Run: runSample(rt),
			Flags: map[string]string{"stages": stg, "iterationFrequency": freq.String(), "jitter": fmtFloat(jitter), "distribution": dist, "startTime": startStr}}
		var startTime *time.Time
		if ts, err := time.Parse(stagedStartLayout, startStr); err == nil {
			startTime = &ts
		}
		res := judgeBuilder(c,
			func() (*api.Rates, error) { return staged.CalculateStagedRate(jitter, freq, stg, dist, startTime) },
			func() []time.Time {
				// cover the whole profile: the distribution wrapper evaluates the
				// profile once per tick (every tick/100ms calls), so step by the
				// sub-tick and make enough calls to see several ticks
				total := stagesTotal(stg)
				n := c.Calls
				step := freq
				if dist != "none" && freq > 100*time.Millisecond {
					step = 100 * time.Millisecond
				}
				if total > 0 && step > 0 && time.Duration(n)*step < total {
					step = total / time.Duration(n-1)
				}
				return sweep(baseTime, step, n)
			}, dist)
		var q questionable
		q.add(!stagesArePlain(stg))
		q.add(freq <= 0)
		q.add(jitter < 0 || jitter > 100)
		q.add(!documentedDistributions[dist])
		known := stagesKnown(stg)
		if freq <= 0 {
			known = append(known, kFreqNotPositive)
		}
		extra := append(q.classes(), "dist-"+distClass(dist))
		if freq <= 0 {
			extra = append(extra, "frequency-not-positive")
		}
		recordBuilder("staged", c, res, extra, known)
		if res.infra != "" {
			rt.Fatalf("VERIF-INFRA: %s", res.infra)
		}
		settle(rt, known, res.violation)
	})
}

// ---------------------------------------------------------------------------
// ramp

func TestProp_RampFlags(t *testing.T) {
	rapid.Check(t, func(rt *rapid.T) {
		startRate := genBuilderRate(rt, "startRate")
		endRate := genBuilderRate(rt, "endRate")
		// most ramps share the unit, as the builder demands
		if unif(rt, "shareUnit", 10) < 9 {
			if i := strings.Index(startRate, "/"); i >= 0 {
				if j := strings.Index(endRate, "/"); j >= 0 {
					endRate = endRate[:j] + startRate[i:]
				}
			}
		}
		rampDur := genDuration(rt, "rampDuration", 15)
		if ok, _, unit := refCanonical(startRate); ok && rampDur > 0 && rampDur < unit && unif(rt, "longEnough", 10) < 8 {
			rampDur = unit * time.Duration(1+unif(rt, "rampUnits", 6))
		}
		maxDur := genDuration(rt, "maxDuration", 10)
		jitter := genJitter(rt)
		dist := genDistribution(rt)
		c := builderCase{Mode: "ramp", MaxDuration: maxDur, Seed: rapid.Int64().Draw(rt, "randSeed"), Calls: 5 + rapid.IntRange(0, 25).Draw(rt, "extraCalls"), Run: runSample(rt),
			Flags: map[string]string{"start-rate": startRate, "end-rate": endRate, "ramp-duration": rampDur.String(), "jitter": fmtFloat(jitter), "distribution": dist}}
		effective := rampDur
		if effective == 0 {
			effective = maxDur // as the constructor does
		}
		res := judgeBuilder(c,
			func() (*api.Rates, error) { return ramp.CalculateRampRate(startRate, endRate, dist, effective, jitter) },
			func() []time.Time { return spread(baseTime, effective, c.Calls) }, dist)
		var q questionable
		q.add(!rateIsPlain(startRate))
		q.add(!rateIsPlain(endRate))
		q.add(effective <= 0)
		q.add(jitter < 0 || jitter > 100)
		q.add(!documentedDistributions[dist])
		known := append(rateKnown(startRate), rateKnown(endRate)...)
		recordBuilder("ramp", c, res, append(q.classes(), "dist-"+distClass(dist)), known)
		if res.infra != "" {
			rt.Fatalf("VERIF-INFRA: %s", res.infra)
		}
		settle(rt, known, res.violation)
	})
}

// ---------------------------------------------------------------------------
// gaussian

// gaussCovered is the probability mass of N(peak, stddev) inside
// [0, repeat-frequency], the quantity the calculator divides by.
func gaussCovered(repeat, freq, peak, stddev time.Duration) float64 {
	cdf := func(x float64) float64 {
		return 0.5 * math.Erfc(-(x-float64(peak))/(float64(stddev)*math.Sqrt2))
	}
	return cdf(float64(repeat-freq)) - cdf(0)
}

func parseWeights(w string) (vals []float64, ok bool) {
	for _, s := range strings.Split(w, ",") {
		if s == "" {
			continue
		}
		f, err := strconv.ParseFloat(s, 64)
		if err != nil {
			return nil, false
		}
		vals = append(vals, f)
	}
	return vals, true
}

// gaussianKnown: exact input classes of the open findings for one gaussian parameter set.
func gaussianKnown(volume float64, repeat, freq, peak, stddev time.Duration, weights string) []string {
	var known []string
	if freq <= 0 {
		known = append(known, kFreqNotPositive)
	}
	if stddev > 0 && freq > 0 {
		// no probability mass inside the window, or so little of it (or so narrow a
		// bell) that the request of the tick at the peak does not fit in an int
		cov := gaussCovered(repeat, freq, peak, stddev)
		wfac := 1.0
		if ws, ok := parseWeights(weights); ok && len(ws) > 0 {
			sum, max := 0.0, 0.0
			for _, w := range ws {
				sum += w
				max = math.Max(max, w)
			}
			if sum > 0 {
				wfac = max / (sum / float64(len(ws)))
			}
		}
		peakRequest := volume * float64(freq) / cov / (float64(stddev) * math.Sqrt(2*math.Pi)) * wfac
		if !(cov > 0) || !(peakRequest < 1e18) { // 1e18: jitter (<= 200%) may still triple it
			known = append(known, kGaussCovered)
		}
	}
	if volume < 0 {
		known = append(known, kGaussNegScale)
	}
	if ws, ok := parseWeights(weights); ok && len(ws) > 0 {
		sum, neg := 0.0, false
		for _, w := range ws {
			sum += w
			neg = neg || w < 0 || math.IsNaN(w) || math.IsInf(w, 0)
		}
		if neg || sum == 0 {
			known = append(known, kGaussNegScale)
		}
	}
	return known
}

var (
	goodWeights = []string{"", "", "", "1", "1,1", "1.0,1.0", "1,2,3", "0.5,1.5", "1,1,1,1,1,0.5,0.5", "0,1", "2,0,1"}
	oddWeights  = []string{"0", "0,0", "-1,1", "-1", "1,-0.5", "abc", "1,,2", " 1", "1;2", "1e3,1", "NaN", "1,Inf"}
)

type gaussParams struct {
	Volume                     float64
	Repeat, Freq, Peak, Stddev time.Duration
	Weights                    string
	PeakRate                   string
}

func genGaussParams(t *rapid.T, allowPeakRate bool) (p gaussParams, q questionable) {
	windows := []time.Duration{200 * time.Millisecond, time.Second, 10 * time.Second, time.Minute, 10 * time.Minute, time.Hour, 24 * time.Hour, 48 * time.Hour}
	freqs := []time.Duration{10 * time.Millisecond, 100 * time.Millisecond, 200 * time.Millisecond, time.Second, 10 * time.Second, time.Minute, time.Hour}
	switch k := unif(t, "repeatKind", 100); {
	case k < 80:
		p.Repeat = pick(t, "repeat", windows)
	case k < 90:
		p.Repeat = genDuration(t, "repeatAny", 0)
	default:
		p.Repeat = pick(t, "repeatEdge", edgeDurations)
	}
	switch k := unif(t, "freqKind", 100); {
	case k < 75:
		p.Freq = pick(t, "freq", freqs)
	case k < 80:
		p.Freq = p.Repeat // a single tick per window
	case k < 90:
		p.Freq = genDuration(t, "freqAny", 0)
	default:
		p.Freq = pick(t, "freqEdge", edgeDurations)
	}
	switch k := unif(t, "peakKind", 100); {
	case k < 70 && p.Repeat > 0:
		p.Peak = time.Duration(rapid.Int64Range(0, int64(p.Repeat)).Draw(t, "peakInside"))
	case k < 85:
		p.Peak = genDuration(t, "peakAny", 10)
	default:
		p.Peak = pick(t, "peakFixed", []time.Duration{14 * time.Hour, 0, -time.Second, 48 * time.Hour})
	}
	switch k := unif(t, "stddevKind", 100); {
	case k < 60 && p.Repeat > 8:
		p.Stddev = time.Duration(rapid.Int64Range(int64(p.Repeat/8), int64(p.Repeat)).Draw(t, "stddevWide"))
	case k < 85:
		p.Stddev = genDuration(t, "stddevAny", 8)
	default:
		p.Stddev = pick(t, "stddevFixed", []time.Duration{150 * time.Minute, time.Minute, time.Millisecond, 0, -time.Second})
	}
	// two corners the independent draws above rarely reach: a peak that lies
	// z standard deviations outside the window (almost no mass inside it), and a
	// bell much narrower than a tick centred exactly on a tick
	switch k := unif(t, "corner", 100); {
	case k < 10 && p.Repeat > 0 && p.Stddev > 0 && p.Stddev < time.Hour:
		z := 3 + unif(t, "sigmasOutside", 43)
		if unif(t, "before", 2) == 0 {
			p.Peak = p.Repeat + time.Duration(z)*p.Stddev
		} else {
			p.Peak = -time.Duration(z) * p.Stddev
		}
	case k < 16 && p.Repeat > 0 && p.Freq > 0 && p.Freq < p.Repeat:
		p.Stddev = pick(t, "narrow", []time.Duration{1, 10, 100, time.Microsecond, time.Millisecond})
		p.Peak = p.Freq * time.Duration(unif(t, "peakTick", int(p.Repeat/p.Freq)))
	}
	switch k := unif(t, "volumeKind", 100); {
	case k < 60:
		p.Volume = float64(pick(t, "volume", []int{0, 1, 10, 100, 1000, 86400, 100000, 1000000}))
	case k < 92:
		p.Volume = rapid.Float64Range(0, 1e7).Draw(t, "volumeF")
	case k < 96:
		p.Volume = 1e9
	default:
		p.Volume = pick(t, "volumeNeg", []float64{-1, -100, -0.5})
	}
	if unif(t, "weightsKind", 10) < 8 {
		p.Weights = pick(t, "weights", goodWeights)
	} else {
		p.Weights = pick(t, "weightsOdd", oddWeights)
	}
	if allowPeakRate && unif(t, "withPeakRate", 10) == 0 {
		p.PeakRate = genBuilderRate(t, "peakRate")
	}
	q.add(p.Repeat <= 0)
	q.add(p.Freq <= 0 || p.Freq >= p.Repeat)
	q.add(p.Peak < 0 || p.Peak > p.Repeat)
	q.add(p.Stddev <= 0)
	q.add(p.Volume < 0)
	q.add(!has(goodWeights, p.Weights))
	q.add(p.PeakRate != "" && !rateIsPlain(p.PeakRate))
	return p, q
}

// gaussInstants asks around the peak of the window containing baseTime.
func gaussInstants(p gaussParams, n int) []time.Time {
	start := baseTime
	if p.Repeat > 0 {
		start = baseTime.Truncate(p.Repeat)
	}
	step := p.Freq
	if step <= 0 {
		step = time.Second
	}
	if step > 100*time.Millisecond && n > 10 {
		// behind a distribution wrapper the profile is evaluated every step/100ms calls
		step = 100 * time.Millisecond
	}
	first := start
	if p.Peak > 0 && p.Peak < 1000*time.Hour {
		first = start.Add(p.Peak - time.Duration(n/2)*step)
		if first.Before(start) {
			first = start
		}
	}
	return sweep(first, step, n)
}

func TestProp_GaussianFlags(t *testing.T) {
	rapid.Check(t, func(rt *rapid.T) {
		p, q := genGaussParams(rt, true)
		jitter := genJitter(rt)
		dist := genDistribution(rt)
		c := builderCase{Mode: "gaussian", Seed: rapid.Int64().Draw(rt, "randSeed"), Calls: 5 + rapid.IntRange(0, 25).Draw(rt, "extraCalls"),
			Run: runSample(rt) && p.Volume <= 100000,
			Flags: map[string]string{"volume": fmtFloat(p.Volume), "repeat": p.Repeat.String(), "iteration-frequency": p.Freq.String(),
				"weights": p.Weights, "peak": p.Peak.String(), "standard-deviation": p.Stddev.String(),
				"jitter": fmtFloat(jitter), "distribution": dist}}
		if p.PeakRate != "" {
			c.Flags["peak-rate"] = p.PeakRate
			c.Run = false
		}
		volume := p.Volume
		res := judgeBuilder(c,
			func() (*api.Rates, error) {
				if p.PeakRate != "" { // as the constructor does
					v, err := gaussian.CalculateVolume(p.PeakRate, p.Peak, p.Stddev)
					if err != nil {
						return nil, err
					}
					volume = v
				}
				return gaussian.CalculateGaussianRate(volume, jitter, p.Repeat, p.Freq, p.Peak, p.Stddev, p.Weights, dist)
			},
			func() []time.Time { return gaussInstants(p, c.Calls) }, dist)
		q.add(jitter < 0 || jitter > 100)
		q.add(!documentedDistributions[dist])
		known := gaussianKnown(volume, p.Repeat, p.Freq, p.Peak, p.Stddev, p.Weights)
		known = append(known, rateKnown(p.PeakRate)...)
		extra := append(q.classes(), "dist-"+distClass(dist))
		if p.Freq == p.Repeat {
			extra = append(extra, "frequency-equals-repeat")
		}
		if p.Freq <= 0 {
			extra = append(extra, "frequency-not-positive")
		}
		if p.PeakRate != "" {
			extra = append(extra, "with-peak-rate")
		}
		if p.Weights != "" {
			extra = append(extra, "with-weights")
		}
		recordBuilder("gaussian", c, res, extra, known)
		if res.infra != "" {
			rt.Fatalf("VERIF-INFRA: %s", res.infra)
		}
		settle(rt, known, res.violation)
	})
}
