package c14

// YAML config files: file.ParseConfigFile and the file builder's constructor.

import (
	"fmt"
	"math"
	"os"
	"path/filepath"
	"sort"
	"strings"
	"testing"
	"time"

	"gopkg.in/yaml.v3"
	"pgregory.net/rapid"

	"github.com/form3tech-oss/f1/v2/internal/trigger/api"
	"github.com/form3tech-oss/f1/v2/internal/trigger/file"
	"github.com/form3tech-oss/f1/v2/verifharness/vlib"
)

// ---------------------------------------------------------------------------
// oracle on a parsed plan

// configNow is the `now` handed to ParseConfigFile (only used to skip stages
// of a plan with schedule.stage-start).
var configNow = baseTime

// planKnown derives, from the document alone (decoded into the parser's own
// ConfigFile struct), the input classes of the open findings it belongs to.
func planKnown(doc []byte) []string {
	var cf file.ConfigFile
	if err := yaml.Unmarshal(doc, &cf); err != nil {
		return nil
	}
	set := map[string]bool{}
	if cf.Limits.Concurrency != nil && *cf.Limits.Concurrency <= 0 {
		set[kCfgConcurrency] = true
	}
	if cf.Default.Concurrency != nil && *cf.Default.Concurrency <= 0 {
		set[kCfgConcurrency] = true
	}
	str := func(a, b *string) string {
		if a != nil {
			return *a
		}
		if b != nil {
			return *b
		}
		return ""
	}
	dur := func(a, b *time.Duration) (time.Duration, bool) {
		if a != nil {
			return *a, true
		}
		if b != nil {
			return *b, true
		}
		return 0, false
	}
	for _, st := range cf.Stages {
		mode := str(st.Mode, cf.Default.Mode)
		if st.Concurrency != nil && *st.Concurrency <= 0 {
			set[kCfgConcurrency] = true
		}
		if mode != "users" && mode != "" && st.Jitter == nil && cf.Default.Jitter == nil {
			set[kCfgJitter] = true
		}
		if mode != "users" && (notFinite(st.Jitter) || (st.Jitter == nil && notFinite(cf.Default.Jitter))) {
			set[kNonFinite] = true
		}
		for _, r := range []string{str(st.Rate, cf.Default.Rate), str(st.StartRate, cf.Default.StartRate), str(st.EndRate, cf.Default.EndRate)} {
			for _, k := range rateKnown(r) {
				set[k] = true
			}
		}
		if mode == "staged" || mode == "gaussian" {
			if f, ok := dur(st.IterationFrequency, cf.Default.IterationFrequency); ok && f <= 0 {
				set[kFreqNotPositive] = true
			}
		}
		if mode == "staged" {
			for _, k := range stagesKnown(str(st.Stages, cf.Default.Stages)) {
				set[k] = true
			}
		}
		if mode == "gaussian" {
			rep, _ := dur(st.Repeat, cf.Default.Repeat)
			fr, _ := dur(st.IterationFrequency, cf.Default.IterationFrequency)
			pk, _ := dur(st.Peak, cf.Default.Peak)
			sd, _ := dur(st.StandardDeviation, cf.Default.StandardDeviation)
			vol := 0.0
			if st.Volume != nil {
				vol = *st.Volume
			} else if cf.Default.Volume != nil {
				vol = *cf.Default.Volume
			}
			if math.IsNaN(vol) || math.IsInf(vol, 0) {
				set[kNonFinite] = true
				vol = 0
			}
			for _, k := range gaussianKnown(vol, rep, fr, pk, sd, str(st.Weights, cf.Default.Weights)) {
				set[k] = true
			}
		}
	}
	out := make([]string, 0, len(set))
	for k := range set {
		out = append(out, k)
	}
	sort.Strings(out)
	return out
}

func notFinite(p *float64) bool { return p != nil && (math.IsNaN(*p) || math.IsInf(*p, 0)) }

type planResult struct {
	accepted   bool
	violation  string
	stages     int
	usersStage bool
	maxValue   int
}

// judgePlan is the oracle for one config document (any bytes).
func judgePlan(doc []byte, calls int) (res planResult) {
	what := fmt.Sprintf("config %q", clip(string(doc), 600))
	var plan *file.RunnableStages
	var err error
	if p := try(func() { plan, err = file.ParseConfigFile(doc, configNow) }); p != "" {
		res.violation = fmt.Sprintf("%s: ParseConfigFile panicked: %s", what, p)
		return res
	}
	if err != nil {
		return res
	}
	res.accepted = true
	if plan == nil {
		res.violation = what + ": ParseConfigFile returned neither a plan nor an error"
		return res
	}
	if plan.Concurrency < 1 {
		res.violation = fmt.Sprintf("%s: accepted with limits.concurrency %d (no worker can be started)", what, plan.Concurrency)
		return res
	}
	res.stages = len(plan.Stages)
	for i, st := range plan.Stages {
		switch {
		case st.UsersConcurrency >= 1:
			res.usersStage = true
		case st.UsersConcurrency < 0:
			res.violation = fmt.Sprintf("%s: accepted with users concurrency %d at stage %d (the pool cannot be allocated)", what, st.UsersConcurrency, i)
			return res
		default:
			// UsersConcurrency == 0: the stage runs as a rate stage
			if st.Rate == nil {
				res.violation = fmt.Sprintf("%s: accepted, but stage %d has neither users (concurrency 0) nor a rate function: running it dereferences nil", what, i)
				return res
			}
			step := st.IterationDuration
			total := st.StageDuration
			at := sweep(baseTime, step, calls)
			if total > 0 && step > 0 && time.Duration(calls)*step < total {
				at = spread(baseTime, total, calls)
			}
			v, m := runnable(fmt.Sprintf("%s stage %d", what, i), st.IterationDuration, st.Rate, at)
			if m > res.maxValue {
				res.maxValue = m
			}
			if v != "" {
				res.violation = v
				return res
			}
		}
	}
	return res
}

// judgeFileBuilder drives the file builder's constructor on a temp file: it
// must not panic, must agree with ParseConfigFile on accept/reject (the plan
// has no schedule in these cases), and its DryRun must be callable.
func judgeFileBuilder(dir string, doc []byte, parseAccepted bool, calls int) (violation, infra string) {
	what := fmt.Sprintf("config %q", clip(string(doc), 600))
	path := filepath.Join(dir, "plan.yaml")
	if err := os.WriteFile(path, doc, 0o600); err != nil {
		return "", fmt.Sprintf("cannot write %s: %v", path, err)
	}
	defer os.Remove(path)
	b := file.Rate(discardOutput())
	var trig *api.Trigger
	var err error
	if p := try(func() {
		if e := b.Flags.Parse([]string{path}); e != nil {
			err = e
			return
		}
		trig, err = b.New(b.Flags)
	}); p != "" {
		return fmt.Sprintf("%s: the file builder's constructor panicked: %s", what, p), ""
	}
	if (err == nil) != parseAccepted {
		return "", fmt.Sprintf("%s: ParseConfigFile accepted=%v but the constructor returned err=%v", what, parseAccepted, err)
	}
	if err != nil {
		return "", ""
	}
	if trig == nil || trig.Trigger == nil || trig.DryRun == nil {
		return what + ": the constructor returned no error but an incomplete trigger", ""
	}
	if trig.Options.Concurrency < 1 {
		return fmt.Sprintf("%s: the trigger carries concurrency %d", what, trig.Options.Concurrency), ""
	}
	v, _ := runnable(what+" [trigger.DryRun]", time.Second, trig.DryRun, sweep(baseTime, 50*time.Millisecond, calls))
	return v, ""
}

// ---------------------------------------------------------------------------
// generator: a config built field by field

type fieldState int

const (
	fsAbsent  fieldState = iota // nowhere
	fsStage                     // good value on the stage
	fsDefault                   // good value in the default section only
	fsBoth                      // good value on both
	fsEdge                      // parses, but questionable (0, negative, near-miss string), on the stage
	fsBad                       // wrong type / unparsable, on the stage
)

// fieldPools gives, per field, plainly valid values, questionable values and invalid ones.
type fieldPool struct {
	good, edge, bad []any
}

var durGood = []any{"20ms", "100ms", "200ms", "300ms", "500ms", "1s", "2s", "10s", "1m", "1h", "24h"}

func rateGoodPool() []any {
	return []any{"1/s", "10/s", "6/s", "5/100ms", "10/100ms", "0/s", "30/100ms", "100/1s", "3/10ms", "1000/s", "7/200ms", "2/m", "50/500ms", "20"}
}

var rateEdgePool = []any{"5/", "1/.5s", "1/0s", "7/0", "-5/s", "1/-1s", "5 /s", "1/1.5s", "", "/s", "abc", "1//s", "3/0ms", "10/0.5s", "9223372036854775808/s"}

var pools = map[string]fieldPool{
	"duration":            {good: durGood, edge: []any{"0s", "-1s", "1ms", "19ms", "48h"}, bad: []any{"abc", 5, "", []any{"1s"}, "1"}},
	"mode":                {good: nil, edge: nil, bad: []any{"Constant", "unknown", "", 5, "constant ", []any{"users"}}},
	"rate":                {good: rateGoodPool(), edge: rateEdgePool, bad: []any{[]any{"1/s"}, map[string]any{"n": 1}}},
	"start-rate":          {good: []any{"0/100ms", "0/s", "1/s", "10/s", "5/100ms", "100/s"}, edge: rateEdgePool, bad: []any{[]any{"1/s"}}},
	"end-rate":            {good: []any{"30/100ms", "10/s", "20/s", "0/s", "1/100ms", "50/s"}, edge: rateEdgePool, bad: []any{[]any{"1/s"}}},
	"distribution":        {good: []any{"none", "regular", "random"}, edge: []any{"Regular", "uniform", "", "none "}, bad: []any{5, []any{"none"}}},
	"weights":             {good: []any{"", "1", "1,1", "1.0,1.0", "1,2,3", "0.5,1.5", "0,1"}, edge: []any{"0", "0,0", "-1,1", "-1", "abc", "1,,2", " 1", "NaN"}, bad: []any{[]any{1, 1}}},
	"stages":              {good: []any{"0s:0,300ms:30", "0s:1,10s:1", "1s:10", "100ms:5,200ms:0", "0s:1, 10s:1", "0s:0,1s:100,1s:100,1s:0"}, edge: []any{"1s:-5", "0s:-1,1s:0", "1s", "abc", "", "1s:1:1", "-1s:5", "1s:1.5", "1s:1,"}, bad: []any{[]any{"1s:1"}}},
	"concurrency":         {good: []any{1, 2, 5, 10, 50, 100}, edge: []any{0, -1, -100}, bad: []any{"abc", 1.5, []any{1}, "", "9223372036854775808"}},
	"jitter":              {good: []any{0, 0, 0, 10, 20, 50, 100, 0.5}, edge: []any{-10, 150, 200, math.NaN(), math.Inf(1)}, bad: []any{"abc", []any{0}, ""}},
	"volume":              {good: []any{0, 1, 100, 1000, 86400, 1e6, 2.5}, edge: []any{-1, -100, math.Inf(1), math.NaN()}, bad: []any{"abc", []any{1}, ""}},
	"iteration-frequency": {good: []any{"10ms", "100ms", "200ms", "1s", "10s", "1m", "1h"}, edge: []any{"0s", "-1s", "1ns"}, bad: []any{"abc", 5, ""}},
	"repeat":              {good: []any{"200ms", "1s", "10s", "1m", "10m", "1h", "24h"}, edge: []any{"0s", "-1s", "10ms", "100ms"}, bad: []any{"abc", 5, ""}},
	"peak":                {good: []any{"0s", "100ms", "500ms", "5s", "30s", "5m", "30m", "14h"}, edge: []any{"-1s", "48h"}, bad: []any{"abc", 5, ""}},
	"standard-deviation":  {good: []any{"50ms", "1s", "10s", "1m", "10m", "150m"}, edge: []any{"0s", "-1s", "1ns"}, bad: []any{"abc", 5, ""}},
	"parameters":          {good: []any{map[string]any{"FOO": "bar"}, map[string]any{}, map[string]any{"FOO": 1, "BAR": 2}, map[string]any{"C14_A": "x y", "C14_B": ""}}, edge: []any{nil, map[string]any{"": "x"}, map[string]any{"A=B": "x"}}, bad: []any{"abc", []any{"FOO"}, 5, map[string]any{"FOO": []any{1}}}},
}

var modeFields = map[string][]string{
	"constant": {"rate", "distribution", "jitter", "parameters"},
	"ramp":     {"start-rate", "end-rate", "distribution", "jitter", "parameters"},
	"staged":   {"stages", "iteration-frequency", "distribution", "jitter", "parameters"},
	"gaussian": {"volume", "repeat", "iteration-frequency", "peak", "weights", "standard-deviation", "distribution", "jitter", "parameters"},
	"users":    {"concurrency", "parameters"},
}

var allStageFields = []string{"rate", "start-rate", "end-rate", "distribution", "weights", "stages", "concurrency", "jitter", "volume",
	"iteration-frequency", "repeat", "peak", "standard-deviation", "parameters"}

var allModes = []string{"constant", "ramp", "staged", "gaussian", "users"}

type genConfig struct {
	Doc       map[string]any
	YAML      []byte
	Modes     []string
	Defects   int  // fields that are absent, questionable or invalid (each may or may not matter)
	Scheduled bool // has schedule.stage-start
}

// drawState: every field independently good-on-stage / good-in-default / both /
// absent / questionable / invalid; tidy documents (sloppy=false) keep the last
// three rare so that a good share of documents is accepted.
func drawState(t *rapid.T, label string, sloppy bool) fieldState {
	k := unif(t, label, 100)
	if sloppy {
		switch {
		case k < 35:
			return fsStage
		case k < 55:
			return fsDefault
		case k < 65:
			return fsBoth
		case k < 80:
			return fsAbsent
		case k < 92:
			return fsEdge
		default:
			return fsBad
		}
	}
	switch {
	case k < 58:
		return fsStage
	case k < 84:
		return fsDefault
	case k < 96:
		return fsBoth
	case k < 97:
		return fsAbsent
	case k < 99:
		return fsEdge
	default:
		return fsBad
	}
}

func genConfigDoc(t *rapid.T) genConfig {
	g := genConfig{}
	sloppy := unif(t, "sloppy", 6) == 5
	def := map[string]any{}
	setDefault := func(field string, v any) {
		if _, ok := def[field]; !ok {
			def[field] = v
		}
	}
	nStages := 1 + unif(t, "nStages", 4)
	var stages []any
	for i := 0; i < nStages; i++ {
		st := map[string]any{}
		mode := pick(t, "mode", allModes)
		g.Modes = append(g.Modes, mode)
		// mode and duration behave like every other field
		for _, common := range []string{"mode", "duration"} {
			good := any(mode)
			if common == "duration" {
				good = pick(t, "duration", pools["duration"].good)
			}
			switch drawState(t, common+"State", sloppy) {
			case fsStage, fsBoth:
				st[common] = good
			case fsDefault:
				if prev, ok := def[common]; ok && common == "mode" && prev != good {
					st[common] = good // another stage already fixed the default mode
				} else {
					setDefault(common, good)
				}
			case fsAbsent:
				g.Defects++
			case fsEdge:
				g.Defects++
				if common == "duration" {
					st[common] = pick(t, "durationEdge", pools["duration"].edge)
				}
			case fsBad:
				g.Defects++
				st[common] = pick(t, common+"Bad", pools[common].bad)
			}
		}
		for _, field := range modeFields[mode] {
			p := pools[field]
			state := drawState(t, field+"State", sloppy)
			if field == "parameters" && state == fsAbsent {
				state = fsStage // optional field: absence is not a defect; drawn separately below
				if unif(t, "noParameters", 2) == 0 {
					continue
				}
			}
			switch state {
			case fsStage:
				st[field] = pick(t, field, p.good)
			case fsDefault:
				setDefault(field, pick(t, field, p.good))
			case fsBoth:
				st[field] = pick(t, field, p.good)
				setDefault(field, pick(t, field+"Default", p.good))
			case fsAbsent:
				g.Defects++
			case fsEdge:
				g.Defects++
				st[field] = pick(t, field+"Edge", p.edge)
			case fsBad:
				g.Defects++
				st[field] = pick(t, field+"Bad", p.bad)
			}
		}
		// a field the mode does not read (must be ignored)
		if unif(t, "strayField", 6) == 0 {
			f := pick(t, "stray", allStageFields)
			if _, ok := st[f]; !ok {
				st[f] = pick(t, "strayValue", append(append([]any{}, pools[f].good...), pools[f].edge...))
			}
		}
		stages = append(stages, st)
	}
	// questionable / invalid values in the default section too
	if unif(t, "defaultDefect", 16) == 0 && len(def) > 0 {
		keys := make([]string, 0, len(def))
		for k := range def {
			keys = append(keys, k)
		}
		sort.Strings(keys)
		k := pick(t, "defaultDefectField", keys)
		if p, ok := pools[k]; ok && len(p.edge) > 0 {
			def[k] = pick(t, "defaultDefectValue", append(append([]any{}, p.edge...), p.bad...))
			g.Defects++
		}
	}
	limits := map[string]any{}
	limitField := func(name string, good, edge, bad []any, optional bool) {
		k := unif(t, name+"State", 100)
		switch {
		case k < 94 || (optional && k < 96):
			limits[name] = pick(t, name, good)
		case k < 96:
			if !optional {
				g.Defects++
			}
		case k < 98:
			limits[name] = pick(t, name+"Edge", edge)
			g.Defects++
		default:
			limits[name] = pick(t, name+"Bad", bad)
			g.Defects++
		}
	}
	limitField("max-duration", []any{"1s", "5s", "1m", "100ms", "48h"}, []any{"0s", "-1s", "1ms"}, []any{"abc", 5, ""}, false)
	limitField("concurrency", []any{1, 2, 10, 50, 100}, []any{0, -1, -50}, []any{"abc", 1.5, ""}, false)
	limitField("max-iterations", []any{0, 1, 100, 1000}, []any{uint64(18446744073709551615)}, []any{-1, "abc", 1.5}, false)
	limitField("ignore-dropped", []any{true, false}, []any{"yes", "on"}, []any{"abc", 2, ""}, false)
	limitField("max-failures", []any{0, 1, 10}, []any{uint64(18446744073709551615)}, []any{-1, "abc"}, true)
	limitField("max-failures-rate", []any{0, 5, 100}, []any{-5, 500}, []any{"abc", 1.5}, true)
	doc := map[string]any{}
	switch k := unif(t, "scenarioState", 100); {
	case k < 97:
		doc["scenario"] = pick(t, "scenario", []any{"template", "verif_scenario", "s"})
	case k < 98:
		g.Defects++
	default:
		doc["scenario"] = pick(t, "scenarioOdd", []any{"", 5, []any{"a"}, nil})
		g.Defects++
	}
	if len(def) > 0 || unif(t, "emptyDefault", 4) == 0 {
		doc["default"] = def
	}
	if unif(t, "noLimits", 40) != 0 {
		doc["limits"] = limits
	} else {
		g.Defects++
	}
	switch k := unif(t, "stagesState", 100); {
	case k < 97:
		doc["stages"] = stages
	case k < 98:
		g.Defects++
	default:
		doc["stages"] = pick(t, "stagesOdd", []any{[]any{}, nil, "abc", map[string]any{"mode": "users"}, []any{nil}, []any{"constant"}})
		g.Defects++
	}
	if unif(t, "scheduled", 10) == 0 {
		g.Scheduled = true
		doc["schedule"] = map[string]any{"stage-start": pick(t, "stageStart", []any{
			"2024-03-10T08:59:59+00:00", "2024-03-10T09:00:00Z", "2020-12-10T09:00:00+00:00", "2030-01-01T00:00:00Z", "abc", 5, ""})}
	}
	g.Doc = doc
	b, err := yaml.Marshal(doc)
	if err != nil {
		t.Fatalf("VERIF-INFRA: cannot marshal the generated config: %v", err)
	}
	g.YAML = b
	return g
}

func recordPlan(section string, g genConfig, key string, res planResult, known []string, ran bool) {
	var cls []string
	switch {
	case res.violation != "":
		cls = append(cls, "violates")
	case res.accepted:
		cls = append(cls, "accepted")
	default:
		cls = append(cls, "rejected")
	}
	seen := map[string]bool{}
	for _, m := range g.Modes {
		if !seen[m] {
			seen[m] = true
			cls = append(cls, "has-"+m+"-stage")
			if res.accepted && res.violation == "" {
				cls = append(cls, "accepted-with-"+m+"-stage")
			}
		}
	}
	switch {
	case g.Defects == 0:
		cls = append(cls, "no-defect")
	case g.Defects == 1:
		cls = append(cls, "one-defect")
	default:
		cls = append(cls, "several-defects")
	}
	if res.accepted && res.stages >= 2 {
		cls = append(cls, "accepted-multi-stage")
	}
	if !res.accepted && g.Defects <= 1 {
		cls = append(cls, "rejected-one-defect")
	}
	if g.Scheduled {
		cls = append(cls, "scheduled")
	}
	if ran {
		cls = append(cls, "started-for-real")
	}
	if len(known) > 0 {
		cls = append(cls, "in-known-finding-class")
	}
	// non-trivial: accepted, or rejected with at most one absent/questionable/invalid field
	stats.Case(section, key, res.accepted || g.Defects <= 1, cls, func() any {
		return map[string]any{"yaml": clip(key, 900), "accepted": res.accepted, "stages": res.stages, "violation": res.violation}
	})
}

func TestProp_ConfigFiles(t *testing.T) {
	dir := t.TempDir()
	rapid.Check(t, func(rt *rapid.T) {
		g := genConfigDoc(rt)
		calls := 5 + unif(rt, "extraCalls", 12)
		seedGlobalRand(rapid.Int64().Draw(rt, "randSeed"))
		wantRun := unif(rt, "startForReal", vlib.ByTier(48, 12)) == 1
		known := planKnown(g.YAML)
		res := judgePlan(g.YAML, calls)
		ran := false
		infra := ""
		if res.violation == "" && !g.Scheduled {
			res.violation, infra = judgeFileBuilder(dir, g.YAML, res.accepted, calls)
		}
		if res.violation == "" && infra == "" && res.accepted && wantRun && res.maxValue <= 5000 && planIsTame(g.YAML) {
			ran = true
			spec := &vlib.RunSpec{Mode: "file", FileYAML: string(g.YAML), FileDir: dir}
			res.violation = startForReal(fmt.Sprintf("config %q", clip(string(g.YAML), 600)), spec)
		}
		recordPlan("config", g, string(g.YAML), res, known, ran)
		if infra != "" {
			rt.Fatalf("VERIF-INFRA: %s", infra)
		}
		settle(rt, known, res.violation)
	})
}

// planIsTame: may this accepted document be run for real inside the test
// process? A stage runs in its own goroutine, where a panic cannot be
// recovered, so only documents whose every value is plainly valid are started
// (the static oracle has already passed at this point).
func planIsTame(doc []byte) bool {
	if len(planKnown(doc)) > 0 {
		return false
	}
	var cf file.ConfigFile
	if err := yaml.Unmarshal(doc, &cf); err != nil {
		return false
	}
	if cf.Limits.Concurrency == nil || *cf.Limits.Concurrency < 1 || *cf.Limits.Concurrency > 200 {
		return false
	}
	for _, st := range append([]file.Stage{cf.Default}, cf.Stages...) {
		if st.Concurrency != nil && (*st.Concurrency < 1 || *st.Concurrency > 200) {
			return false
		}
		if st.Volume != nil && !(*st.Volume >= 0 && *st.Volume <= 1e6) {
			return false
		}
		if st.Jitter != nil && !(*st.Jitter >= 0 && *st.Jitter <= 100) {
			return false
		}
		if st.IterationFrequency != nil && *st.IterationFrequency < time.Millisecond {
			return false
		}
		if st.Parameters != nil {
			for k := range *st.Parameters {
				if !strings.HasPrefix(k, "C14_") && k != "FOO" && k != "BAR" {
					return false
				}
			}
		}
	}
	return true
}
