package c14

// Flag-level cases through the public entry point f1.New().Add(...).ExecuteWithArgs.

import (
	"fmt"
	"io"
	"log/slog"
	"os"
	"path/filepath"
	"strconv"
	"strings"
	"sync/atomic"
	"testing"
	"time"

	"gopkg.in/yaml.v3"
	"pgregory.net/rapid"

	"github.com/form3tech-oss/f1/v2/pkg/f1"
	f1testing "github.com/form3tech-oss/f1/v2/pkg/f1/testing"
)

const cliScenario = "verif_scenario"

type cliCase struct {
	Kind       string // bad-concurrency | unknown-scenario | flags | file
	Mode       string
	Args       []string
	MustReject bool
	Known      []string
	YAML       string
}

func (c cliCase) key() string { return strings.Join(c.Args, " ") + "|" + c.YAML }

type cliOutcome struct {
	panicMsg string
	err      error
	setups   int64
	iters    int64
}

func executeCLI(args []string) cliOutcome {
	var out cliOutcome
	var setups, iters atomic.Int64
	scenario := func(*f1testing.T) f1testing.RunFn {
		setups.Add(1)
		return func(*f1testing.T) { iters.Add(1) }
	}
	logger := slog.New(slog.NewTextHandler(io.Discard, nil))
	app := f1.New().WithLogger(logger).Add(cliScenario, scenario)
	out.panicMsg = try(func() { out.err = app.ExecuteWithArgs(args) })
	out.setups, out.iters = setups.Load(), iters.Load()
	return out
}

// judgeCLI: malformed input never crashes; what must be rejected (concurrency
// < 1, unknown scenario) is rejected before the scenario's setup function
// runs; an error that stems from building the trigger or the run precedes setup.
func judgeCLI(c cliCase, o cliOutcome) string {
	what := "f1 " + strings.Join(c.Args, " ")
	if c.YAML != "" {
		what += fmt.Sprintf(" (config %q)", clip(c.YAML, 500))
	}
	if o.panicMsg != "" {
		return fmt.Sprintf("%s: ExecuteWithArgs panicked after %d setup call(s): %s", what, o.setups, o.panicMsg)
	}
	if c.MustReject {
		if o.err == nil {
			return fmt.Sprintf("%s: must be rejected (%s) but ExecuteWithArgs returned no error (setup ran %d time(s), %d iterations)", what, c.Kind, o.setups, o.iters)
		}
		if o.setups != 0 {
			return fmt.Sprintf("%s: rejected (%v) only after the scenario's setup function had run %d time(s)", what, o.err, o.setups)
		}
	}
	if o.err != nil && o.setups != 0 {
		msg := o.err.Error()
		for _, early := range []string{"creating trigger command", "new run", "invalid argument", "unknown flag", "accepts 1 arg"} {
			if strings.Contains(msg, early) {
				return fmt.Sprintf("%s: the input was rejected (%v) but the scenario's setup function had already run", what, o.err)
			}
		}
	}
	return ""
}

func genCLIFlags(t *rapid.T, mode string) (args []string, known []string) {
	smallRate := func(label string) string {
		if unif(t, label+"Kind", 5) == 4 {
			return pick(t, label+"Odd", []string{"5/", "1/.5s", "1/0s", "1/0", "-5/s", "abc", "", "1/1.5s", "5 /s", "1/-1s"})
		}
		return fmt.Sprintf("%d/%s", unif(t, label+"N", 30), pick(t, label+"U", []string{"10ms", "20ms", "50ms", "100ms", "s", "200ms"}))
	}
	dist := genDistribution(t)
	jitter := pick(t, "jitter", []string{"0", "0", "10", "50", "100", "abc"})
	switch mode {
	case "constant":
		r := smallRate("rate")
		known = rateKnown(r)
		args = []string{"--rate", r, "--distribution", dist, "--jitter", jitter}
	case "staged":
		stg := pick(t, "stages", []string{"0s:1,10s:1", "0s:5,50ms:20", "20ms:10,20ms:0", "0s:0,100ms:30", "1s:-5", "0s:-3,1s:-3", "abc", "1s", ""})
		freq := pick(t, "frequency", []string{"10ms", "20ms", "50ms", "200ms", "1s", "0s", "-1s", "abc"})
		known = stagesKnown(stg)
		if d, err := time.ParseDuration(freq); err == nil && d <= 0 {
			known = append(known, kFreqNotPositive)
		}
		args = []string{"--stages", stg, "--iterationFrequency", freq, "--distribution", dist, "--jitter", jitter}
	case "ramp":
		a, b := smallRate("startRate"), smallRate("endRate")
		known = append(rateKnown(a), rateKnown(b)...)
		args = []string{"--start-rate", a, "--end-rate", b, "--ramp-duration", pick(t, "rampDuration", []string{"50ms", "100ms", "1s", "0s", "-1s"}),
			"--distribution", dist, "--jitter", jitter}
	case "gaussian":
		repeat := pick(t, "repeat", []string{"200ms", "1s", "100ms", "0s", "-1s"})
		freq := pick(t, "frequency", []string{"10ms", "20ms", "100ms", "200ms", "0s", "1s"})
		peak := pick(t, "peak", []string{"100ms", "0s", "500ms", "14h"})
		sd := pick(t, "stddev", []string{"50ms", "200ms", "1s", "0s", "1ms"})
		vol := pick(t, "volume", []string{"100", "0", "1000", "-5"})
		weights := pick(t, "weights", []string{"", "", "1,1", "0", "-1,1", "abc"})
		rp, _ := time.ParseDuration(repeat)
		fq, _ := time.ParseDuration(freq)
		pk, _ := time.ParseDuration(peak)
		sdd, _ := time.ParseDuration(sd)
		v, _ := strconv.ParseFloat(vol, 64)
		known = gaussianKnown(v, rp, fq, pk, sdd, weights)
		args = []string{"--repeat", repeat, "--iteration-frequency", freq, "--peak", peak, "--standard-deviation", sd, "--volume", vol,
			"--weights", weights, "--distribution", dist, "--jitter", jitter}
	case "users":
	}
	return args, known
}

func genCLICase(t *rapid.T, dir string) cliCase {
	c := cliCase{}
	c.Kind = pick(t, "kind", []string{"flags", "bad-concurrency", "unknown-scenario", "flags", "file", "file"})
	if c.Kind == "file" {
		g := genConfigDoc(t)
		// the CLI parses with the wall clock as `now`; a schedule would make the
		// static pre-check (fixed `now`) and the CLI see different stage lists
		delete(g.Doc, "schedule")
		if lim, ok := g.Doc["limits"].(map[string]any); ok {
			if _, has := lim["max-duration"]; has && unif(t, "keepMaxDuration", 8) != 0 {
				lim["max-duration"] = "80ms"
			}
		}
		if unif(t, "registeredScenario", 3) != 0 {
			if _, ok := g.Doc["scenario"].(string); ok {
				g.Doc["scenario"] = cliScenario
			}
		}
		b, err := yaml.Marshal(g.Doc)
		if err != nil {
			t.Fatalf("VERIF-INFRA: cannot marshal: %v", err)
		}
		c.YAML = string(b)
		c.Mode = "file"
		c.Args = []string{"run", "file", filepath.Join(dir, "cli-plan.yaml"), "-v"}
		c.Known = planKnown(b)
		return c
	}
	c.Mode = pick(t, "mode", []string{"constant", "staged", "ramp", "gaussian", "users"})
	flags, known := genCLIFlags(t, c.Mode)
	c.Known = known
	scenario := cliScenario
	conc := strconv.Itoa(1 + unif(t, "concurrency", 4))
	switch c.Kind {
	case "bad-concurrency":
		conc = pick(t, "badConcurrency", []string{"0", "-1", "-7", "-100", "-9223372036854775808"})
		c.MustReject = true
	case "unknown-scenario":
		scenario = pick(t, "unknownScenario", []string{"nope", "", "verif_scenario ", "Verif_Scenario", "-", "verif"})
		c.MustReject = true
	}
	maxDur := pick(t, "maxDuration", []string{"60ms", "60ms", "30ms", "100ms", "0s", "-1s", "5ms"})
	c.Args = append([]string{"run", c.Mode, scenario, "-v", "--ignore-dropped", "--concurrency", conc, "--max-duration", maxDur}, flags...)
	if c.Mode == "users" && unif(t, "maxIterations", 2) == 0 {
		c.Args = append(c.Args, "--max-iterations", strconv.Itoa(1+unif(t, "iterations", 20)))
	}
	return c
}

func TestProp_CLI(t *testing.T) {
	dir := t.TempDir()
	rapid.Check(t, func(rt *rapid.T) {
		c := genCLICase(rt, dir)
		seedGlobalRand(rapid.Int64().Draw(rt, "randSeed"))
		cls := []string{"kind-" + c.Kind, "mode-" + c.Mode}
		violation := ""
		executed := true
		var o cliOutcome
		if c.Kind == "file" {
			// A stage of a config plan runs in its own goroutine, where a panic
			// takes the process down: a plan is only handed to the CLI if the
			// static oracle found it rejected, or runnable and short.
			res := judgePlan([]byte(c.YAML), 6)
			var scenarioName struct {
				Scenario *string `yaml:"scenario"`
			}
			_ = yaml.Unmarshal([]byte(c.YAML), &scenarioName)
			switch {
			case res.violation != "":
				violation, executed = res.violation, false
			case !res.accepted:
				c.MustReject = true
			case scenarioName.Scenario == nil || *scenarioName.Scenario != cliScenario:
				c.MustReject = true
				c.Kind = "file-unknown-scenario"
			case !planIsTame([]byte(c.YAML)) || res.maxValue > 5000 || !planIsShort([]byte(c.YAML)):
				executed = false
			}
			if executed {
				if err := os.WriteFile(c.Args[2], []byte(c.YAML), 0o600); err != nil {
					rt.Fatalf("VERIF-INFRA: %v", err)
				}
			}
		}
		if executed {
			o = executeCLI(c.Args)
			violation = judgeCLI(c, o)
		}
		switch {
		case violation != "":
			cls = append(cls, "violates")
		case !executed:
			cls = append(cls, "not-executed")
		case o.err != nil && o.setups == 0:
			cls = append(cls, "rejected-before-setup")
		case o.setups > 0:
			cls = append(cls, "ran")
		}
		if c.MustReject {
			cls = append(cls, "must-reject")
		}
		if o.iters > 0 {
			cls = append(cls, "iterations-executed")
		}
		stats.Case("cli", c.key(), executed, cls, func() any {
			return map[string]any{"args": c.Args, "yaml": clip(c.YAML, 400), "must_reject": c.MustReject, "error": fmt.Sprint(o.err), "setups": o.setups, "iterations": o.iters, "violation": violation}
		})
		settle(rt, c.Known, violation)
	})
}

// planIsShort: limits.max-duration <= 200ms, so that a real CLI run ends promptly.
func planIsShort(doc []byte) bool {
	var cf struct {
		Limits struct {
			MaxDuration *time.Duration `yaml:"max-duration"`
		} `yaml:"limits"`
	}
	if err := yaml.Unmarshal(doc, &cf); err != nil || cf.Limits.MaxDuration == nil {
		return false
	}
	return *cf.Limits.MaxDuration <= 200*time.Millisecond
}
