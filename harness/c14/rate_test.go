package c14

// Rate strings (rate.ParseRate) and stages strings (staged.ParseStages).

import (
	"fmt"
	"math/big"
	"sort"
	"strconv"
	"strings"
	"testing"
	"time"
	"unicode/utf8"

	"pgregory.net/rapid"

	"github.com/form3tech-oss/f1/v2/internal/trigger/rate"
	"github.com/form3tech-oss/f1/v2/internal/trigger/staged"
)

// ---------------------------------------------------------------------------
// independent reference for rate strings

var unitNs = map[string]int64{
	"ns": 1, "us": 1_000, "µs": 1_000, "ms": 1_000_000,
	"s": 1_000_000_000, "m": 60_000_000_000, "h": 3_600_000_000_000,
}

var unitNames = []string{"ns", "us", "µs", "ms", "s", "m", "h"}

func digitRun(s string) int {
	i := 0
	for i < len(s) && s[i] >= '0' && s[i] <= '9' {
		i++
	}
	return i
}

// decimal parses a non-empty run of ASCII digits exactly; ok=false if it does not fit in int64.
func decimal(d string) (int64, bool) {
	if len(d) <= 18 {
		v := int64(0)
		for i := 0; i < len(d); i++ {
			v = v*10 + int64(d[i]-'0')
		}
		return v, true
	}
	b, good := new(big.Int).SetString(d, 10)
	if !good || !b.IsInt64() {
		return 0, false
	}
	return b.Int64(), true
}

// refCanonical recognises the canonical rate forms
// [0-9]+(/[0-9]*(ns|us|µs|ms|s|m|h))? with N fitting in int and a positive
// duration that fits in time.Duration, and gives their meaning: N per
// <count, default 1> of the unit; a bare N is per second. It uses neither
// strconv.Atoi nor time.ParseDuration.
func refCanonical(s string) (ok bool, n int, unit time.Duration) {
	i := digitRun(s)
	if i == 0 {
		return false, 0, 0
	}
	nv, fits := decimal(s[:i])
	if !fits {
		return false, 0, 0
	}
	if i == len(s) {
		return true, int(nv), time.Second
	}
	if s[i] != '/' {
		return false, 0, 0
	}
	rest := s[i+1:]
	j := digitRun(rest)
	per, known := unitNs[rest[j:]]
	if !known {
		return false, 0, 0
	}
	count := int64(1)
	if j > 0 {
		c, fits := decimal(rest[:j])
		if !fits {
			return false, 0, 0
		}
		count = c
	}
	total := new(big.Int).Mul(big.NewInt(count), big.NewInt(per))
	if !total.IsInt64() || total.Sign() <= 0 {
		return false, 0, 0
	}
	return true, int(nv), time.Duration(total.Int64())
}

// refMeaning is the reading of a NON-canonical string the property allows if
// the string is accepted: N/<duration> is N per that duration, a bare unit
// means one of it, a bare N means per second.
func refMeaning(s string) (ok bool, n int, unit time.Duration, why string) {
	i := strings.Index(s, "/")
	if i < 0 {
		v, err := strconv.Atoi(s)
		if err != nil {
			return false, 0, 0, "it is not an integer"
		}
		return true, v, time.Second, ""
	}
	v, err := strconv.Atoi(s[:i])
	if err != nil {
		return false, 0, 0, fmt.Sprintf("%q is not an integer", s[:i])
	}
	u := s[i+1:]
	d, err := time.ParseDuration(u)
	if err != nil {
		d, err = time.ParseDuration("1" + u)
		if err != nil {
			return false, 0, 0, fmt.Sprintf("%q is neither a duration nor a bare unit", u)
		}
	}
	return true, v, d, ""
}

// rateKnown: exact input classes of the open findings that concern rate strings.
func rateKnown(s string) []string {
	i := strings.Index(s, "/")
	if i < 0 {
		return nil
	}
	u := s[i+1:]
	switch {
	case u == "":
		return []string{kRateEmptyUnit}
	case u[0] == '.':
		return []string{kRateDotUnit}
	case u[0] >= '0' && u[0] <= '9':
		if d, err := time.ParseDuration(u); err == nil && d <= 0 {
			return []string{kRateZeroUnit}
		}
	}
	return nil
}

// judgeRate is the oracle for one rate string.
func judgeRate(s string) (accepted bool, violation string) {
	var n int
	var unit time.Duration
	var err error
	if p := try(func() { n, unit, err = rate.ParseRate(s) }); p != "" {
		return false, fmt.Sprintf("ParseRate(%q) panicked: %s", s, p)
	}
	canon, cn, cu := refCanonical(s)
	if err != nil {
		if canon {
			return false, fmt.Sprintf("ParseRate(%q) rejected a canonical rate (%d per %v): %v", s, cn, cu, err)
		}
		return false, ""
	}
	if canon {
		if n != cn || unit != cu {
			return true, fmt.Sprintf("ParseRate(%q) = %d per %v, it spells %d per %v", s, n, unit, cn, cu)
		}
	} else {
		ok, wn, wu, why := refMeaning(s)
		if !ok {
			return true, fmt.Sprintf("ParseRate(%q) accepted (%d per %v) although %s", s, n, unit, why)
		}
		if n != wn || unit != wu {
			return true, fmt.Sprintf("ParseRate(%q) = %d per %v, it spells %d per %v", s, n, unit, wn, wu)
		}
	}
	if unit <= 0 {
		return true, fmt.Sprintf("ParseRate(%q) accepted with unit %v: a tick interval that is not positive (time.NewTicker panics)", s, unit)
	}
	if n < 0 {
		return true, fmt.Sprintf("ParseRate(%q) accepted a negative rate %d", s, n)
	}
	return true, ""
}

// ---------------------------------------------------------------------------
// generators

var (
	genSmallDigits = rapid.OneOf(
		rapid.SampledFrom([]string{"0", "1", "2", "5", "10", "60", "100", "1000", "007", "00"}),
		rapid.StringMatching(`[0-9]{1,6}`),
	)
	genHugeDigits = rapid.SampledFrom([]string{
		"2147483647", "2147483648", "9223372036854775807", "9223372036854775808",
		"18446744073709551616", "99999999999999999999999999", "000000000000000000000000001",
	})
	unicodeDigits = []string{"٣", "５", "౩", "²", "①"}
	editAlphabet  = []rune("0123456789/nsuµmh.-+ e")
)

func genDigits(t *rapid.T, label string) string {
	if unif(t, label+"Huge", 10) == 9 {
		return genHugeDigits.Draw(t, label)
	}
	return genSmallDigits.Draw(t, label)
}

func genCanonicalRate(t *rapid.T) string {
	n := genDigits(t, "n")
	if unif(t, "bare", 4) == 0 {
		return n
	}
	count := ""
	if rapid.Bool().Draw(t, "withCount") {
		count = rapid.OneOf(
			rapid.SampledFrom([]string{"1", "2", "5", "10", "50", "100", "250", "500", "1000", "01"}),
			rapid.StringMatching(`[1-9][0-9]{0,3}`),
		).Draw(t, "count")
	}
	return n + "/" + count + pick(t, "unit", unitNames)
}

func oneEdit(t *rapid.T, s string) string {
	r := []rune(s)
	op := unif(t, "editOp", 3)
	if len(r) == 0 {
		op = 0
	}
	switch op {
	case 0: // insert
		pos := unif(t, "editPos", len(r)+1)
		c := pick(t, "editChar", editAlphabet)
		out := append([]rune{}, r[:pos]...)
		out = append(out, c)
		return string(append(out, r[pos:]...))
	case 1: // delete
		pos := unif(t, "editPos", len(r))
		return string(append(append([]rune{}, r[:pos]...), r[pos+1:]...))
	default: // replace
		pos := unif(t, "editPos", len(r))
		out := append([]rune{}, r...)
		out[pos] = pick(t, "editChar", editAlphabet)
		return string(out)
	}
}

// genRateString draws from the rate grammar and its near-misses.
func genRateString(t *rapid.T) (s, shape string) {
	switch k := unif(t, "rateShape", 100); {
	case k < 50:
		return genCanonicalRate(t), "grammar"
	case k < 62:
		return oneEdit(t, genCanonicalRate(t)), "one-edit"
	default:
		n := genDigits(t, "n")
		u := pick(t, "unit", unitNames)
		c := pick(t, "count", []string{"1", "2", "10", "100", "500"})
		frac := pick(t, "frac", []string{"5", "25", "0", "001", "999"})
		templates := []string{
			n + "/",                      // empty unit
			"/" + c + u,                  // empty rate
			n + "/." + frac + u,          // leading dot
			n + "/0" + u,                 // zero duration
			n + "/0",                     // zero without unit
			n + "/00" + u,                // zero duration, two digits
			n + "/0." + frac + u,         // fraction below one unit
			n + "/" + c + "." + frac + u, // fractional duration
			n + "/-" + c + u,             // negative duration
			n + "/+" + c + u,             // signed duration
			"-" + n + "/" + c + u,        // negative rate
			"+" + n + "/" + c + u,        // signed rate
			"-" + n,                      // negative bare rate
			" " + n + "/" + c + u,        // leading space
			n + "/" + c + u + " ",        // trailing space
			n + " / " + c + u,            // spaces around the slash
			n + "/ " + u,                 // space before the unit
			n + "//" + c + u,             // two slashes
			n + "/" + c + u + "/" + u,    // two units
			n + "/" + c,                  // count without unit
			n + "/1h30m",                 // compound duration
			n + "/0h0m0s",                // compound zero duration
			n + "/1m0." + frac + "s",     // compound with fraction
			n + "/" + pick(t, "udigit", unicodeDigits) + u, // unicode digit count
			pick(t, "udigit2", unicodeDigits) + "/" + u,    // unicode digit rate
			n + "/" + strings.ToUpper(u),                   // upper-case unit
			n + "/" + c + "d",                              // unknown unit
			n + "/" + c + "sec",                            // unknown unit
			n + "/μs",                                      // Greek mu (ParseDuration knows it, the canonical list does not)
			n + "e3/" + u,                                  // exponent
			n + ".5/" + u,                                  // fractional rate
			n + "_000/" + u,                                // underscore
			"0x" + n + "/" + u,                             // hex
			"",                                             // empty
			"/",                                            // only the slash
			u,                                              // only a unit
			n + "/" + "9999999999999999999" + u,            // duration overflow
			n + "/" + "9223372036854775807ns",              // largest duration
			n + "/" + "9223372036854775808ns",              // one above the largest duration
			n + "/" + "2562047h48m",                        // overflow through a compound duration
			n + "\\" + c + u,                               // backslash
			n + "/" + c + u + "\n",                         // trailing newline
			n + "/" + c + u + "\x00",                       // NUL
			strings.Repeat("9", 400) + "/" + u,             // very long digit string
			n + "/" + strings.Repeat("0", 300) + "1" + u, // very long count
		}
		i := unif(t, "template", len(templates))
		return templates[i], "near-miss-template"
	}
}

// nearCanonical: is s within edit distance 1 of a canonical rate string?
func nearCanonical(s string) bool {
	if !utf8.ValidString(s) || len(s) > 40 {
		return false
	}
	alphabet := []rune("0123456789/nsuµmh")
	r := []rune(s)
	buf := make([]rune, 0, len(r)+1)
	test := func(c []rune) bool { ok, _, _ := refCanonical(string(c)); return ok }
	for i := range r { // deletions and substitutions
		buf = append(append(buf[:0], r[:i]...), r[i+1:]...)
		if test(buf) {
			return true
		}
		for _, a := range alphabet {
			buf = append(append(append(buf[:0], r[:i]...), a), r[i+1:]...)
			if test(buf) {
				return true
			}
		}
	}
	for i := 0; i <= len(r); i++ { // insertions
		for _, a := range alphabet {
			buf = append(append(append(buf[:0], r[:i]...), a), r[i:]...)
			if test(buf) {
				return true
			}
		}
	}
	return false
}

func recordRate(section, s, shape string, accepted bool, violation string) {
	canon, _, _ := refCanonical(s)
	near := false
	if !accepted && shape != "fuzz" { // too slow for the fuzzing loop
		near = nearCanonical(s)
	}
	cls := []string{"shape-" + shape}
	switch {
	case violation != "":
		cls = append(cls, "violates")
	case accepted:
		cls = append(cls, "accepted")
	default:
		cls = append(cls, "rejected")
	}
	if canon {
		cls = append(cls, "canonical")
	} else if accepted {
		cls = append(cls, "accepted-non-canonical")
	}
	if near {
		cls = append(cls, "rejected-one-edit-from-canonical")
	}
	if strings.Contains(s, "/") {
		cls = append(cls, "with-unit")
	}
	if len(rateKnown(s)) > 0 {
		cls = append(cls, "in-known-finding-class")
	}
	stats.Case(section, s, accepted || near, cls, func() any {
		return map[string]any{"input": clip(s, 80), "accepted": accepted, "violation": violation}
	})
}

func TestProp_RateStrings(t *testing.T) {
	rapid.Check(t, func(rt *rapid.T) {
		s, shape := genRateString(rt)
		accepted, violation := judgeRate(s)
		recordRate("rate", s, shape, accepted, violation)
		settle(rt, rateKnown(s), violation)
	})
}

// ---------------------------------------------------------------------------
// stages strings

// stagesKnown: exact input class of the open finding about negative targets.
func stagesKnown(s string) []string {
	for _, el := range strings.Split(s, ",") {
		parts := strings.Split(strings.TrimSpace(el), ":")
		if len(parts) != 2 {
			continue
		}
		if v, err := strconv.Atoi(strings.TrimSpace(parts[1])); err == nil && v < 0 {
			return []string{kNegStageTarget}
		}
	}
	return nil
}

// stageInstants picks query offsets that visit every stage of positive length
// (middle and 9/10), the start, and one instant after the end; at least 5.
func stageInstants(stages []staged.Stage) []time.Duration {
	set := map[time.Duration]bool{0: true}
	cum := time.Duration(0)
	for _, st := range stages {
		if st.Duration > 0 && st.Duration < 1000*time.Hour && cum >= 0 && cum < 10000*time.Hour {
			set[cum+st.Duration/2] = true
			set[cum+st.Duration/10*9] = true
		}
		cum += st.Duration
	}
	if cum > 0 && cum < 20000*time.Hour {
		set[cum+time.Second] = true
	}
	out := make([]time.Duration, 0, len(set))
	for d := range set {
		if d >= 0 {
			out = append(out, d)
		}
	}
	sort.Slice(out, func(i, j int) bool { return out[i] < out[j] })
	for len(out) < 5 {
		out = append(out, out[len(out)-1]+time.Second)
	}
	return out
}

// judgeStages is the oracle for one stages string: it is rejected, or the rate
// profile built from it can be evaluated (directly and behind the given
// distribution) without panicking and never asks for a negative number.
func judgeStages(s, dist string) (accepted bool, nStages int, violation string) {
	var stages []staged.Stage
	var err error
	if p := try(func() { stages, err = staged.ParseStages(s) }); p != "" {
		return false, 0, fmt.Sprintf("ParseStages(%q) panicked: %s", s, p)
	}
	if err != nil {
		return false, 0, ""
	}
	if len(stages) == 0 {
		return true, 0, fmt.Sprintf("ParseStages(%q) accepted but returned no stage", s)
	}
	offsets := stageInstants(stages)
	at := make([]time.Time, len(offsets))
	for i, o := range offsets {
		at[i] = baseTime.Add(o)
	}
	calc := staged.NewRateCalculator(stages, nil)
	if v, _ := runnable(fmt.Sprintf("stages %q", s), time.Second, calc.Rate, at); v != "" {
		return true, len(stages), v
	}
	// the same profile as the staged trigger builds it; iteration-frequency
	// 200ms puts the distribution wrapper in front with 2 sub-ticks per tick,
	// so every instant is asked twice to make the wrapper evaluate the profile
	// at each of them
	const freq = 200 * time.Millisecond
	var rates = struct {
		interval time.Duration
		fn       func(time.Time) int
	}{}
	var cerr error
	if p := try(func() {
		r, e := staged.CalculateStagedRate(0, freq, s, dist, nil)
		cerr = e
		if e == nil {
			rates.interval, rates.fn = r.IterationDuration, r.Rate
		}
	}); p != "" {
		return true, len(stages), fmt.Sprintf("CalculateStagedRate(stages %q, distribution %s) panicked: %s", s, dist, p)
	}
	if cerr != nil {
		return true, len(stages), "" // e.g. an undocumented distribution: rejected, fine
	}
	twice := make([]time.Time, 0, 2*len(at))
	for _, ts := range at {
		twice = append(twice, ts, ts.Add(1))
	}
	v, _ := runnable(fmt.Sprintf("stages %q behind distribution %s", s, dist), rates.interval, rates.fn, twice)
	return true, len(stages), v
}

var (
	goodStageDur = []string{"0s", "1s", "10s", "500ms", "300ms", "1m", "1h", "1.5s", "1m30s", "100us", "2h"}
	oddStageDur  = []string{"-1s", "0", "1", "", "1d", "s", "1 s", "9999999999h", "0.0s", ".5s", "+1s", "１s", "1e3s"}
	goodTarget   = []string{"0", "1", "2", "10", "30", "100", "1000", "1000000"}
	oddTarget    = []string{"-1", "-5", "-100", "1.5", "", "abc", "9223372036854775807", "9223372036854775808", "+5", "٣", "1e3", "0x10", "-0", " 7"}
)

func genStagesString(t *rapid.T) (s, shape string) {
	sloppy := unif(t, "sloppy", 10) // 0-5 tidy, 6-8 one odd part, 9 anything
	n := rapid.IntRange(1, 5).Draw(t, "nStages")
	oddAt := -1
	if sloppy >= 6 {
		oddAt = unif(t, "oddAt", n)
	}
	shape = "grammar"
	var parts []string
	for i := 0; i < n; i++ {
		d := pick(t, "dur", goodStageDur)
		g := pick(t, "target", goodTarget)
		sep := ":"
		if i == oddAt || sloppy == 9 {
			shape = "near-miss"
			switch unif(t, "oddKind", 6) {
			case 0:
				d = pick(t, "oddDur", oddStageDur)
			case 1, 2:
				g = pick(t, "oddTarget", oddTarget)
			case 3:
				sep = pick(t, "oddSep", []string{"", "::", ";", "=", ":1:", " : "})
			case 4:
				g = g + pick(t, "tail", []string{":", ":1", " ", "\n", "\x00"})
			default:
				d, g = g, d // swapped
			}
		}
		pad := pick(t, "pad", []string{"", "", "", " ", "  ", "\t"})
		parts = append(parts, pad+d+sep+g)
	}
	joiner := ","
	if sloppy == 9 {
		joiner = pick(t, "joiner", []string{",", ", ", ",,", ";", " ", "\n"})
	}
	s = strings.Join(parts, joiner)
	if sloppy >= 8 {
		switch unif(t, "wrap", 5) {
		case 0:
			s += ","
		case 1:
			s = "," + s
		case 2:
			s = oneEdit(t, s)
			shape = "one-edit"
		case 3:
			if unif(t, "empty", 6) == 0 {
				s = ""
			}
		}
	}
	return s, shape
}

func recordStages(section, s, dist, shape string, accepted bool, n int, violation string) {
	cls := []string{"shape-" + shape, "dist-" + dist}
	switch {
	case violation != "":
		cls = append(cls, "violates")
	case accepted:
		cls = append(cls, "accepted")
	default:
		cls = append(cls, "rejected")
	}
	if accepted && n >= 2 {
		cls = append(cls, "accepted-multi-stage")
	}
	if !accepted && shape != "grammar" {
		cls = append(cls, "rejected-near-miss")
	}
	if len(stagesKnown(s)) > 0 {
		cls = append(cls, "in-known-finding-class")
	}
	// non-trivial: accepted, or rejected although built from the grammar with one odd part
	stats.Case(section, dist+"|"+s, accepted || shape != "grammar", cls, func() any {
		return map[string]any{"input": clip(s, 120), "distribution": dist, "accepted": accepted, "stages": n, "violation": violation}
	})
}

func TestProp_StagesStrings(t *testing.T) {
	rapid.Check(t, func(rt *rapid.T) {
		s, shape := genStagesString(rt)
		dist := pick(rt, "distribution", []string{"none", "regular", "random"})
		seedGlobalRand(rapid.Int64().Draw(rt, "randSeed"))
		accepted, n, violation := judgeStages(s, dist)
		recordStages("stages", s, dist, shape, accepted, n, violation)
		settle(rt, stagesKnown(s), violation)
	})
}
