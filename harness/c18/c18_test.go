package c18

import (
	"context"
	"fmt"
	"sync"
	"sync/atomic"
	"testing"
	"time"

	"go.uber.org/goleak"
	"pgregory.net/rapid"

	"github.com/form3tech-oss/f1/v2/internal/raterun"
	"github.com/form3tech-oss/f1/v2/verifharness/vlib"
)

var stats = vlib.NewStats("C18")

func TestMain(m *testing.M) { vlib.Main(m, stats) }

type invocation struct {
	Enter, Exit time.Duration // relative to T_new (monotonic)
	Freq        time.Duration
}

type op struct {
	AfterMs int    // sleep before the call
	Kind    string // restart | stop | cancel
}

type runnerCase struct {
	Schedules []raterun.Schedule
	FnUs      int // function duration in microseconds
	Script    []op
}

func (c runnerCase) desc() string {
	s := ""
	for _, sc := range c.Schedules {
		s += fmt.Sprintf("{delay %s, every %s}", sc.StartDelay, sc.Frequency)
	}
	return fmt.Sprintf("schedules=%s fn=%dus script=%v", s, c.FnUs, c.Script)
}

func genCase(t *rapid.T) runnerCase {
	var c runnerCase
	n := rapid.IntRange(1, 4).Draw(t, "schedules")
	used := map[int]bool{}
	for i := 0; i < n; i++ {
		f := rapid.IntRange(3, 60).Draw(t, fmt.Sprintf("freqMs%d", i))
		for used[f] {
			f++ // distinct frequencies identify the schedule an invocation belongs to
		}
		used[f] = true
		c.Schedules = append(c.Schedules, raterun.Schedule{
			StartDelay: time.Duration(rapid.SampledFrom([]int{0, 5, 10, 20, 40, 80, 120}).Draw(t, fmt.Sprintf("delayMs%d", i))) * time.Millisecond,
			Frequency:  time.Duration(f) * time.Millisecond,
		})
	}
	if n >= 2 && rapid.IntRange(0, 5).Draw(t, "neverStartingSchedule") == 0 {
		// a start delay at the top of the Duration range: that schedule (and the ones behind it) never start
		c.Schedules[rapid.IntRange(1, n-1).Draw(t, "neverStartingAt")].StartDelay =
			rapid.SampledFrom([]time.Duration{1<<63 - 1, 1<<63 - 1 - time.Second, 1 << 62}).Draw(t, "hugeDelay")
	}
	c.FnUs = rapid.SampledFrom([]int{0, 0, 200, 3000, 15000, 40000}).Draw(t, "fnMicros")
	nops := rapid.IntRange(0, 3).Draw(t, "restarts")
	for i := 0; i < nops; i++ {
		c.Script = append(c.Script, op{AfterMs: rapid.IntRange(0, 120).Draw(t, fmt.Sprintf("after%d", i)), Kind: "restart"})
	}
	c.Script = append(c.Script, op{AfterMs: rapid.IntRange(0, 220).Draw(t, "afterEnd"), Kind: rapid.SampledFrom([]string{"stop", "stop", "cancel", "stop-twice-at-once"}).Draw(t, "end")})
	return c
}

type runObs struct {
	tNew, tStart  time.Duration
	restarts      []time.Duration // call instants
	endKind       string
	endReturned   time.Duration // when Stop returned / cancel was called
	inFlightAtEnd int32
	log           []invocation
	leak          error

	invocationsAfterCancelWait int
	twoStops                   bool
}

func execute(c runnerCase) (runObs, error) {
	var obs runObs
	base := time.Now()
	var mu sync.Mutex
	var inFlight atomic.Int32
	fn := func(freq time.Duration) {
		enter := time.Since(base)
		inFlight.Add(1)
		if c.FnUs > 0 {
			time.Sleep(time.Duration(c.FnUs) * time.Microsecond)
		}
		inFlight.Add(-1)
		exit := time.Since(base)
		mu.Lock()
		obs.log = append(obs.log, invocation{Enter: enter, Exit: exit, Freq: freq})
		mu.Unlock()
	}
	leakOpt := goleak.IgnoreCurrent()
	obs.tNew = time.Since(base)
	r, err := raterun.New(fn, append([]raterun.Schedule{}, c.Schedules...))
	if err != nil {
		return obs, err
	}
	ctx, cancel := context.WithCancel(context.Background())
	defer cancel()
	obs.tStart = time.Since(base)
	r.Start(ctx)
	for _, o := range c.Script {
		time.Sleep(time.Duration(o.AfterMs) * time.Millisecond)
		switch o.Kind {
		case "restart":
			obs.restarts = append(obs.restarts, time.Since(base))
			r.Restart()
		case "stop":
			r.Stop()
			obs.inFlightAtEnd = inFlight.Load()
			obs.endReturned = time.Since(base)
			obs.endKind = "stop"
		case "stop-twice-at-once":
			// two callers stop the runner at the same time: what Stop promises, it promises to both
			type ret struct {
				at       time.Duration
				inFlight int32
			}
			rets := make(chan ret, 2)
			for k := 0; k < 2; k++ {
				go func() {
					r.Stop()
					rets <- ret{time.Since(base), inFlight.Load()}
				}()
			}
			a, b := <-rets, <-rets
			obs.endReturned, obs.inFlightAtEnd = min(a.at, b.at), max(a.inFlight, b.inFlight)
			obs.endKind = "stop"
			obs.twoStops = true
		case "cancel":
			cancel()
			obs.endReturned = time.Since(base)
			obs.endKind = "cancel"
		}
	}
	// watch three more periods of the slowest schedule for late invocations
	var maxF time.Duration
	for _, s := range c.Schedules {
		if s.Frequency > maxF {
			maxF = s.Frequency
		}
	}
	quiet := 3*maxF + time.Duration(c.FnUs)*time.Microsecond
	time.Sleep(quiet)
	if obs.endKind == "cancel" {
		// After cancellation (without Stop) the runner goroutine leaves at its next select in which the
		// cancellation is chosen; while a tick is also ready Go's select picks either with probability
		// 1/2, so the number of further invocations is geometrically distributed and the property's
		// "no goroutine remains" can only be an eventually. Wait until no invocation has started for a
		// whole quiet period, allowing up to 64 further invocations (probability 2^-64) before calling
		// it a runner that does not stop.
		count := func() int { mu.Lock(); defer mu.Unlock(); return len(obs.log) }
		last, extra := count(), 0
		for extra < 64 {
			time.Sleep(quiet)
			if n := count(); n != last || inFlight.Load() != 0 {
				extra += max(1, n-last)
				last = n
				continue
			}
			break
		}
		obs.invocationsAfterCancelWait = extra
	}
	obs.leak = goleak.Find(leakOpt)
	mu.Lock()
	obs.log = append([]invocation{}, obs.log...)
	mu.Unlock()
	return obs, nil
}

const slack = 100 * time.Microsecond // timer granularity / clock reading order

func judge(c runnerCase, obs runObs) string {
	idx := map[time.Duration]int{}
	for i, s := range c.Schedules {
		idx[s.Frequency] = i
	}
	// Lower bound of the instant schedule i can have started, for an invocation entering at x:
	// the schedules were (re)based either by New (first schedule after its start delay) or by a
	// Restart (first schedule at once) - the earliest admissible base gives a bound that holds
	// whatever the runner was doing. After the m-th visible step back to the first schedule only
	// the m-th and later Restart calls are admissible bases.
	lowerStart := func(i int, x time.Duration, regressions int) (time.Duration, bool) {
		var base time.Duration
		found := false
		if regressions == 0 {
			base, found = obs.tNew+c.Schedules[0].StartDelay, true
		}
		for m := regressions - 1; m < len(obs.restarts); m++ {
			if m < 0 {
				continue
			}
			if obs.restarts[m] <= x && (!found || obs.restarts[m] < base) {
				base, found = obs.restarts[m], true
			}
		}
		for j := 1; j <= i; j++ {
			base = satAdd(base, c.Schedules[j].StartDelay)
		}
		return base, found
	}
	regressions := 0
	cur, k := -1, 0
	for n, inv := range obs.log {
		i, ok := idx[inv.Freq]
		if !ok {
			return fmt.Sprintf("invocation #%d received frequency %s which is not a configured schedule", n, inv.Freq)
		}
		if inv.Enter < obs.tStart-slack {
			return fmt.Sprintf("invocation #%d at %s happened before Start (%s)", n, inv.Enter, obs.tStart)
		}
		if i < cur {
			// going back is only allowed because of a Restart (which re-bases the whole schedule list)
			regressions++
			// (the first schedule itself may be passed through without a tick when the following
			// start delay is shorter than its period, so the step back may land on a later one)
			if regressions > countBefore(obs.restarts, inv.Enter) {
				return fmt.Sprintf("invocation #%d stepped back to an earlier schedule at %s for the %d. time, but only %d Restart call(s) had been made by then", n, inv.Enter, regressions, countBefore(obs.restarts, inv.Enter))
			}
			k = 0
		} else if i > cur {
			k = 0
		}
		cur = i
		k++
		low, ok := lowerStart(i, inv.Enter, regressions)
		if !ok {
			return fmt.Sprintf("invocation #%d: no Restart call can account for the step back", n)
		}
		earliest := satAdd(low, time.Duration(k)*c.Schedules[i].Frequency)
		if inv.Enter+slack < earliest {
			return fmt.Sprintf("invocation #%d is the %d. consecutive one of schedule %d (every %s); it entered at %s, earlier than %s (the schedule cannot have started before %s)",
				n, k, i, c.Schedules[i].Frequency, inv.Enter, earliest, low)
		}
	}
	if obs.endKind == "stop" {
		if obs.inFlightAtEnd != 0 {
			return fmt.Sprintf("the function was executing when Stop returned (at %s)", obs.endReturned)
		}
		for n, inv := range obs.log {
			if inv.Exit > obs.endReturned+slack {
				return fmt.Sprintf("invocation #%d (enter %s, exit %s) was running or started after Stop had returned at %s", n, inv.Enter, inv.Exit, obs.endReturned)
			}
		}
	}
	if obs.leak != nil {
		return fmt.Sprintf("after %s a goroutine of the runner remains: %v", obs.endKind, obs.leak)
	}
	return ""
}

// satAdd adds two non-negative durations, saturating at the top of the range.
func satAdd(a, b time.Duration) time.Duration {
	if a > 1<<63-1-b {
		return 1<<63 - 1
	}
	return a + b
}

func countBefore(ts []time.Duration, t time.Duration) int {
	n := 0
	for _, x := range ts {
		if x <= t {
			n++
		}
	}
	return n
}

func TestProp_RunnerScripts(t *testing.T) {
	rapid.Check(t, func(rt *rapid.T) {
		c := genCase(rt)
		obs, err := execute(c)
		if err != nil {
			rt.Fatalf("VERIF-INFRA: %v", err)
		}
		schedulesSeen := map[time.Duration]bool{}
		for _, inv := range obs.log {
			schedulesSeen[inv.Freq] = true
		}
		nontrivial := len(obs.log) >= 3 && (len(schedulesSeen) >= 2 || len(obs.restarts) > 0)
		cls := []string{"end-" + obs.endKind}
		if obs.twoStops {
			cls = append(cls, "two-concurrent-stops")
		}
		for _, sc := range c.Schedules {
			if sc.StartDelay >= 1<<62 {
				cls = append(cls, "schedule-that-never-starts")
				break
			}
		}
		if len(obs.restarts) > 0 {
			cls = append(cls, "with-restart")
		}
		if len(schedulesSeen) >= 2 {
			cls = append(cls, "schedule-change-observed")
		}
		// a tick was due within one period before the end
		if n := len(obs.log); n > 0 && obs.endReturned-obs.log[n-1].Enter < c.Schedules[0].Frequency*2 {
			cls = append(cls, "end-near-a-tick")
		}
		stats.Case("scripts", c.desc(), nontrivial, cls, func() any {
			return map[string]any{"case": c.desc(), "invocations": len(obs.log)}
		})
		if msg := judge(c, obs); msg != "" {
			vlib.SaveArtefact("c18-history", map[string]any{"case": c.desc(), "observation": fmt.Sprintf("%+v", obs)})
			rt.Fatalf("VERIF-VIOLATION C18: %s\ncase: %s\nlog: %v", msg, c.desc(), obs.log)
		}
	})
}

// runStopVsDispatch scripts Stop against a tick that is due: the dispatch is parked just before
// the function is called, Stop is called, and only then the dispatch is released.
func runStopVsDispatch(freqMs, fnUs, nth int, cancelParentFirst bool) (msg string, reached bool) {
	g := vlib.NewGate("raterun.before_dispatch", int32(nth), 2*time.Second)
	remove := vlib.InstallGates(nil, g)
	defer remove()
	var inFlight atomic.Int32
	var after atomic.Int32
	var stopped atomic.Bool
	fn := func(time.Duration) {
		inFlight.Add(1)
		if stopped.Load() {
			after.Add(1)
		}
		time.Sleep(time.Duration(fnUs) * time.Microsecond)
		if stopped.Load() {
			after.Add(1)
		}
		inFlight.Add(-1)
	}
	r, err := raterun.New(fn, []raterun.Schedule{{StartDelay: 0, Frequency: time.Duration(freqMs) * time.Millisecond}})
	if err != nil {
		return "VERIF-INFRA " + err.Error(), false
	}
	ctx, cancelParent := context.WithCancel(context.Background())
	defer cancelParent()
	r.Start(ctx)
	select {
	case <-g.Arrived():
		reached = true
	case <-time.After(2 * time.Second):
	}
	stopReturned := make(chan struct{})
	go func() {
		if cancelParentFirst {
			cancelParent() // the run was interrupted: Stop must wait for the runner all the same
		}
		r.Stop()
		stopped.Store(true)
		close(stopReturned)
	}()
	time.Sleep(5 * time.Millisecond)
	g.Open()
	select {
	case <-stopReturned:
	case <-time.After(20 * time.Second):
		return fmt.Sprintf("Stop did not return within 20 s (every %dms, fn %dus)", freqMs, fnUs), reached
	}
	executingAtReturn := inFlight.Load()
	time.Sleep(time.Duration(3*freqMs)*time.Millisecond + time.Duration(fnUs)*time.Microsecond)
	if executingAtReturn != 0 || after.Load() != 0 {
		return fmt.Sprintf("every %dms, fn %dus: a due tick was about to be dispatched when Stop was called; after Stop returned the function was executing (%d) or was invoked again (%d observations)",
			freqMs, fnUs, executingAtReturn, after.Load()), reached
	}
	return "", reached
}

func TestProp_ScriptedStopVsDispatch(t *testing.T) {
	rapid.Check(t, func(rt *rapid.T) {
		freq := rapid.IntRange(3, 40).Draw(rt, "freqMs")
		fnUs := rapid.SampledFrom([]int{0, 500, 5000, 20000}).Draw(rt, "fnMicros")
		nth := rapid.IntRange(1, 3).Draw(rt, "nthDispatch")
		cancelFirst := rapid.Bool().Draw(rt, "parentCancelledBeforeStop")
		msg, reached := runStopVsDispatch(freq, fnUs, nth, cancelFirst)
		cls := []string{}
		if reached {
			cls = append(cls, "gate-reached")
		}
		if cancelFirst {
			cls = append(cls, "parent-cancelled-before-stop")
		}
		stats.Case("scripted-stop", fmt.Sprint(freq, fnUs, nth, cancelFirst), reached, cls, func() any {
			return map[string]any{"script": "Stop while a due tick is parked before dispatch", "every_ms": freq, "fn_us": fnUs, "parked_dispatch": nth}
		})
		if msg != "" {
			rt.Fatalf("VERIF-VIOLATION C18: %s", msg)
		}
	})
}

func TestRegress(t *testing.T) {
	if msg, reached := runStopVsDispatch(10, 5000, 1, false); msg != "" && reached {
		t.Errorf("VERIF-VIOLATION C18: %s", msg)
	}
}
