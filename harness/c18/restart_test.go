package c18

import (
	"context"
	"fmt"
	"github.com/form3tech-oss/f1/v2/verifharness/vlib"
	"sync"
	"sync/atomic"
	"testing"
	"time"

	"pgregory.net/rapid"

	"github.com/form3tech-oss/f1/v2/internal/raterun"
)

// TestProp_RestartTakesEffect: "back to the first [schedule] on Restart". Two schedules, the first
// fast (every f0) and lasting d1 >= 4*f0, the second slower. The harness waits until the runner is
// in the second schedule, calls Restart at a drawn phase relative to the function (which takes a
// drawn time, so Restart often lands while it is executing), and then allows 2 s - hundreds of
// periods - for an invocation at the first schedule's frequency to enter. That is the only upper
// bound on time in this package; it is 100x-600x the period.
func TestProp_RestartTakesEffect(t *testing.T) {
	rapid.Check(t, func(rt *rapid.T) {
		f0 := time.Duration(rapid.IntRange(3, 10).Draw(rt, "firstEveryMs")) * time.Millisecond
		d1 := 4*f0 + time.Duration(rapid.IntRange(0, 30).Draw(rt, "secondAfterExtraMs"))*time.Millisecond
		f1 := f0 + time.Duration(rapid.IntRange(5, 20).Draw(rt, "secondEveryExtraMs"))*time.Millisecond
		fnUs := rapid.SampledFrom([]int{0, 2000, 8000, 15000}).Draw(rt, "fnMicros")
		phaseUs := rapid.IntRange(0, 20000).Draw(rt, "restartPhaseMicros")
		restarts := rapid.IntRange(1, 3).Draw(rt, "restarts")

		base := time.Now()
		var mu sync.Mutex
		var log []invocation
		fn := func(freq time.Duration) {
			enter := time.Since(base)
			if fnUs > 0 {
				time.Sleep(time.Duration(fnUs) * time.Microsecond)
			}
			mu.Lock()
			log = append(log, invocation{Enter: enter, Exit: time.Since(base), Freq: freq})
			mu.Unlock()
		}
		r, err := raterun.New(fn, []raterun.Schedule{{StartDelay: 0, Frequency: f0}, {StartDelay: d1, Frequency: f1}})
		if err != nil {
			rt.Fatalf("VERIF-INFRA: %v", err)
		}
		ctx, cancel := context.WithCancel(context.Background())
		defer cancel()
		r.Start(ctx)
		defer r.Stop()
		countSince := func(freq time.Duration, since time.Duration) int {
			mu.Lock()
			defer mu.Unlock()
			n := 0
			for _, inv := range log {
				if inv.Freq == freq && inv.Enter >= since {
					n++
				}
			}
			return n
		}
		waitFor := func(freq time.Duration, since time.Duration, limit time.Duration) bool {
			deadline := time.Now().Add(limit)
			for time.Now().Before(deadline) {
				if countSince(freq, since) > 0 {
					return true
				}
				time.Sleep(200 * time.Microsecond)
			}
			return false
		}
		desc := fmt.Sprintf("schedules {0, every %s}{after %s, every %s} fn=%dus restartPhase=%dus restarts=%d", f0, d1, f1, fnUs, phaseUs, restarts)
		reachedSecond := 0
		for k := 0; k < restarts; k++ {
			// get into the second schedule
			if since := time.Since(base); !waitFor(f1, since-time.Nanosecond, 5*time.Second) {
				// "moving to the next schedule after its start delay": the delay is at most 70 ms, 5 s have passed
				stats.Case("restart", desc, true, []string{"restart-issued"}, func() any { return map[string]any{"case": desc} })
				rt.Fatalf("VERIF-VIOLATION C18: %d Restart(s) so far; 5 s after %s the runner had still not moved on to its second schedule (start delay %s)\ncase: %s",
					k, since.Round(time.Millisecond), d1, desc)
			}
			reachedSecond++
			time.Sleep(time.Duration(phaseUs) * time.Microsecond)
			tr := time.Since(base)
			r.Restart()
			if !waitFor(f0, tr, 2*time.Second) {
				mu.Lock()
				tail := append([]invocation{}, log...)
				mu.Unlock()
				if len(tail) > 12 {
					tail = tail[len(tail)-12:]
				}
				stats.Case("restart", desc, true, []string{"restart-issued"}, func() any { return map[string]any{"case": desc} })
				rt.Fatalf("VERIF-VIOLATION C18: Restart #%d was called at %s while the runner was in its second schedule; 2 s later no invocation at the first schedule's frequency %s had happened - the runner did not go back to the first schedule\ncase: %s\nlast invocations: %v",
					k+1, tr, f0, desc, tail)
			}
		}
		stats.Case("restart", desc, reachedSecond > 0, []string{"restart-issued"}, func() any {
			return map[string]any{"case": desc, "restarts_checked": reachedSecond}
		})
	})
}

// TestProp_RestartInFirstScheduleRebasesTheNext: "moving to the next schedule after its start delay
// and back to the first on Restart" - a Restart issued while the FIRST schedule is still active starts
// the list afresh as well: the second schedule then begins one start delay after the Restart took
// effect, not at the time planned before it.
//
// Restart only posts a request; the runner takes it up at one of its next selects, where it competes
// with at most two other ready channels, so after 100 further invocations it has been taken up except
// with probability (2/3)^100 < 1e-17. From the 100th invocation after Restart returned onwards, an
// invocation at the second schedule's frequency therefore cannot enter before
// (time Restart was called) + (start delay) + (one period) - a lower bound, sound under any delay.
func TestProp_RestartInFirstScheduleRebasesTheNext(t *testing.T) {
	rapid.Check(t, func(rt *rapid.T) {
		f0 := time.Duration(rapid.IntRange(1, 3).Draw(rt, "firstEveryMs")) * time.Millisecond
		d1 := time.Duration(rapid.IntRange(400, 600).Draw(rt, "secondAfterMs")) * time.Millisecond
		f1 := f0 + time.Duration(rapid.IntRange(3, 10).Draw(rt, "secondEveryExtraMs"))*time.Millisecond
		restartAt := time.Duration(rapid.IntRange(20, int(d1.Milliseconds())-320).Draw(rt, "restartAtMs")) * time.Millisecond
		fnUs := rapid.SampledFrom([]int{0, 0, 200, 800}).Draw(rt, "fnMicros")

		base := time.Now()
		var mu sync.Mutex
		var log []invocation
		fn := func(freq time.Duration) {
			enter := time.Since(base)
			if fnUs > 0 {
				time.Sleep(time.Duration(fnUs) * time.Microsecond)
			}
			mu.Lock()
			log = append(log, invocation{Enter: enter, Exit: time.Since(base), Freq: freq})
			mu.Unlock()
		}
		r, err := raterun.New(fn, []raterun.Schedule{{StartDelay: 0, Frequency: f0}, {StartDelay: d1, Frequency: f1}})
		if err != nil {
			rt.Fatalf("VERIF-INFRA: %v", err)
		}
		ctx, cancel := context.WithCancel(context.Background())
		defer cancel()
		r.Start(ctx)
		time.Sleep(restartAt)
		called := time.Since(base)
		r.Restart()
		returned := time.Since(base)
		// watch until well after the second schedule is due under either reading
		time.Sleep(time.Until(base.Add(called + d1 + 10*f1)))
		r.Stop()
		mu.Lock()
		all := append([]invocation{}, log...)
		mu.Unlock()

		desc := fmt.Sprintf("schedules {0, every %s}{after %s, every %s} fn=%dus Restart at %s", f0, d1, f1, fnUs, restartAt)
		after := 0
		var settled time.Duration = -1 // entry of the 100th invocation after Restart returned
		for _, inv := range all {
			if inv.Enter >= returned {
				after++
				if after == 100 {
					settled = inv.Enter
				}
			}
		}
		judged := 0
		earliest := called + d1 + f1
		for n, inv := range all {
			if settled < 0 || inv.Enter <= settled || inv.Freq != f1 {
				continue
			}
			judged++
			if inv.Enter+slack < earliest {
				stats.Case("restart-in-first", desc, true, []string{"second-schedule-judged"}, func() any { return map[string]any{"case": desc} })
				rt.Fatalf("VERIF-VIOLATION C18: Restart was called at %s (returned %s) while the first schedule was active and had been taken up by %s (100 invocations later); invocation #%d at the second schedule's frequency %s entered at %s, but the second schedule starts %s after the restart, so not before %s\ncase: %s",
					called, returned, settled, n, f1, inv.Enter, d1, earliest, desc)
			}
		}
		cls := []string{}
		if judged > 0 {
			cls = append(cls, "second-schedule-judged")
		}
		stats.Case("restart-in-first", desc, judged > 0, cls, func() any {
			return map[string]any{"case": desc, "invocations": len(all), "second_schedule_invocations_judged": judged}
		})
	})
}

// TestProp_NoStepBackWithoutRestart: a runner whose first schedule has a real start delay is
// restarted before that delay is over (Restart starts the first schedule at once). By the 100th
// invocation after Restart returned the request has been taken up (see above); if that is before the
// second schedule's first invocation, nothing is left that could take the runner back to the first
// schedule: from then on only the second frequency may be seen - in particular the start delay that
// was pending when Restart was called must not fire later.
func TestProp_NoStepBackWithoutRestart(t *testing.T) {
	rapid.Check(t, func(rt *rapid.T) {
		f0 := time.Duration(rapid.IntRange(1, 2).Draw(rt, "firstEveryMs")) * time.Millisecond
		d0 := time.Duration(rapid.IntRange(400, 700).Draw(rt, "firstAfterMs")) * time.Millisecond
		d1 := time.Duration(rapid.IntRange(250, 350).Draw(rt, "secondAfterMs")) * time.Millisecond
		f1 := f0 + time.Duration(rapid.IntRange(3, 10).Draw(rt, "secondEveryExtraMs"))*time.Millisecond
		restartAt := time.Duration(rapid.IntRange(1, 40).Draw(rt, "restartAtMs")) * time.Millisecond

		base := time.Now()
		var mu sync.Mutex
		var log []invocation
		fn := func(freq time.Duration) {
			enter := time.Since(base)
			mu.Lock()
			log = append(log, invocation{Enter: enter, Exit: enter, Freq: freq})
			mu.Unlock()
		}
		r, err := raterun.New(fn, []raterun.Schedule{{StartDelay: d0, Frequency: f0}, {StartDelay: d1, Frequency: f1}})
		if err != nil {
			rt.Fatalf("VERIF-INFRA: %v", err)
		}
		ctx, cancel := context.WithCancel(context.Background())
		defer cancel()
		r.Start(ctx)
		started := time.Since(base)
		time.Sleep(restartAt)
		r.Restart()
		returned := time.Since(base)
		time.Sleep(time.Until(base.Add(started + d0 + 150*time.Millisecond)))
		r.Stop()
		mu.Lock()
		all := append([]invocation{}, log...)
		mu.Unlock()

		desc := fmt.Sprintf("schedules {after %s, every %s}{after %s, every %s} Restart %s after Start", d0, f0, d1, f1, restartAt)
		after := 0
		var settled, second time.Duration = -1, -1
		for _, inv := range all {
			if inv.Enter >= returned {
				after++
				if after == 100 {
					settled = inv.Enter
				}
			}
			if inv.Freq == f1 && second < 0 {
				second = inv.Enter
			}
		}
		judged := settled >= 0 && second >= 0 && settled < second
		cls := []string{}
		if judged {
			cls = append(cls, "restart-settled-before-second-schedule")
		}
		stats.Case("no-step-back", desc, judged, cls, func() any {
			return map[string]any{"case": desc, "invocations": len(all), "restart_taken_up_by": settled.String(), "second_schedule_from": second.String()}
		})
		if !judged {
			return
		}
		for n, inv := range all {
			if inv.Enter > second && inv.Freq != f1 {
				rt.Fatalf("VERIF-VIOLATION C18: the only Restart (returned at %s) had been taken up by %s, the second schedule was active from %s; yet invocation #%d at %s was handed the first schedule's frequency %s again - the runner went back to its first schedule without a Restart\ncase: %s",
					returned, settled, second, n, inv.Enter, inv.Freq, desc)
			}
		}
	})
}

// TestLong_StopWaitsForASlowFunction: "for every function duration" - a function that is still
// executing seconds after Stop was called (a wedged output stream). Stop returns only when it has
// finished, however long that takes: 6 s here in the quick tier, 35 s in the thorough one.
func TestLong_StopWaitsForASlowFunction(t *testing.T) {
	d := time.Duration(vlib.ByTier(6, 35)) * time.Second
	var executing atomic.Int32
	entered := make(chan struct{})
	var once sync.Once
	fn := func(time.Duration) {
		executing.Add(1)
		// only the first call is slow: after Stop's cancellation the runner may still pick a due tick
		// over the cancellation a few times (see the scripts engine), which must not multiply the wait
		once.Do(func() {
			close(entered)
			time.Sleep(d)
		})
		executing.Add(-1)
	}
	r, err := raterun.New(fn, []raterun.Schedule{{StartDelay: 0, Frequency: 5 * time.Millisecond}})
	if err != nil {
		t.Fatalf("VERIF-INFRA: %v", err)
	}
	r.Start(context.Background())
	<-entered
	called := time.Now()
	r.Stop()
	waited := time.Since(called)
	running := executing.Load()
	stats.Case("slow-function", d.String(), true, []string{}, func() any {
		return map[string]any{"function_duration": d.String(), "stop_returned_after": waited.String()}
	})
	if running != 0 {
		t.Fatalf("VERIF-VIOLATION C18: Stop returned %s after it was called while the function (which takes %s) was still executing", waited.Round(time.Millisecond), d)
	}
}
