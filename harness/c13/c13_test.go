// Package c13 decides property C13: "jitter varies each tick but preserves the
// long-run total" for api.WithJitter.
//
// The oracle never looks at the closure's private balance. It rebuilds the
// carried remainder from the outside as (sum of rates so far - sum of outputs so
// far) and demands, for every tick and every prefix, what the property states:
//
//   - every output is an integer >= 0;
//   - with req = rate_t + carried: req < 0 => out == 0, otherwise
//     req*(1-j) - 0.5 <= out <= req*(1+j) + 0.5 (j = jitter/100);
//   - |sum(out) - sum(rate)| <= (j*Rmax + 0.5)/(1-j) at every prefix;
//   - jitter 0 => outputs identical to the rates.
//
// Derivation of the drift bound. Let b_t = sum(rate) - sum(out) after tick t
// (b_0 = 0) and req_t = rate_t + b_{t-1}, so b_t = req_t - out_t.
// If req_t >= 0 the per-tick interval gives |b_t| <= j*req_t + 0.5
// <= j*(rate_t + |b_{t-1}|) + 0.5. If req_t < 0 then out_t = 0 and
// b_t = req_t = rate_t + b_{t-1} with b_{t-1} < 0 <= rate_t, so |b_t| <= |b_{t-1}|.
// With B(R) = (j*R + 0.5)/(1-j): j*(R + B) + 0.5 = j*R + 0.5 + j*B = (1-j)*B + j*B = B,
// so |b_{t-1}| <= B(Rmax) implies |b_t| <= B(Rmax); B is monotone in R, hence
// Rmax may be the largest rate seen so far. TestEnum_OracleModel validates this
// numerically with adversarial factor streams (and shows the bound is attained).
//
// Float tolerance. All of rate, carried, req and out are integers below 2^53 and
// therefore exact in float64 and int64. The only inexact quantities are the
// factor 1 + cos(..)*m/100 (three roundings) and the product req*factor (one
// rounding), i.e. a relative error below 6*2^-53 ~ 7e-16 on a value <= 2*req,
// plus the same order in this oracle's own evaluation of req*(1+-j). The
// per-tick tolerance is 1e-12*(req+1) (more than 1000 times that error, far
// below the 0.5 rounding term for every reachable req); the drift tolerance is
// 1e-9*(B+1), which also covers the relative error of the float 1-j for the
// jitters generated here (1-j >= 1e-6).
package c13

import (
	"encoding/binary"
	"fmt"
	"hash/fnv"
	"math"
	"math/rand"
	"sort"
	"testing"
	"time"

	"pgregory.net/rapid"

	"github.com/form3tech-oss/f1/v2/internal/trigger/api"
	"github.com/form3tech-oss/f1/v2/verifharness/vlib"
)

var stats = vlib.NewStats("C13")

func TestMain(m *testing.M) { vlib.Main(m, stats) }

const (
	maxRate   = 1_000_000
	maxLen    = 5000
	maxJitter = 99.9999 // generated jitters stay <= this (< 100); keeps 1-j >= 1e-6
)

var t0 = time.Date(2024, 1, 1, 0, 0, 0, 0, time.UTC)

type jcase struct {
	Jitter float64
	Seed   int64
	Shape  string
	Rates  []int
	// StepsS: by how many seconds the time stamp of a call advances to the next call (cyclic; 0 = the
	// same instant again, negative = a clock stepped back); empty = one second per tick. The property
	// is about the sequence of calls, whatever their stamps.
	StepsS []int
}

func (c jcase) key() string {
	h := fnv.New64a()
	var b [8]byte
	binary.LittleEndian.PutUint64(b[:], math.Float64bits(c.Jitter))
	h.Write(b[:])
	binary.LittleEndian.PutUint64(b[:], uint64(c.Seed))
	h.Write(b[:])
	for _, r := range c.Rates {
		binary.LittleEndian.PutUint64(b[:], uint64(r))
		h.Write(b[:])
	}
	for _, r := range c.StepsS {
		binary.LittleEndian.PutUint64(b[:], uint64(r)+0x5bd1e995)
		h.Write(b[:])
	}
	return fmt.Sprintf("%d:%016x", len(c.Rates), h.Sum64())
}

func (c jcase) String() string {
	head := c.Rates
	suffix := ""
	if len(head) > 40 {
		head = head[:40]
		suffix = fmt.Sprintf(" ...(%d more)", len(c.Rates)-40)
	}
	return fmt.Sprintf("jitter=%v seed=%d shape=%s len=%d rates=%v%s timestamp-steps-s=%v", c.Jitter, c.Seed, c.Shape, len(c.Rates), head, suffix, c.StepsS)
}

// ---- oracle ---------------------------------------------------------------------------

type verdict struct {
	Msg        string // "" = property held
	Differ     int    // outputs that differ from their rate
	ClampTicks int    // ticks with req < 0 (clamp path)
	CarryTicks int    // ticks entered with a non-zero carried remainder
	NearLo     int    // outputs in the lowest 1% of a wide interval
	NearHi     int    // outputs in the highest 1% of a wide interval
	MaxDrift   int64
	Bound      float64 // bound at the end of the sequence
	DriftFrac  float64 // max over prefixes of |drift| / bound
	SumRate    int64
	SumOut     int64
}

// judge is the property statement. It knows nothing about how outs were produced.
func judge(jitter float64, rates, outs []int) verdict {
	var v verdict
	if len(outs) != len(rates) {
		v.Msg = fmt.Sprintf("%d outputs for %d ticks", len(outs), len(rates))
		return v
	}
	j := jitter / 100
	var sumR, sumO int64
	rmax := 0
	for i, r := range rates {
		o := outs[i]
		bal := sumR - sumO // carried remainder, reconstructed outside the code
		req := int64(r) + bal
		if bal != 0 {
			v.CarryTicks++
		}
		if o != r {
			v.Differ++
		}
		switch {
		case o < 0:
			v.Msg = fmt.Sprintf("tick %d: output %d is negative (rate %d, carried %d)", i, o, r, bal)
			return v
		case jitter == 0 && o != r:
			v.Msg = fmt.Sprintf("tick %d: zero jitter must be the identity, rate %d -> output %d", i, r, o)
			return v
		case req < 0:
			v.ClampTicks++
			if o != 0 {
				v.Msg = fmt.Sprintf("tick %d: rate %d + carried %d = %d < 0 must emit 0, got %d", i, r, bal, req, o)
				return v
			}
		default:
			fr := float64(req)
			tol := 1e-12 * (fr + 1)
			lo := fr*(1-j) - 0.5 - tol
			hi := fr*(1+j) + 0.5 + tol
			if float64(o) < lo || float64(o) > hi {
				v.Msg = fmt.Sprintf("tick %d: output %d outside [%.6f, %.6f] = (rate %d + carried %d) -/+ %v%% -/+ rounding",
					i, o, lo, hi, r, bal, jitter)
				return v
			}
			if w := j * fr; w >= 20 {
				if float64(o) <= fr*(1-j)+0.5+0.01*w {
					v.NearLo++
				}
				if float64(o) >= fr*(1+j)-0.5-0.01*w {
					v.NearHi++
				}
			}
		}
		sumR += int64(r)
		sumO += int64(o)
		if r > rmax {
			rmax = r
		}
		bound := (j*float64(rmax) + 0.5) / (1 - j)
		drift := sumO - sumR
		if drift < 0 {
			drift = -drift
		}
		if float64(drift) > bound+1e-9*(bound+1) {
			v.Msg = fmt.Sprintf("prefix 0..%d: |sum(out) %d - sum(rate) %d| = %d exceeds (j*Rmax+0.5)/(1-j) = %.6f (Rmax %d, jitter %v%%)",
				i, sumO, sumR, drift, bound, rmax, jitter)
			return v
		}
		if drift > v.MaxDrift {
			v.MaxDrift = drift
		}
		if f := float64(drift) / bound; f > v.DriftFrac {
			v.DriftFrac = f
		}
		v.Bound = bound
	}
	v.SumRate, v.SumOut = sumR, sumO
	return v
}

// ---- running the real code ------------------------------------------------------------

// runReal wraps a scripted rate function (it answers with the rate of the tick in
// progress and checks that it is asked about that tick's time stamp, so the wrapper
// may call it as often as it likes) and collects one output per tick.
func runReal(c jcase) (outs []int, msg string) {
	defer func() {
		if r := recover(); r != nil {
			msg = fmt.Sprintf("WithJitter panicked after %d outputs: %v", len(outs), r)
		}
	}()
	//nolint:staticcheck // effective: the harness module declares go 1.23
	rand.Seed(c.Seed)
	bad := ""
	cur, stamp := 0, t0 // the tick in progress and the time it is asked at
	rateFn := func(now time.Time) int {
		if !now.Equal(stamp) {
			if bad == "" {
				bad = fmt.Sprintf("rate function asked for time %v which is not the tick time %v it was called with", now, stamp)
			}
			return 0
		}
		return c.Rates[cur]
	}
	fn := api.WithJitter(rateFn, c.Jitter)
	outs = make([]int, 0, len(c.Rates))
	for i := range c.Rates {
		cur = i
		outs = append(outs, fn(stamp))
		if bad != "" {
			return outs, bad
		}
		step := 1
		if len(c.StepsS) > 0 {
			step = c.StepsS[i%len(c.StepsS)]
		}
		stamp = stamp.Add(time.Duration(step) * time.Second)
	}
	return outs, ""
}

func check(c jcase) verdict {
	outs, msg := runReal(c)
	if msg != "" {
		return verdict{Msg: msg}
	}
	return judge(c.Jitter, c.Rates, outs)
}

func nontrivial(c jcase, v verdict) bool {
	return c.Jitter >= 1 && len(c.Rates) >= 50 && v.Differ >= 1
}

func record(section string, c jcase, v verdict) {
	cls := []string{"shape-" + c.Shape}
	if len(c.StepsS) > 0 {
		cls = append(cls, "unpunctual-timestamps")
	}
	nt := nontrivial(c, v)
	if nt {
		cls = append(cls, "nontrivial")
	}
	switch {
	case c.Jitter == 0:
		cls = append(cls, "jitter-0")
	case c.Jitter < 1:
		cls = append(cls, "jitter-below-1")
	case c.Jitter == 1:
		cls = append(cls, "jitter-1")
	case c.Jitter == 50:
		cls = append(cls, "jitter-50")
	case c.Jitter == 99.9:
		cls = append(cls, "jitter-99.9")
	case c.Jitter > 99.9:
		cls = append(cls, "jitter-above-99.9")
	default:
		cls = append(cls, "jitter-other")
	}
	n := len(c.Rates)
	switch {
	case n == 1:
		cls = append(cls, "len-1")
	case n < 50:
		cls = append(cls, "len-2..49")
	case n < 1000:
		cls = append(cls, "len-50..999")
	default:
		cls = append(cls, "len-1000..5000")
	}
	zr, spike, rmax := shapeFacts(c.Rates)
	if zr {
		cls = append(cls, "zero-run>=10")
	}
	if spike {
		cls = append(cls, "spike-after-zero")
	}
	if rmax == maxRate {
		cls = append(cls, "rmax-1e6")
	}
	if rmax == 0 {
		cls = append(cls, "all-zero")
	}
	if v.ClampTicks > 0 {
		cls = append(cls, "clamp-path")
	}
	if v.CarryTicks > 0 {
		cls = append(cls, "carry-used")
	}
	if v.NearLo > 0 {
		cls = append(cls, "near-lower-edge")
	}
	if v.NearHi > 0 {
		cls = append(cls, "near-upper-edge")
	}
	if v.DriftFrac >= 0.5 {
		cls = append(cls, "drift>=half-bound")
	}
	stats.Case(section, c.key(), nt, cls, func() any {
		head := c.Rates
		if len(head) > 16 {
			head = head[:16]
		}
		return map[string]any{
			"jitter": c.Jitter, "seed": c.Seed, "shape": c.Shape, "len": n, "rates_head": head, "rmax": rmax,
			"sum_rate": v.SumRate, "sum_out": v.SumOut, "max_abs_drift": v.MaxDrift, "bound_at_end": v.Bound,
			"outputs_differing": v.Differ, "clamp_ticks": v.ClampTicks,
		}
	})
}

func shapeFacts(rates []int) (zeroRun, spike bool, rmax int) {
	run := 0
	for i, r := range rates {
		if r > rmax {
			rmax = r
		}
		if r == 0 {
			run++
			if run >= 10 {
				zeroRun = true
			}
		} else {
			if i > 0 && rates[i-1] == 0 && r >= 1000 {
				spike = true
			}
			run = 0
		}
	}
	return
}

// ---- generators -----------------------------------------------------------------------

func genJitter(t *rapid.T) float64 {
	return rapid.OneOf(
		rapid.SampledFrom([]float64{0, 1, 1, 50, 50, 99.9, 99.9, 0.01, 0.5, 2, 10, 20, 33.3, 75, 99, 99.99, maxJitter}),
		rapid.Float64Range(0, maxJitter),
		rapid.Float64Range(1, maxJitter),
		rapid.Map(rapid.Float64Range(1, 100), func(x float64) float64 { return math.Min(101-x, maxJitter) }), // dense towards 100
		rapid.Map(rapid.IntRange(100, 999_999), func(n int) float64 { return float64(n) / 10000 }),           // 4 decimals in [0.01, 99.9999]
		rapid.Map(rapid.IntRange(1, 99), func(n int) float64 { return float64(n) }),
	).Draw(t, "jitter")
}

func genLen(t *rapid.T) int {
	return rapid.OneOf(
		rapid.IntRange(1, 49),
		rapid.IntRange(50, 500),
		rapid.IntRange(50, 500),
		rapid.IntRange(50, 500),
		rapid.IntRange(500, maxLen),
		rapid.IntRange(500, maxLen),
		rapid.Map(rapid.IntRange(500, maxLen), func(n int) int { return maxLen + 500 - n }), // dense towards the maximum
		rapid.SampledFrom([]int{1, 2, 49, 50, maxLen}),
	).Draw(t, "len")
}

func genMagnitude(t *rapid.T, label string) int {
	return rapid.OneOf(
		rapid.IntRange(0, 3),
		rapid.IntRange(0, 100),
		rapid.IntRange(0, 10_000),
		rapid.IntRange(0, maxRate),
		rapid.SampledFrom([]int{1, 2, 10, 1000, maxRate - 1, maxRate}),
	).Draw(t, label)
}

// noise fills n values in [0,hi] from a PRNG seeded by a rapid draw (a private
// source: the global stream used by WithJitter is not touched).
func noise(t *rapid.T, n, hi int, zeroEvery int) []int {
	src := rand.New(rand.NewSource(rapid.Int64().Draw(t, "noiseSeed")))
	out := make([]int, n)
	for i := range out {
		if zeroEvery > 0 && src.Intn(zeroEvery) != 0 {
			continue
		}
		out[i] = src.Intn(hi + 1)
	}
	return out
}

func genRates(t *rapid.T) ([]int, string) {
	shape := rapid.SampledFrom([]string{"constant", "segments", "segments", "sparse-spikes", "sparse-spikes",
		"elementwise", "tiny", "noise", "ramp", "burst-then-zero"}).Draw(t, "shape")
	switch shape {
	case "constant":
		n := genLen(t)
		r := genMagnitude(t, "rate")
		out := make([]int, n)
		for i := range out {
			out[i] = r
		}
		return out, shape
	case "elementwise":
		return rapid.SliceOfN(rapid.OneOf(rapid.Just(0), rapid.IntRange(0, 10), rapid.IntRange(0, 1000),
			rapid.IntRange(0, maxRate)), 1, 300).Draw(t, "rates"), shape
	case "tiny":
		if rapid.Bool().Draw(t, "long") {
			return noise(t, genLen(t), rapid.IntRange(1, 3).Draw(t, "hi"), 0), shape
		}
		return rapid.SliceOfN(rapid.IntRange(0, 3), 1, 300).Draw(t, "rates"), shape
	case "noise":
		return noise(t, genLen(t), genMagnitude(t, "hi"), rapid.SampledFrom([]int{0, 0, 2, 10}).Draw(t, "zeroEvery")), shape
	case "ramp":
		n := genLen(t)
		a, b := genMagnitude(t, "from"), genMagnitude(t, "to")
		out := make([]int, n)
		for i := range out {
			if n == 1 {
				out[i] = a
			} else {
				out[i] = a + (b-a)*i/(n-1)
			}
		}
		return out, shape
	case "sparse-spikes":
		n := genLen(t)
		out := make([]int, n)
		k := rapid.IntRange(1, 12).Draw(t, "spikes")
		for s := 0; s < k; s++ {
			pos := rapid.IntRange(0, n-1).Draw(t, "pos")
			out[pos] = rapid.OneOf(rapid.IntRange(1000, maxRate), rapid.Just(maxRate), rapid.IntRange(1, 1000)).Draw(t, "spike")
		}
		return out, shape
	case "burst-then-zero":
		// a block of load followed by silence: the over-shoot of the last busy tick
		// leaves a negative remainder that meets rate 0 (clamp path)
		n := genLen(t)
		busy := rapid.IntRange(1, n).Draw(t, "busy")
		r := genMagnitude(t, "rate")
		out := make([]int, n)
		for i := 0; i < busy; i++ {
			out[i] = r
		}
		return out, shape
	default: // segments: piecewise schedule like staged/file mode
		target := genLen(t)
		var out []int
		for len(out) < target {
			left := target - len(out)
			n := rapid.IntRange(1, left).Draw(t, "segLen")
			kind := rapid.SampledFrom([]string{"zero", "zero", "const", "const", "noise", "ramp", "spike"}).Draw(t, "segKind")
			switch kind {
			case "zero":
				out = append(out, make([]int, n)...)
			case "const":
				r := genMagnitude(t, "segRate")
				for i := 0; i < n; i++ {
					out = append(out, r)
				}
			case "noise":
				out = append(out, noise(t, n, genMagnitude(t, "segHi"), 0)...)
			case "ramp":
				a, b := genMagnitude(t, "segFrom"), genMagnitude(t, "segTo")
				for i := 0; i < n; i++ {
					out = append(out, a+(b-a)*i/n)
				}
			case "spike":
				out = append(out, rapid.IntRange(1000, maxRate).Draw(t, "segSpike"))
			}
		}
		return out, "segments"
	}
}

func genCase(t *rapid.T) jcase {
	var c jcase
	c.Jitter = genJitter(t)
	c.Rates, c.Shape = genRates(t)
	c.Seed = rapid.Int64().Draw(t, "randSeed")
	if rapid.IntRange(0, 3).Draw(t, "unpunctual") == 0 {
		c.StepsS = rapid.SliceOfN(rapid.SampledFrom([]int{0, 0, 1, 1, 1, 2, 60, -1}), 1, 6).Draw(t, "timestampSteps")
	}
	return c
}

// ---- properties -----------------------------------------------------------------------

func TestProp_JitterSequences(t *testing.T) {
	rapid.Check(t, func(rt *rapid.T) {
		c := genCase(rt)
		if len(c.Rates) < 1 || len(c.Rates) > maxLen {
			rt.Fatalf("VERIF-INFRA: generator produced length %d", len(c.Rates))
		}
		v := check(c)
		record("sequences", c, v)
		if v.Msg != "" {
			rt.Fatalf("VERIF-VIOLATION C13: %s\n  case: %s", v.Msg, c)
		}
	})
}

// TestProp_ZeroJitterIdentity: jitter 0 on any sequence returns exactly the
// rates, whatever the random stream is.
func TestProp_ZeroJitterIdentity(t *testing.T) {
	rapid.Check(t, func(rt *rapid.T) {
		c := genCase(rt)
		c.Jitter = 0
		c.Shape = "id-" + c.Shape
		v := check(c)
		// by the stated rule (jitter >= 1 %) these cases are all trivial; they are counted as such
		record("identity", c, v)
		if v.Msg != "" {
			rt.Fatalf("VERIF-VIOLATION C13: %s\n  case: %s", v.Msg, c)
		}
		if v.Differ != 0 || v.SumOut != v.SumRate {
			rt.Fatalf("VERIF-VIOLATION C13: zero jitter changed %d outputs (sum %d vs %d)\n  case: %s", v.Differ, v.SumOut, v.SumRate, c)
		}
	})
}

// TestEnum_ShortSequences: every rate sequence of length 1..4 over a small
// alphabet x a jitter lattice, each under several random streams (the inputs
// are enumerated completely; the random outcomes are sampled).
func TestEnum_ShortSequences(t *testing.T) {
	alphabet := []int{0, 1, 2, 7, 1000, maxRate}
	jitters := []float64{0, 0.5, 1, 50, 99.9, maxJitter}
	const seeds = 6
	n := 0
	var rec func(prefix []int, depth int)
	rec = func(prefix []int, depth int) {
		if len(prefix) > 0 {
			for _, jit := range jitters {
				for s := int64(0); s < seeds; s++ {
					c := jcase{Jitter: jit, Seed: vlib.CaseSeed() + 7919*s + int64(n), Shape: "enum", Rates: append([]int(nil), prefix...)}
					v := check(c)
					record("short", c, v)
					n++
					if v.Msg != "" {
						t.Fatalf("VERIF-VIOLATION C13: %s\n  case: %s", v.Msg, c)
					}
				}
			}
		}
		if depth == 4 {
			return
		}
		for _, a := range alphabet {
			rec(append(prefix, a), depth+1)
		}
	}
	rec(nil, 0)
	stats.Note("short_sequences_inputs_exhaustive", true)
	stats.Note("short_sequences_cases", int64(n))
}

// ---- oracle self-check against a reference model --------------------------------------

type mutant int

const (
	mNone mutant = iota
	mDropBalance
	mBalanceFromProposed
	mNoClamp
	mTenfold
	mFloor
	mSkipZeroRate
	mBalanceUnclamped
)

var mutantNames = map[mutant]string{
	mDropBalance: "balance dropped", mBalanceFromProposed: "balance from proposed", mNoClamp: "no clamp at 0",
	mTenfold: "multiple/10", mFloor: "floor instead of round", mSkipZeroRate: "rate 0 short-circuits to 0",
	mBalanceUnclamped: "balance from the unclamped rounding",
}

// model is the documented mechanism (multiply rate+balance by a factor in
// [1-j,1+j], round, clamp at 0, carry the difference) with the factor supplied
// by the caller as u in [-1,1], so extreme outcomes can be forced.
func model(rates []int, jitter float64, u func(i int) float64, m mutant) []int {
	outs := make([]int, len(rates))
	balance := 0.0
	div := 100.0
	if m == mTenfold {
		div = 10
	}
	for i, r := range rates {
		if m == mSkipZeroRate && r == 0 {
			continue
		}
		factor := 1 + u(i)*jitter/div
		req := float64(r) + balance
		proposed := req * factor
		rounded := math.Round(proposed)
		if m == mFloor {
			rounded = math.Floor(proposed)
		}
		unclamped := rounded
		if m != mNoClamp {
			rounded = math.Max(0, rounded)
		}
		switch m {
		case mDropBalance:
			balance = 0
		case mBalanceFromProposed:
			balance = proposed - rounded
		case mBalanceUnclamped:
			balance = req - unclamped
		default:
			balance = req - rounded
		}
		outs[i] = int(rounded)
	}
	return outs
}

// TestEnum_OracleModel validates the oracle itself: (a) the correct model passes
// under adversarial factor streams (always lowest, always highest, alternating,
// remainder-maximising, random) - the oracle is sound for every outcome of the
// variation, not only for the cos-of-uniform stream the real code draws;
// (b) the lowest-factor stream on a constant rate reaches >= 90 % of the drift
// bound - the bound is not slack; (c) each mutated model is rejected.
// A failure here is a harness defect, not a violation of C13.
func TestEnum_OracleModel(t *testing.T) {
	src := rand.New(rand.NewSource(vlib.CaseSeed()))
	streams := map[string]func(i int) float64{
		"lowest":      func(int) float64 { return -1 },
		"highest":     func(int) float64 { return 1 },
		"alternating": func(i int) float64 { return float64(1 - 2*(i%2)) },
		"two-low-one-high": func(i int) float64 {
			if i%3 == 2 {
				return 1
			}
			return -1
		},
		"random":   func(int) float64 { return math.Cos(src.Float64() * 2 * math.Pi) },
		"uniform":  func(int) float64 { return 2*src.Float64() - 1 },
		"extremes": func(int) float64 { return float64(1 - 2*src.Intn(2)) },
	}
	mk := func(n int, f func(i int) int) []int {
		out := make([]int, n)
		for i := range out {
			out[i] = f(i)
		}
		return out
	}
	inputs := map[string][]int{
		"const-1000":   mk(3000, func(int) int { return 1000 }),
		"const-1e6":    mk(5000, func(int) int { return maxRate }),
		"const-3":      mk(5000, func(int) int { return 3 }),
		"const-1":      mk(5000, func(int) int { return 1 }),
		"burst-zero":   mk(2000, func(i int) int { return map[bool]int{true: 5000, false: 0}[i%40 < 5] }),
		"spikes":       mk(3000, func(i int) int { return map[bool]int{true: maxRate, false: 0}[i%500 == 17] }),
		"ramp":         mk(2000, func(i int) int { return i * 400 }),
		"noise":        mk(4000, func(int) int { return src.Intn(2000) }),
		"noise-sparse": mk(4000, func(int) int { return src.Intn(3) * src.Intn(2) * src.Intn(500) }),
	}
	jitters := []float64{0, 0.01, 1, 10, 50, 90, 99.9, maxJitter}
	accepted := 0
	for _, in := range sortedKeys(inputs) {
		rates := inputs[in]
		for _, jit := range jitters {
			for _, sn := range sortedKeys(streams) {
				u := streams[sn]
				v := judge(jit, rates, model(rates, jit, u, mNone))
				if v.Msg != "" {
					t.Fatalf("VERIF-INFRA: oracle rejects the reference model (input %s, jitter %v, stream %s): %s", in, jit, sn, v.Msg)
				}
				accepted++
			}
		}
	}
	// tightness of the drift bound
	for _, jit := range []float64{1, 10, 50, 90} {
		rates := inputs["const-1000"]
		v := judge(jit, rates, model(rates, jit, streams["lowest"], mNone))
		if v.DriftFrac < 0.9 {
			t.Fatalf("VERIF-INFRA: lowest-factor stream reaches only %.3f of the drift bound at jitter %v", v.DriftFrac, jit)
		}
	}
	// every mutant must be rejected on this battery under the cos-of-uniform stream
	for m := mDropBalance; m <= mBalanceUnclamped; m++ {
		name := mutantNames[m]
		rejected, tried := 0, 0
		for _, in := range sortedKeys(inputs) {
			rates := inputs[in]
			for _, jit := range []float64{1, 10, 50, 99.9} {
				tried++
				if judge(jit, rates, model(rates, jit, streams["random"], m)).Msg != "" {
					rejected++
				}
			}
		}
		if rejected == 0 {
			t.Fatalf("VERIF-INFRA: the oracle accepts the mutated model %q on all %d battery runs", name, tried)
		}
		stats.Note("oracle_model_mutant_rejections/"+name, int64(rejected))
	}
	stats.Note("oracle_model_accepted_runs", int64(accepted))
}

func sortedKeys[V any](m map[string]V) []string {
	keys := make([]string, 0, len(m))
	for k := range m {
		keys = append(keys, k)
	}
	sort.Strings(keys)
	return keys
}

// ---- regressions / hostile constants --------------------------------------------------

func rep(n, r int) []int {
	out := make([]int, n)
	for i := range out {
		out[i] = r
	}
	return out
}

func TestRegress(t *testing.T) {
	burst := append(rep(5, 100000), rep(200, 0)...)
	spikes := make([]int, 5000)
	for i := range spikes {
		if i%250 == 3 {
			spikes[i] = maxRate
		}
	}
	table := []jcase{
		{Jitter: 0, Rates: []int{0}},
		{Jitter: 0, Rates: []int{maxRate, 0, 1, 2, 3}},
		{Jitter: 99.9, Rates: []int{1}},
		{Jitter: 1, Rates: rep(5000, 10)},         // rounding dominated: floor/trunc instead of round shows here
		{Jitter: 50, Rates: rep(5000, 3)},         // rounding remainders must be carried too
		{Jitter: 50, Rates: rep(5000, 1)},         //
		{Jitter: 1, Rates: rep(5000, 1000)},       // drift of a memoryless jitter exceeds 10.6 within a few ticks
		{Jitter: 20, Rates: rep(5000, maxRate)},   //
		{Jitter: 99.9, Rates: rep(5000, maxRate)}, // largest reachable remainder
		{Jitter: maxJitter, Rates: rep(5000, maxRate)},
		{Jitter: 50, Rates: burst},   // negative remainder meets rate 0: clamp path
		{Jitter: 99.9, Rates: burst}, //
		{Jitter: 75, Rates: spikes},
		{Jitter: 33.3, Rates: rep(5000, 0)},
		{Jitter: 0.01, Rates: rep(5000, 999_999)},
	}
	for i, c := range table {
		for s := int64(1); s <= 20; s++ {
			c.Seed = s*1_000_003 + int64(i)
			c.Shape = "regress"
			if v := check(c); v.Msg != "" {
				t.Errorf("VERIF-VIOLATION C13: %s\n  case: %s", v.Msg, c)
				break
			}
		}
	}
}
