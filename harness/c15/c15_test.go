// Package c15 decides property C15: config-file plans keep exactly the
// unfinished stages, in file order, with defaults applied; stages run one
// after another with their parameters in the environment.
//
// Parse half (this file): a config is generated as a Go struct, written as
// YAML by a small writer, parsed by file.ParseConfigFile at a drawn restart
// instant and compared with a reference model written from the documented
// rules. Rate functions are compared differentially against the per-mode
// Calculate*Rate functions called with the model's arguments.
//
// Run half: c15_run_test.go.
package c15

import (
	"fmt"
	"math/rand"
	"os"
	"path/filepath"
	"reflect"
	"sort"
	"strconv"
	"strings"
	"testing"
	"time"

	"gopkg.in/yaml.v3"
	"pgregory.net/rapid"

	"github.com/form3tech-oss/f1/v2/internal/trigger/api"
	"github.com/form3tech-oss/f1/v2/internal/trigger/constant"
	"github.com/form3tech-oss/f1/v2/internal/trigger/file"
	"github.com/form3tech-oss/f1/v2/internal/trigger/gaussian"
	"github.com/form3tech-oss/f1/v2/internal/trigger/ramp"
	"github.com/form3tech-oss/f1/v2/internal/trigger/staged"
	"github.com/form3tech-oss/f1/v2/internal/ui"
	"github.com/form3tech-oss/f1/v2/verifharness/vlib"
)

var stats = vlib.NewStats("C15")

func TestMain(m *testing.M) { vlib.Main(m, stats) }

const (
	mConstant = "constant"
	mRamp     = "ramp"
	mStaged   = "staged"
	mGaussian = "gaussian"
	mUsers    = "users"
)

var allModes = []string{mConstant, mRamp, mStaged, mGaussian, mUsers}

// seedWorks: rand.Seed still reseeds the global source (main module declares
// go <= 1.23). Only then are non-zero jitter and the "random" distribution
// generated: both sides of the differential comparison are evaluated after
// the same rand.Seed call, so they see the same stream.
var seedWorks = func() bool {
	rand.Seed(42) //nolint:staticcheck
	a, b := rand.Int63(), rand.Int63()
	rand.Seed(42) //nolint:staticcheck
	return a == rand.Int63() && b == rand.Int63()
}()

// ---------------------------------------------------------------------------
// the config as a value (same YAML shape as the documented file format)

type stageCfg struct {
	Mode               *string            `yaml:"mode"`
	StartRate          *string            `yaml:"start-rate"`
	EndRate            *string            `yaml:"end-rate"`
	Rate               *string            `yaml:"rate"`
	Distribution       *string            `yaml:"distribution"`
	Weights            *string            `yaml:"weights"`
	Stages             *string            `yaml:"stages"`
	Concurrency        *int               `yaml:"concurrency"`
	Jitter             *float64           `yaml:"jitter"`
	Volume             *float64           `yaml:"volume"`
	Duration           *time.Duration     `yaml:"duration"`
	IterationFrequency *time.Duration     `yaml:"iteration-frequency"`
	Repeat             *time.Duration     `yaml:"repeat"`
	Peak               *time.Duration     `yaml:"peak"`
	StandardDeviation  *time.Duration     `yaml:"standard-deviation"`
	Parameters         *map[string]string `yaml:"parameters"`
}

type limitsCfg struct {
	MaxDuration     *time.Duration `yaml:"max-duration"`
	Concurrency     *int           `yaml:"concurrency"`
	MaxIterations   *uint64        `yaml:"max-iterations"`
	MaxFailures     *uint64        `yaml:"max-failures"`
	MaxFailuresRate *int           `yaml:"max-failures-rate"`
	IgnoreDropped   *bool          `yaml:"ignore-dropped"`
}

type scheduleCfg struct {
	StageStart *time.Time `yaml:"stage-start"`
}

type planCfg struct {
	Scenario *string     `yaml:"scenario"`
	Default  stageCfg    `yaml:"default"`
	Limits   limitsCfg   `yaml:"limits"`
	Schedule scheduleCfg `yaml:"schedule"`
	Stages   []stageCfg  `yaml:"stages"`
}

func ptr[T any](v T) *T { return &v }

// ---------------------------------------------------------------------------
// YAML writer

type style struct {
	Quote   int  // 0 plain where safe, 1 double quotes, 2 single quotes
	DurForm int  // 0 Duration.String(), 1 integer nanoseconds with unit, 2 milliseconds when exact
	Flow    bool // parameters as a flow mapping
}

func plainSafe(s string) bool {
	if s == "" {
		return false
	}
	switch strings.ToLower(s) {
	case "null", "true", "false", "yes", "no", "on", "off", "y", "n", "~", ".nan", ".inf":
		return false
	}
	for i, r := range s {
		ok := r >= 'a' && r <= 'z' || r >= 'A' && r <= 'Z' || r >= '0' && r <= '9' || r == '_' || r == '/' || r == '.' ||
			(i > 0 && (r == ':' || r == ',' || r == '-'))
		if !ok {
			return false
		}
	}
	return !strings.HasSuffix(s, ":")
}

func (st style) str(s string) string {
	switch {
	case st.Quote == 1 || (st.Quote == 0 && !plainSafe(s)):
		return strconv.Quote(s)
	case st.Quote == 2:
		return "'" + strings.ReplaceAll(s, "'", "''") + "'"
	}
	return s
}

func (st style) dur(d time.Duration) string {
	switch {
	case st.DurForm == 1:
		return fmt.Sprintf("%dns", int64(d))
	case st.DurForm == 2 && d%time.Millisecond == 0:
		return fmt.Sprintf("%dms", int64(d/time.Millisecond))
	}
	return d.String()
}

func fl(v float64) string { return strconv.FormatFloat(v, 'f', -1, 64) }

func writeStageFields(b *strings.Builder, ind string, s stageCfg, st style) {
	line := func(k, v string) { fmt.Fprintf(b, "%s%s: %s\n", ind, k, v) }
	if s.Duration != nil {
		line("duration", st.dur(*s.Duration))
	}
	if s.Mode != nil {
		line("mode", st.str(*s.Mode))
	}
	if s.Rate != nil {
		line("rate", st.str(*s.Rate))
	}
	if s.StartRate != nil {
		line("start-rate", st.str(*s.StartRate))
	}
	if s.EndRate != nil {
		line("end-rate", st.str(*s.EndRate))
	}
	if s.Stages != nil {
		line("stages", st.str(*s.Stages))
	}
	if s.IterationFrequency != nil {
		line("iteration-frequency", st.dur(*s.IterationFrequency))
	}
	if s.Volume != nil {
		line("volume", fl(*s.Volume))
	}
	if s.Repeat != nil {
		line("repeat", st.dur(*s.Repeat))
	}
	if s.Peak != nil {
		line("peak", st.dur(*s.Peak))
	}
	if s.Weights != nil {
		line("weights", st.str(*s.Weights))
	}
	if s.StandardDeviation != nil {
		line("standard-deviation", st.dur(*s.StandardDeviation))
	}
	if s.Concurrency != nil {
		line("concurrency", strconv.Itoa(*s.Concurrency))
	}
	if s.Jitter != nil {
		line("jitter", fl(*s.Jitter))
	}
	if s.Distribution != nil {
		line("distribution", st.str(*s.Distribution))
	}
	if s.Parameters != nil {
		keys := sortedKeys(*s.Parameters)
		switch {
		case len(keys) == 0:
			line("parameters", "{}")
		case st.Flow:
			parts := make([]string, 0, len(keys))
			for _, k := range keys {
				parts = append(parts, fmt.Sprintf("%s: %s", k, strconv.Quote((*s.Parameters)[k])))
			}
			line("parameters", "{"+strings.Join(parts, ", ")+"}")
		default:
			fmt.Fprintf(b, "%sparameters:\n", ind)
			for _, k := range keys {
				fmt.Fprintf(b, "%s  %s: %s\n", ind, k, st.str((*s.Parameters)[k]))
			}
		}
	}
}

func sortedKeys(m map[string]string) []string {
	keys := make([]string, 0, len(m))
	for k := range m {
		keys = append(keys, k)
	}
	sort.Strings(keys)
	return keys
}

func (c planCfg) yaml(st style) string {
	var b strings.Builder
	if c.Scenario != nil {
		fmt.Fprintf(&b, "scenario: %s\n", st.str(*c.Scenario))
	}
	if !reflect.DeepEqual(c.Default, stageCfg{}) {
		b.WriteString("default:\n")
		writeStageFields(&b, "  ", c.Default, st)
	}
	if c.Limits != (limitsCfg{}) {
		b.WriteString("limits:\n")
		if c.Limits.MaxDuration != nil {
			fmt.Fprintf(&b, "  max-duration: %s\n", st.dur(*c.Limits.MaxDuration))
		}
		if c.Limits.Concurrency != nil {
			fmt.Fprintf(&b, "  concurrency: %d\n", *c.Limits.Concurrency)
		}
		if c.Limits.MaxIterations != nil {
			fmt.Fprintf(&b, "  max-iterations: %d\n", *c.Limits.MaxIterations)
		}
		if c.Limits.MaxFailures != nil {
			fmt.Fprintf(&b, "  max-failures: %d\n", *c.Limits.MaxFailures)
		}
		if c.Limits.MaxFailuresRate != nil {
			fmt.Fprintf(&b, "  max-failures-rate: %d\n", *c.Limits.MaxFailuresRate)
		}
		if c.Limits.IgnoreDropped != nil {
			fmt.Fprintf(&b, "  ignore-dropped: %v\n", *c.Limits.IgnoreDropped)
		}
	}
	if c.Schedule.StageStart != nil {
		ts := c.Schedule.StageStart.Format(time.RFC3339Nano)
		if st.Quote != 0 {
			ts = strconv.Quote(ts)
		}
		fmt.Fprintf(&b, "schedule:\n  stage-start: %s\n", ts)
	}
	if len(c.Stages) > 0 {
		b.WriteString("stages:\n")
		for _, s := range c.Stages {
			var sb strings.Builder
			writeStageFields(&sb, "    ", s, st)
			body := sb.String()
			if body == "" {
				b.WriteString("  - {}\n")
				continue
			}
			b.WriteString("  - " + body[4:])
		}
	}
	return b.String()
}

// writerSelfCheck parses the text back with yaml.v3 into the harness's own
// struct: the writer must render exactly the generated value (harness check,
// not a verdict on f1).
func writerSelfCheck(c planCfg, text string) error {
	var back planCfg
	if err := yaml.Unmarshal([]byte(text), &back); err != nil {
		return fmt.Errorf("yaml.v3 rejects the generated text: %w", err)
	}
	a, b := c, back
	if (a.Schedule.StageStart == nil) != (b.Schedule.StageStart == nil) ||
		(a.Schedule.StageStart != nil && !a.Schedule.StageStart.Equal(*b.Schedule.StageStart)) {
		return fmt.Errorf("stage-start does not round-trip: %v vs %v", a.Schedule.StageStart, b.Schedule.StageStart)
	}
	a.Schedule, b.Schedule = scheduleCfg{}, scheduleCfg{}
	if !reflect.DeepEqual(a, b) {
		return fmt.Errorf("generated config does not round-trip through the writer")
	}
	return nil
}

// ---------------------------------------------------------------------------
// reference model (documented rules: README "file" mode, config-file-example.yaml)

type wantStage struct {
	Index     int
	Mode      string
	Duration  time.Duration
	Params    map[string]string
	Users     int
	Jitter    float64
	Rate      string
	StartRate string
	EndRate   string
	Dist      string
	Weights   string
	Stages    string
	Volume    float64
	Freq      time.Duration
	Repeat    time.Duration
	Peak      time.Duration
	Stddev    time.Duration
	Inherited []string // fields taken from the default section (or limits)
}

type wantPlan struct {
	Reject         string // non-empty: the config must be rejected, with the reason
	SkippedMissing string // a required mode field is missing only in a stage that is not kept (not judged)
	Scenario       string
	MaxDuration    time.Duration
	Concurrency    int
	MaxIterations  uint64
	MaxFailures    uint64
	MaxFailRate    int
	IgnoreDropped  bool
	Total          time.Duration
	Ends           []time.Duration // cumulative scheduled end of every stage
	Kept           []wantStage
	AnyInherited   bool
}

func take[T any](own, def *T) (*T, bool) {
	if own != nil {
		return own, false
	}
	return def, def != nil
}

// reference evaluates the documented rules on the config value.
func reference(c planCfg, now time.Time) wantPlan {
	var w wantPlan
	switch {
	case c.Scenario == nil:
		w.Reject = "scenario missing"
	case c.Limits.MaxDuration == nil:
		w.Reject = "limits.max-duration missing"
	case c.Limits.Concurrency == nil:
		w.Reject = "limits.concurrency missing"
	case c.Limits.MaxIterations == nil:
		w.Reject = "limits.max-iterations missing"
	case c.Limits.IgnoreDropped == nil:
		w.Reject = "limits.ignore-dropped missing"
	case len(c.Stages) == 0:
		w.Reject = "no stages"
	}
	if w.Reject != "" {
		return w
	}
	w.Scenario = *c.Scenario
	w.MaxDuration = *c.Limits.MaxDuration
	w.Concurrency = *c.Limits.Concurrency
	w.MaxIterations = *c.Limits.MaxIterations
	w.IgnoreDropped = *c.Limits.IgnoreDropped
	if c.Limits.MaxFailures != nil {
		w.MaxFailures = *c.Limits.MaxFailures
	}
	if c.Limits.MaxFailuresRate != nil {
		w.MaxFailRate = *c.Limits.MaxFailuresRate
	}
	d := c.Default
	for i, s := range c.Stages {
		ws := wantStage{Index: i}
		missing := ""
		need := func(name string, ok bool, inherited bool) {
			if !ok && missing == "" {
				missing = name
			}
			if ok && inherited {
				ws.Inherited = append(ws.Inherited, name)
			}
		}
		dur, inh := take(s.Duration, d.Duration)
		if dur == nil {
			w.Reject = fmt.Sprintf("stage %d: duration missing in stage and default", i)
			return w
		}
		if inh {
			w.AnyInherited = true
			ws.Inherited = append(ws.Inherited, "duration")
		}
		mode, inh := take(s.Mode, d.Mode)
		if mode == nil {
			w.Reject = fmt.Sprintf("stage %d: mode missing in stage and default", i)
			return w
		}
		if inh {
			w.AnyInherited = true
			ws.Inherited = append(ws.Inherited, "mode")
		}
		ws.Duration, ws.Mode = *dur, *mode
		w.Total += *dur
		w.Ends = append(w.Ends, w.Total)
		kept := c.Schedule.StageStart == nil || c.Schedule.StageStart.Add(w.Total).After(now)

		if p, inh := take(s.Parameters, d.Parameters); p != nil {
			ws.Params = *p
			if inh {
				ws.Inherited = append(ws.Inherited, "parameters")
			}
		} else {
			ws.Params = map[string]string{}
		}
		str := func(name string, own, def *string, dst *string) {
			v, inh := take(own, def)
			need(name, v != nil, inh)
			if v != nil {
				*dst = *v
			}
		}
		du := func(name string, own, def *time.Duration, dst *time.Duration) {
			v, inh := take(own, def)
			need(name, v != nil, inh)
			if v != nil {
				*dst = *v
			}
		}
		jitter := func() {
			v, inh := take(s.Jitter, d.Jitter)
			need("jitter", v != nil, inh)
			if v != nil {
				ws.Jitter = *v
			}
		}
		switch *mode {
		case mConstant:
			str("rate", s.Rate, d.Rate, &ws.Rate)
			str("distribution", s.Distribution, d.Distribution, &ws.Dist)
			jitter()
		case mRamp:
			str("start-rate", s.StartRate, d.StartRate, &ws.StartRate)
			str("end-rate", s.EndRate, d.EndRate, &ws.EndRate)
			str("distribution", s.Distribution, d.Distribution, &ws.Dist)
			jitter()
		case mStaged:
			str("stages", s.Stages, d.Stages, &ws.Stages)
			du("iteration-frequency", s.IterationFrequency, d.IterationFrequency, &ws.Freq)
			str("distribution", s.Distribution, d.Distribution, &ws.Dist)
			jitter()
		case mGaussian:
			v, inh := take(s.Volume, d.Volume)
			need("volume", v != nil, inh)
			if v != nil {
				ws.Volume = *v
			}
			du("repeat", s.Repeat, d.Repeat, &ws.Repeat)
			du("iteration-frequency", s.IterationFrequency, d.IterationFrequency, &ws.Freq)
			du("peak", s.Peak, d.Peak, &ws.Peak)
			str("weights", s.Weights, d.Weights, &ws.Weights)
			du("standard-deviation", s.StandardDeviation, d.StandardDeviation, &ws.Stddev)
			str("distribution", s.Distribution, d.Distribution, &ws.Dist)
			jitter()
		case mUsers:
			switch {
			case s.Concurrency != nil:
				ws.Users = *s.Concurrency
			case d.Concurrency != nil:
				ws.Users = *d.Concurrency
				ws.Inherited = append(ws.Inherited, "concurrency")
			default:
				ws.Users = *c.Limits.Concurrency
				ws.Inherited = append(ws.Inherited, "concurrency(limits)")
			}
		default:
			missing = "a known mode"
		}
		if !kept {
			if missing != "" && w.SkippedMissing == "" {
				w.SkippedMissing = fmt.Sprintf("stage %d (not kept): %s missing", i, missing)
			}
			continue
		}
		if missing != "" {
			w.Reject = fmt.Sprintf("stage %d: %s missing in stage and default", i, missing)
			return w
		}
		if len(ws.Inherited) > 0 {
			w.AnyInherited = true
		}
		w.Kept = append(w.Kept, ws)
	}
	return w
}

func expectedRates(w wantStage) (*api.Rates, error) {
	switch w.Mode {
	case mConstant:
		return constant.CalculateConstantRate(w.Jitter, w.Rate, w.Dist)
	case mRamp:
		return ramp.CalculateRampRate(w.StartRate, w.EndRate, w.Dist, w.Duration, w.Jitter)
	case mStaged:
		return staged.CalculateStagedRate(w.Jitter, w.Freq, w.Stages, w.Dist, nil)
	case mGaussian:
		return gaussian.CalculateGaussianRate(w.Volume, w.Jitter, w.Repeat, w.Freq, w.Peak, w.Stddev, w.Weights, w.Dist)
	}
	return nil, fmt.Errorf("no rate function for mode %q", w.Mode)
}

// gridStep advances the synthetic clock: N tick intervals, or N/1000 of the stage duration.
type gridStep struct {
	PerMille bool
	N        int
}

var defaultGrid = []gridStep{{false, 0}, {false, 1}, {false, 1}, {true, 100}, {false, 1}, {false, 2}, {true, 250}, {false, 1},
	{false, 0}, {true, 300}, {false, 7}, {false, 1}, {true, 200}, {false, 1}, {true, 200}, {false, 30}}

type caseInput struct {
	Cfg    planCfg
	Style  style
	Now    time.Time
	Grid   []gridStep
	Anchor time.Time
	Seed   int64
}

func evalRate(fn api.RateFunction, times []time.Time, seed int64) (vals []int, panicked any) {
	defer func() {
		if r := recover(); r != nil {
			panicked = r
		}
	}()
	rand.Seed(seed) //nolint:staticcheck
	for _, t := range times {
		vals = append(vals, fn(t))
	}
	return vals, nil
}

var discard = ui.NewDiscardOutput()

// checkPlan parses the config and compares it with the reference model.
// It returns "" or a violation text; harness trouble is returned as infra.
func checkPlan(in caseInput, text string, want wantPlan, triggerFile string) (violation, infra string) {
	var got *file.RunnableStages
	var err error
	func() {
		defer func() {
			if r := recover(); r != nil {
				violation = fmt.Sprintf("ParseConfigFile panicked: %v", r)
			}
		}()
		got, err = file.ParseConfigFile([]byte(text), in.Now)
	}()
	if violation != "" {
		return violation, ""
	}
	if want.Reject != "" {
		if err == nil {
			return fmt.Sprintf("config accepted although %s (the documented rule: no value in the stage or the default section is an error)", want.Reject), ""
		}
		return "", ""
	}
	if err != nil {
		if want.SkippedMissing != "" {
			return "", "" // not judged: the incomplete stage is not kept
		}
		return fmt.Sprintf("complete config rejected: %v", err), ""
	}
	if got.Scenario != want.Scenario || got.MaxDuration != want.MaxDuration || got.Concurrency != want.Concurrency ||
		got.MaxIterations != want.MaxIterations || got.IgnoreDropped != want.IgnoreDropped {
		return fmt.Sprintf("options differ: got scenario=%q max-duration=%s concurrency=%d max-iterations=%d ignore-dropped=%v, want %q %s %d %d %v",
			got.Scenario, got.MaxDuration, got.Concurrency, got.MaxIterations, got.IgnoreDropped,
			want.Scenario, want.MaxDuration, want.Concurrency, want.MaxIterations, want.IgnoreDropped), ""
	}
	total, mf, mfr := got.VerifTotals()
	if total != want.Total {
		return fmt.Sprintf("total duration %s, want the sum of all stage durations %s", total, want.Total), ""
	}
	if mf != want.MaxFailures || mfr != want.MaxFailRate {
		return fmt.Sprintf("max-failures=%d max-failures-rate=%d, want %d %d", mf, mfr, want.MaxFailures, want.MaxFailRate), ""
	}
	if len(got.Stages) != len(want.Kept) {
		idx := []int{}
		for _, k := range want.Kept {
			idx = append(idx, k.Index)
		}
		return fmt.Sprintf("%d stages kept, want %d (file indexes %v; scheduled ends %v after stage-start, now is %s after it)",
			len(got.Stages), len(want.Kept), idx, want.Ends, sinceStart(in)), ""
	}
	for k, ws := range want.Kept {
		gs := got.Stages[k]
		where := fmt.Sprintf("kept stage %d (file index %d, mode %s)", k, ws.Index, ws.Mode)
		if gs.StageDuration != ws.Duration {
			return fmt.Sprintf("%s: duration %s, want %s", where, gs.StageDuration, ws.Duration), ""
		}
		if len(gs.Params) != len(ws.Params) || (len(ws.Params) > 0 && !reflect.DeepEqual(gs.Params, ws.Params)) {
			return fmt.Sprintf("%s: parameters %v, want %v", where, gs.Params, ws.Params), ""
		}
		if gs.UsersConcurrency != ws.Users {
			return fmt.Sprintf("%s: users concurrency %d, want %d", where, gs.UsersConcurrency, ws.Users), ""
		}
		if ws.Mode == mUsers {
			continue
		}
		exp, err := expectedRates(ws)
		if err != nil {
			return "", fmt.Sprintf("generator produced arguments the rate calculator rejects (%s): %v", where, err)
		}
		if gs.IterationDuration != exp.IterationDuration {
			return fmt.Sprintf("%s: tick interval %s, want %s", where, gs.IterationDuration, exp.IterationDuration), ""
		}
		if gs.Rate == nil {
			return fmt.Sprintf("%s: no rate function", where), ""
		}
		times := gridTimes(in, ws, exp.IterationDuration)
		av, ap := evalRate(gs.Rate, times, in.Seed)
		ev, ep := evalRate(exp.Rate, times, in.Seed)
		if ep != nil {
			return "", fmt.Sprintf("reference rate function panicked (%s): %v", where, ep)
		}
		if ap != nil {
			return fmt.Sprintf("%s: rate function panicked: %v", where, ap), ""
		}
		if !reflect.DeepEqual(av, ev) {
			return fmt.Sprintf("%s: rate function differs from the one built from the expected arguments %+v: got %v, want %v at offsets %v",
				where, ws, av, ev, offsets(times)), ""
		}
	}
	if triggerFile != "" && want.SkippedMissing == "" {
		// every stage is complete, so the real clock used by the builder cannot turn the config into an error
		if err := os.WriteFile(triggerFile, []byte(text), 0o600); err != nil {
			return "", "cannot write temp config: " + err.Error()
		}
		b := file.Rate(discard)
		if err := b.Flags.Parse([]string{triggerFile}); err != nil {
			return "", "flag parse: " + err.Error()
		}
		trig, err := b.New(b.Flags)
		if err != nil {
			return fmt.Sprintf("file trigger builder rejects a config ParseConfigFile accepted: %v", err), ""
		}
		wantOpt := api.Options{Scenario: want.Scenario, MaxDuration: want.MaxDuration, Concurrency: want.Concurrency,
			MaxIterations: want.MaxIterations, MaxFailures: want.MaxFailures, MaxFailuresRate: want.MaxFailRate, IgnoreDropped: want.IgnoreDropped}
		if trig.Options != wantOpt {
			return fmt.Sprintf("trigger options %+v, want the limits one-to-one %+v", trig.Options, wantOpt), ""
		}
		if trig.Duration != want.Total {
			return fmt.Sprintf("trigger duration %s, want the sum of all stage durations %s", trig.Duration, want.Total), ""
		}
	}
	return "", ""
}

func sinceStart(in caseInput) string {
	if in.Cfg.Schedule.StageStart == nil {
		return "(no stage-start)"
	}
	return in.Now.Sub(*in.Cfg.Schedule.StageStart).String()
}

func offsets(ts []time.Time) []time.Duration {
	out := make([]time.Duration, len(ts))
	for i, t := range ts {
		out[i] = t.Sub(ts[0])
	}
	return out
}

// gridTimes: a non-decreasing synthetic clock. For gaussian stages the clock
// starts a few ticks before the expected peak so that the bell is visible.
func gridTimes(in caseInput, ws wantStage, tick time.Duration) []time.Time {
	base := in.Anchor
	if ws.Mode == mGaussian && ws.Repeat > 0 {
		base = in.Anchor.Truncate(ws.Repeat).Add(ws.Peak - 3*tick)
	}
	grid := in.Grid
	if len(grid) == 0 {
		grid = defaultGrid
	}
	out := make([]time.Time, 0, len(grid))
	t := base
	for _, g := range grid {
		if g.PerMille {
			t = t.Add(time.Duration(int64(ws.Duration) / 1000 * int64(g.N)))
		} else {
			t = t.Add(time.Duration(g.N) * tick)
		}
		out = append(out, t)
	}
	return out
}

// ---------------------------------------------------------------------------
// generator

type pool struct {
	used map[string]bool
}

// distinctInt draws from [lo,hi] and moves to the next unused value of the category.
func (p *pool) distinctInt(t *rapid.T, cat, label string, lo, hi int) int {
	v := rapid.IntRange(lo, hi).Draw(t, label)
	for i := 0; i <= hi-lo; i++ {
		k := cat + ":" + strconv.Itoa(v)
		if !p.used[k] {
			p.used[k] = true
			return v
		}
		v++
		if v > hi {
			v = lo
		}
	}
	return v
}

type unitSpelling struct {
	D time.Duration
	S []string
}

var rateUnits = []unitSpelling{
	{time.Millisecond, []string{"1ms", "ms", "1000us"}},
	{10 * time.Millisecond, []string{"10ms"}},
	{30 * time.Millisecond, []string{"30ms"}},
	{100 * time.Millisecond, []string{"100ms", "0.1s"}},
	{200 * time.Millisecond, []string{"200ms"}},
	{500 * time.Millisecond, []string{"500ms", "0.5s"}},
	{time.Second, []string{"s", "1s", "1000ms"}},
	{2 * time.Second, []string{"2s"}},
	{time.Minute, []string{"m", "1m", "60s"}},
}

func genDuration(t *rapid.T, p *pool, label string) time.Duration {
	kind := rapid.IntRange(0, 9).Draw(t, label+"Kind")
	switch {
	case kind == 0:
		return time.Duration(p.distinctInt(t, "durns", label, int(30*time.Millisecond), int(300*time.Millisecond)))
	case kind <= 4:
		return time.Duration(p.distinctInt(t, "durms", label, 30, 5000)) * time.Millisecond
	case kind <= 7:
		return time.Duration(p.distinctInt(t, "durs", label, 1, 7199)) * time.Second
	case kind == 8:
		if !p.used["dur2h"] {
			p.used["dur2h"] = true
			return 2 * time.Hour
		}
		return time.Duration(p.distinctInt(t, "durs", label, 1, 7199)) * time.Second
	default:
		if !p.used["dur30ms"] {
			p.used["dur30ms"] = true
			return 30 * time.Millisecond
		}
		return time.Duration(p.distinctInt(t, "durms", label, 31, 5000)) * time.Millisecond
	}
}

type genCtx struct {
	t        *rapid.T
	p        *pool
	rampUnit unitSpelling
	rising   bool
	paramSeq int
}

func (g *genCtx) rate(label string) string {
	n := g.p.distinctInt(g.t, "rate", label, 0, 2000)
	if rapid.IntRange(0, 5).Draw(g.t, label+"Bare") == 0 {
		return strconv.Itoa(n)
	}
	u := rapid.SampledFrom(rateUnits).Draw(g.t, label+"Unit")
	return fmt.Sprintf("%d/%s", n, rapid.SampledFrom(u.S).Draw(g.t, label+"Spell"))
}

func (g *genCtx) rampRate(label string, start bool) string {
	low := start == g.rising
	var n int
	if low {
		n = g.p.distinctInt(g.t, "ramplo", label, 0, 400)
	} else {
		n = g.p.distinctInt(g.t, "ramphi", label, 600, 1500)
	}
	return fmt.Sprintf("%d/%s", n, rapid.SampledFrom(g.rampUnit.S).Draw(g.t, label+"Spell"))
}

func (g *genCtx) dist(label string) string {
	if seedWorks {
		return rapid.SampledFrom([]string{"none", "regular", "random"}).Draw(g.t, label)
	}
	return rapid.SampledFrom([]string{"none", "regular"}).Draw(g.t, label)
}

func (g *genCtx) jitter(label string) float64 {
	if !seedWorks {
		return 0
	}
	return rapid.SampledFrom([]float64{0, 0, 0, 3, 10, 25.5, 50}).Draw(g.t, label)
}

func (g *genCtx) stagesString(label string) string {
	n := rapid.IntRange(1, 3).Draw(g.t, label+"N")
	parts := make([]string, 0, n+1)
	if rapid.IntRange(0, 2).Draw(g.t, label+"Jump") != 0 {
		parts = append(parts, fmt.Sprintf("0s:%d", g.p.distinctInt(g.t, "target", label+"T0", 0, 900)))
	}
	for i := 0; i < n; i++ {
		d := rapid.SampledFrom([]string{"50ms", "100ms", "300ms", "1s", "5s", "1m"}).Draw(g.t, fmt.Sprintf("%sD%d", label, i))
		parts = append(parts, fmt.Sprintf("%s:%d", d, g.p.distinctInt(g.t, "target", fmt.Sprintf("%sT%d", label, i+1), 0, 900)))
	}
	sep := rapid.SampledFrom([]string{",", ", "}).Draw(g.t, label+"Sep")
	return strings.Join(parts, sep)
}

func (g *genCtx) freq(label string) time.Duration {
	if rapid.IntRange(0, 2).Draw(g.t, label+"Round") == 0 {
		return time.Duration(g.p.distinctInt(g.t, "freq100", label, 1, 10)) * 100 * time.Millisecond
	}
	return time.Duration(g.p.distinctInt(g.t, "freq", label, 1, 999)) * time.Millisecond
}

func (g *genCtx) volume(label string) float64 {
	v := float64(g.p.distinctInt(g.t, "volume", label, 100, 1_000_000))
	if rapid.IntRange(0, 3).Draw(g.t, label+"Frac") == 0 {
		v += 0.5
	}
	return v
}

func (g *genCtx) repeat(label string) time.Duration {
	if rapid.IntRange(0, 3).Draw(g.t, label+"Big") == 0 {
		return time.Duration(g.p.distinctInt(g.t, "repeat", label, 61, 7200)) * time.Second
	}
	return time.Duration(g.p.distinctInt(g.t, "repeat", label, 2, 60)) * time.Second
}

func (g *genCtx) peak(label string) time.Duration {
	return time.Duration(g.p.distinctInt(g.t, "peak", label, 0, 2000)) * time.Millisecond
}

func (g *genCtx) stddev(label string) time.Duration {
	if rapid.IntRange(0, 4).Draw(g.t, label+"Big") == 0 {
		return time.Duration(g.p.distinctInt(g.t, "stddev", label, 11, 3600)) * time.Second
	}
	return time.Duration(g.p.distinctInt(g.t, "stddevms", label, 500, 10_000)) * time.Millisecond
}

var weightPool = []string{"", "1.0,1.0", "2,0.5,1", "3", "1,2", "0.25,1.75", "1,1,1,5"}

func (g *genCtx) weights(label string) string {
	i := g.p.distinctInt(g.t, "weights", label, 0, len(weightPool)-1)
	return weightPool[i]
}

func (g *genCtx) params(label string) map[string]string {
	n := rapid.IntRange(0, 3).Draw(g.t, label+"N")
	m := map[string]string{}
	for i := 0; i < n; i++ {
		k := rapid.SampledFrom([]string{"K_A", "K_B", "K_C", "K_D", "FOO", "bar"}).Draw(g.t, fmt.Sprintf("%sK%d", label, i))
		g.paramSeq++
		switch rapid.IntRange(0, 3).Draw(g.t, fmt.Sprintf("%sV%d", label, i)) {
		case 0:
			m[k] = strconv.Itoa(g.paramSeq) // a bare number in the file, a string in the environment
		case 1:
			m[k] = fmt.Sprintf("v %d:x", g.paramSeq)
		default:
			m[k] = fmt.Sprintf("v%d", g.paramSeq)
		}
	}
	return m
}

// fillStage sets the mode-specific fields of s. present(field, relevant) decides presence.
func (g *genCtx) fillStage(s *stageCfg, label string, present func(field string) bool) {
	if present("rate") {
		s.Rate = ptr(g.rate(label + "rate"))
	}
	if present("start-rate") {
		s.StartRate = ptr(g.rampRate(label+"startRate", true))
	}
	if present("end-rate") {
		s.EndRate = ptr(g.rampRate(label+"endRate", false))
	}
	if present("distribution") {
		s.Distribution = ptr(g.dist(label + "dist"))
	}
	if present("stages") {
		s.Stages = ptr(g.stagesString(label + "stages"))
	}
	if present("iteration-frequency") {
		s.IterationFrequency = ptr(g.freq(label + "freq"))
	}
	if present("volume") {
		s.Volume = ptr(g.volume(label + "volume"))
	}
	if present("repeat") {
		s.Repeat = ptr(g.repeat(label + "repeat"))
	}
	if present("peak") {
		s.Peak = ptr(g.peak(label + "peak"))
	}
	if present("weights") {
		s.Weights = ptr(g.weights(label + "weights"))
	}
	if present("standard-deviation") {
		s.StandardDeviation = ptr(g.stddev(label + "stddev"))
	}
	if present("concurrency") {
		s.Concurrency = ptr(g.p.distinctInt(g.t, "conc", label+"conc", 1, 200))
	}
	if present("parameters") {
		s.Parameters = ptr(g.params(label + "params"))
	}
}

var modeFields = map[string][]string{
	mConstant: {"rate", "distribution"},
	mRamp:     {"start-rate", "end-rate", "distribution"},
	mStaged:   {"stages", "iteration-frequency", "distribution"},
	mGaussian: {"volume", "repeat", "iteration-frequency", "peak", "weights", "standard-deviation", "distribution"},
	mUsers:    {"concurrency"},
}

func contains(xs []string, x string) bool {
	for _, v := range xs {
		if v == x {
			return true
		}
	}
	return false
}

func genPlan(t *rapid.T) caseInput {
	p := &pool{used: map[string]bool{}}
	g := &genCtx{t: t, p: p}
	var c planCfg
	n := rapid.OneOf(rapid.IntRange(1, 3), rapid.IntRange(1, 8)).Draw(t, "stages")
	richDefault := rapid.Bool().Draw(t, "richDefault")
	defProb := 55
	if richDefault {
		defProb = 100
	}
	chance := func(label string, percent int) bool {
		if percent >= 100 {
			return true
		}
		return rapid.IntRange(0, 99).Draw(t, label) < percent
	}

	// durations and modes first: the ramp unit must not exceed any duration a ramp stage may end up with
	if chance("defDuration", defProb) {
		c.Default.Duration = ptr(genDuration(t, p, "defDur"))
	}
	if chance("defMode", defProb) {
		c.Default.Mode = ptr(rapid.SampledFrom(allModes).Draw(t, "defModeV"))
	}
	c.Stages = make([]stageCfg, n)
	minDur := 2 * time.Hour
	if c.Default.Duration != nil {
		minDur = *c.Default.Duration
	}
	for i := range c.Stages {
		pd, pm := 75, 75
		if c.Default.Duration == nil {
			pd = 98
		}
		if c.Default.Mode == nil {
			pm = 98
		}
		if chance(fmt.Sprintf("s%dHasDur", i), pd) {
			d := genDuration(t, p, fmt.Sprintf("s%dDur", i))
			c.Stages[i].Duration = &d
			if d < minDur {
				minDur = d
			}
		}
		if chance(fmt.Sprintf("s%dHasMode", i), pm) {
			c.Stages[i].Mode = ptr(rapid.SampledFrom(allModes).Draw(t, fmt.Sprintf("s%dMode", i)))
		}
	}
	var units []unitSpelling
	for _, u := range rateUnits {
		if u.D <= minDur {
			units = append(units, u)
		}
	}
	g.rampUnit = rapid.SampledFrom(units).Draw(t, "rampUnit")
	g.rising = rapid.Bool().Draw(t, "rising")

	// default section: any subset of fields
	g.fillStage(&c.Default, "def.", func(f string) bool { return chance("def."+f, defProb) })
	if chance("def.jitter", defProb) {
		c.Default.Jitter = ptr(g.jitter("def.jitterV"))
	}
	for i := range c.Stages {
		s := &c.Stages[i]
		mode := ""
		if m, _ := take(s.Mode, c.Default.Mode); m != nil {
			mode = *m
		}
		label := fmt.Sprintf("s%d.", i)
		defHas := map[string]bool{
			"rate": c.Default.Rate != nil, "start-rate": c.Default.StartRate != nil, "end-rate": c.Default.EndRate != nil,
			"distribution": c.Default.Distribution != nil, "stages": c.Default.Stages != nil,
			"iteration-frequency": c.Default.IterationFrequency != nil, "volume": c.Default.Volume != nil,
			"repeat": c.Default.Repeat != nil, "peak": c.Default.Peak != nil, "weights": c.Default.Weights != nil,
			"standard-deviation": c.Default.StandardDeviation != nil, "concurrency": true, "parameters": true,
		}
		g.fillStage(s, label, func(f string) bool {
			switch {
			case f == "parameters":
				return chance(label+f, 55)
			case !contains(modeFields[mode], f):
				return chance(label+f, 10) // a field of another mode: present but irrelevant
			case defHas[f]:
				return chance(label+f, 50)
			default:
				return chance(label+f, 93)
			}
		})
		// jitter is always given in the stage or the default section (neither is C14's business)
		if c.Default.Jitter == nil || chance(label+"jitter", 45) {
			s.Jitter = ptr(g.jitter(label + "jitterV"))
		}
	}

	c.Scenario = ptr(rapid.SampledFrom([]string{"verif_scenario", "test", "my-scenario", "s 1"}).Draw(t, "scenario"))
	if !chance("hasScenario", 98) {
		c.Scenario = nil
	}
	if chance("hasMaxDuration", 98) {
		c.Limits.MaxDuration = ptr(time.Duration(rapid.IntRange(1, 100_000).Draw(t, "maxDurationMs")) * time.Millisecond)
	}
	if chance("hasConcurrency", 98) {
		c.Limits.Concurrency = ptr(p.distinctInt(t, "conc", "limitsConcurrency", 1, 200))
	}
	if chance("hasMaxIterations", 98) {
		c.Limits.MaxIterations = ptr(rapid.OneOf(rapid.Just(uint64(0)), rapid.Uint64Range(1, 1_000_000), rapid.Just(uint64(1<<63+5))).Draw(t, "maxIterations"))
	}
	if chance("hasMaxFailures", 60) {
		c.Limits.MaxFailures = ptr(rapid.Uint64Range(0, 5000).Draw(t, "maxFailures"))
	}
	if chance("hasMaxFailuresRate", 60) {
		c.Limits.MaxFailuresRate = ptr(rapid.IntRange(0, 100).Draw(t, "maxFailuresRate"))
	}
	if chance("hasIgnoreDropped", 98) {
		c.Limits.IgnoreDropped = ptr(rapid.Bool().Draw(t, "ignoreDropped"))
	}

	in := caseInput{Cfg: c}
	in.Style = style{Quote: rapid.IntRange(0, 2).Draw(t, "quote"), DurForm: rapid.IntRange(0, 2).Draw(t, "durForm"), Flow: rapid.Bool().Draw(t, "flow")}

	// restart instant
	var ends []time.Duration
	cum := time.Duration(0)
	for _, s := range c.Stages {
		d, _ := take(s.Duration, c.Default.Duration)
		if d == nil {
			break
		}
		cum += *d
		ends = append(ends, cum)
	}
	zone := rapid.SampledFrom([]*time.Location{time.UTC, time.FixedZone("", 5*3600+1800), time.FixedZone("", -8*3600)}).Draw(t, "zone")
	start := time.Unix(int64(rapid.IntRange(1_500_000_000, 1_900_000_000).Draw(t, "startSec")),
		int64(rapid.SampledFrom([]int{0, 0, 1, 500_000_000, 999_999_999, 123_456_789}).Draw(t, "startNsec"))).In(zone)
	if chance("hasStageStart", 78) {
		in.Cfg.Schedule.StageStart = &start
	}
	far := func(label string) time.Duration {
		return time.Duration(rapid.OneOf(rapid.Int64Range(1, 1000), rapid.Int64Range(1, int64(48*time.Hour))).Draw(t, label))
	}
	kind := rapid.IntRange(0, 9).Draw(t, "nowKind")
	var off time.Duration
	switch {
	case kind == 0 || len(ends) == 0:
		off = -far("before")
	case kind <= 4:
		b := rapid.IntRange(0, len(ends)).Draw(t, "boundary")
		if b > 0 {
			off = ends[b-1]
		}
		off += time.Duration(rapid.IntRange(-1, 1).Draw(t, "boundaryDelta"))
	case kind <= 8:
		k := rapid.IntRange(0, len(ends)-1).Draw(t, "insideStage")
		lo := time.Duration(0)
		if k > 0 {
			lo = ends[k-1]
		}
		off = lo + time.Duration(rapid.Int64Range(1, int64(ends[k]-lo)-1).Draw(t, "insideOffset"))
	default:
		off = ends[len(ends)-1] + far("after")
	}
	in.Now = start.Add(off).In(rapid.SampledFrom([]*time.Location{time.UTC, time.FixedZone("", 3600)}).Draw(t, "nowZone"))

	ng := rapid.IntRange(8, 18).Draw(t, "gridLen")
	in.Grid = make([]gridStep, ng)
	for i := range in.Grid {
		if i == 0 {
			continue // the first instant is the base itself
		}
		if rapid.IntRange(0, 3).Draw(t, fmt.Sprintf("g%dKind", i)) == 0 {
			in.Grid[i] = gridStep{PerMille: true, N: rapid.SampledFrom([]int{10, 100, 250, 333, 500}).Draw(t, fmt.Sprintf("g%dN", i))}
		} else {
			in.Grid[i] = gridStep{N: rapid.SampledFrom([]int{0, 1, 1, 1, 1, 2, 3, 10, 40}).Draw(t, fmt.Sprintf("g%dN", i))}
		}
	}
	in.Anchor = time.Unix(int64(rapid.IntRange(1_700_000_000, 1_700_100_000).Draw(t, "anchorSec")), int64(rapid.SampledFrom([]int{0, 1, 250_000_000}).Draw(t, "anchorNsec"))).UTC()
	in.Seed = int64(rapid.IntRange(1, 1<<30).Draw(t, "randSeed"))
	return in
}

// classify returns the class labels and the non-trivial verdict of a case.
func classify(in caseInput, want wantPlan) (classes []string, nontrivial bool) {
	add := func(s string) {
		if !contains(classes, s) {
			classes = append(classes, s)
		}
	}
	inside := false
	if in.Cfg.Schedule.StageStart == nil {
		add("no-stage-start")
	} else if len(want.Ends) > 0 {
		off := in.Now.Sub(*in.Cfg.Schedule.StageStart)
		total := want.Ends[len(want.Ends)-1]
		onBoundary := off == 0
		for _, e := range want.Ends {
			if off == e {
				onBoundary = true
			}
		}
		switch {
		case off < 0:
			add("now-before-start")
		case off > total:
			add("now-after-end")
		case onBoundary:
			add("now-exactly-on-boundary")
		}
		if off > 0 && off < total && want.Reject == "" {
			inside = true
			add("now-strictly-inside-plan")
			for i, e := range want.Ends {
				lo := time.Duration(0)
				if i > 0 {
					lo = want.Ends[i-1]
				}
				if off == e-1 || off == lo+1 {
					add("now-1ns-from-boundary")
				}
			}
		}
	}
	if want.Reject != "" {
		add("rejected-by-model")
		return classes, false
	}
	add("accepted-by-model")
	if want.SkippedMissing != "" {
		add("incomplete-stage-not-kept(unjudged)")
	}
	switch {
	case len(want.Kept) == len(in.Cfg.Stages):
		add("all-stages-kept")
	case len(want.Kept) == 0:
		add("no-stage-kept")
	default:
		add("some-stages-skipped")
	}
	for _, k := range want.Kept {
		add("kept-mode-" + k.Mode)
		for _, f := range k.Inherited {
			add("inherited-" + f)
		}
		if k.Mode != mUsers && k.Jitter != 0 {
			add("kept-jitter-nonzero")
		}
		if k.Mode != mUsers && k.Dist == "random" {
			add("kept-distribution-random")
		}
	}
	if want.AnyInherited {
		add("inherits-from-default")
	}
	nontrivial = want.AnyInherited && inside
	if nontrivial {
		add("nontrivial")
	}
	return classes, nontrivial
}

func sample(in caseInput, text string, want wantPlan) any {
	kept := []int{}
	for _, k := range want.Kept {
		kept = append(kept, k.Index)
	}
	return map[string]any{"yaml": text, "now": in.Now.Format(time.RFC3339Nano), "since_stage_start": sinceStart(in),
		"model_reject": want.Reject, "model_kept_file_indexes": kept, "model_total": want.Total.String()}
}

func judgeCase(in caseInput, section, triggerFile string) (violation, infra string) {
	text := in.Cfg.yaml(in.Style)
	if err := writerSelfCheck(in.Cfg, text); err != nil {
		return "", fmt.Sprintf("%v\n%s", err, text)
	}
	want := reference(in.Cfg, in.Now)
	classes, nontrivial := classify(in, want)
	stats.Case(section, text+"@"+in.Now.Format(time.RFC3339Nano), nontrivial, classes, func() any { return sample(in, text, want) })
	v, infra := checkPlan(in, text, want, triggerFile)
	if v != "" {
		v = fmt.Sprintf("%s\n--- config (now = %s, %s after stage-start) ---\n%s", v, in.Now.Format(time.RFC3339Nano), sinceStart(in), text)
	}
	return v, infra
}

func TestProp_ParsePlan(t *testing.T) {
	dir := t.TempDir()
	n := 0
	rapid.Check(t, func(rt *rapid.T) {
		in := genPlan(rt)
		n++
		tf := ""
		if n%4 == 0 {
			tf = filepath.Join(dir, "plan.yaml")
		}
		v, infra := judgeCase(in, "parse", tf)
		if infra != "" {
			rt.Fatalf("VERIF-INFRA: %s", infra)
		}
		if v != "" {
			rt.Fatalf("VERIF-VIOLATION C15: %s", v)
		}
	})
	stats.Note("rand_seed_effective", seedWorks)
}

// ---------------------------------------------------------------------------
// exhaustive small scope: every duration tuple of 1-4 stages over three
// durations, every restart instant on / next to / between the boundaries.

func TestEnum_RestartInstants(t *testing.T) {
	durs := []time.Duration{30 * time.Millisecond, time.Second, 90 * time.Minute}
	start := time.Date(2024, 3, 9, 23, 59, 59, 999_999_999, time.FixedZone("", 3600))
	cases := 0
	var rec func(prefix []time.Duration)
	rec = func(prefix []time.Duration) {
		if len(prefix) > 0 {
			var c planCfg
			c.Scenario = ptr("test")
			c.Limits = limitsCfg{MaxDuration: ptr(5 * time.Second), Concurrency: ptr(7), MaxIterations: ptr(uint64(9)), IgnoreDropped: ptr(true)}
			c.Default = stageCfg{Mode: ptr(mConstant), Rate: ptr("7/100ms"), Distribution: ptr("none"), Jitter: ptr(0.0),
				Duration: ptr(durs[0]), Parameters: ptr(map[string]string{"K_A": "default"})}
			var ends []time.Duration
			cum := time.Duration(0)
			for i, d := range prefix {
				s := stageCfg{}
				if d != durs[0] {
					s.Duration = ptr(d) // the 30 ms stages inherit their duration
				}
				if i%2 == 1 {
					s.Rate = ptr(fmt.Sprintf("%d/s", 10+i))
					s.Parameters = ptr(map[string]string{"K_A": fmt.Sprintf("stage%d", i)})
				}
				c.Stages = append(c.Stages, s)
				cum += d
				ends = append(ends, cum)
			}
			offs := []time.Duration{-time.Hour, -1, 0, 1, cum + time.Hour}
			lo := time.Duration(0)
			for _, e := range ends {
				offs = append(offs, lo+(e-lo)/2, e-1, e, e+1)
				lo = e
			}
			for _, withStart := range []bool{true, false} {
				for _, off := range offs {
					in := caseInput{Cfg: c, Now: start.Add(off).UTC(), Anchor: time.Unix(1_700_000_000, 0)}
					if withStart {
						in.Cfg.Schedule.StageStart = ptr(start)
					} else if off != 0 {
						continue
					}
					cases++
					v, infra := judgeCase(in, "enum", "")
					if infra != "" {
						t.Fatalf("VERIF-INFRA: %s", infra)
					}
					if v != "" {
						t.Fatalf("VERIF-VIOLATION C15: %s", v)
					}
				}
			}
		}
		if len(prefix) == 4 {
			return
		}
		for _, d := range durs {
			rec(append(append([]time.Duration{}, prefix...), d))
		}
	}
	rec(nil)
	stats.Note("enum_exhaustive", true)
	stats.Note("enum_cases", int64(cases))
}

// ---------------------------------------------------------------------------
// regression table: hostile constants and the documented example

func exampleConfig() planCfg {
	params := map[string]string{"FOO": "1", "BAR": "2"}
	start := time.Date(2020, 12, 10, 9, 0, 0, 0, time.UTC)
	return planCfg{
		Scenario: ptr("test"),
		Default: stageCfg{Duration: ptr(time.Second), Mode: ptr(mConstant), Rate: ptr("10/s"), StartRate: ptr("0/100ms"), EndRate: ptr("30/100ms"),
			Stages: ptr("0s:0,300ms:30"), IterationFrequency: ptr(100 * time.Millisecond), Volume: ptr(100.0), Repeat: ptr(time.Hour),
			Peak: ptr(500 * time.Millisecond), Weights: ptr("1.0,1.0"), StandardDeviation: ptr(time.Minute), Concurrency: ptr(10),
			Jitter: ptr(0.0), Distribution: ptr("none"), Parameters: ptr(params)},
		Limits: limitsCfg{MaxDuration: ptr(5 * time.Second), Concurrency: ptr(50), MaxIterations: ptr(uint64(1000)), MaxFailures: ptr(uint64(0)),
			MaxFailuresRate: ptr(0), IgnoreDropped: ptr(true)},
		Schedule: scheduleCfg{StageStart: &start},
		Stages: []stageCfg{
			{Duration: ptr(500 * time.Millisecond), Mode: ptr(mConstant), Rate: ptr("10/100ms"), Jitter: ptr(0.0), Distribution: ptr("regular"), Parameters: ptr(params)},
			{Duration: ptr(300 * time.Millisecond), Mode: ptr(mRamp), StartRate: ptr("0/100ms"), EndRate: ptr("30/100ms"), Parameters: ptr(params)},
			{Duration: ptr(300 * time.Millisecond), Mode: ptr(mStaged), Stages: ptr("0s:0,300ms:30"), IterationFrequency: ptr(100 * time.Millisecond),
				Jitter: ptr(0.0), Distribution: ptr("regular"), Parameters: ptr(params)},
			{Duration: ptr(time.Second), Mode: ptr(mGaussian), Volume: ptr(100.0), Repeat: ptr(time.Hour), IterationFrequency: ptr(time.Second),
				Peak: ptr(500 * time.Millisecond), Weights: ptr("1.0,1.0"), StandardDeviation: ptr(time.Minute), Jitter: ptr(0.0),
				Distribution: ptr("regular"), Parameters: ptr(params)},
			{Duration: ptr(200 * time.Millisecond), Mode: ptr(mUsers)},
		},
	}
}

func TestRegress(t *testing.T) {
	ex := exampleConfig()
	start := *ex.Schedule.StageStart
	type row struct {
		name string
		cfg  planCfg
		off  time.Duration
	}
	rows := []row{}
	for _, off := range []time.Duration{-time.Second, 0, 1, 500*time.Millisecond - 1, 500 * time.Millisecond, 500*time.Millisecond + 1,
		800 * time.Millisecond, 1100 * time.Millisecond, 2100*time.Millisecond - 1, 2100 * time.Millisecond, 2300*time.Millisecond - 1,
		2300 * time.Millisecond, 2300*time.Millisecond + 1, 24 * time.Hour} {
		rows = append(rows, row{"example", ex, off})
	}
	// everything inherited: stages are empty mappings
	bare := exampleConfig()
	bare.Stages = []stageCfg{{}, {Mode: ptr(mUsers)}, {Mode: ptr(mRamp), Duration: ptr(150 * time.Millisecond)}, {Mode: ptr(mGaussian)}, {Mode: ptr(mStaged)}}
	for _, off := range []time.Duration{-1, time.Second, time.Second + 1, 2*time.Second + 150*time.Millisecond, 4*time.Second + 150*time.Millisecond - 1} {
		rows = append(rows, row{"all-inherited", bare, off})
	}
	// users concurrency falls back to limits.concurrency
	lim := exampleConfig()
	lim.Default.Concurrency = nil
	rows = append(rows, row{"users-from-limits", lim, 2200 * time.Millisecond})
	// a required field missing in a kept stage must be rejected
	miss := exampleConfig()
	miss.Default.EndRate = nil
	miss.Stages[1].EndRate = nil
	rows = append(rows, row{"end-rate-missing-kept", miss, 600 * time.Millisecond}, row{"end-rate-missing-skipped", miss, 900 * time.Millisecond})
	// stage parameters given as an empty mapping win over the default's
	empty := exampleConfig()
	empty.Stages[0].Parameters = ptr(map[string]string{})
	rows = append(rows, row{"empty-parameters", empty, 1})
	for _, r := range rows {
		for q := 0; q < 3; q++ {
			in := caseInput{Cfg: r.cfg, Now: start.Add(r.off), Style: style{Quote: q, DurForm: q}, Anchor: time.Unix(1_700_000_000, 0), Seed: 7}
			v, infra := judgeCase(in, "regress", filepath.Join(t.TempDir(), "plan.yaml"))
			if infra != "" {
				t.Fatalf("VERIF-INFRA (%s): %s", r.name, infra)
			}
			if v != "" {
				t.Errorf("VERIF-VIOLATION C15 (%s, now = stage-start%+d ns): %s", r.name, int64(r.off), v)
			}
		}
	}
}
