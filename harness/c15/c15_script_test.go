package c15

import (
	"fmt"
	"strings"
	"sync"
	"testing"
	"time"

	"pgregory.net/rapid"

	"github.com/form3tech-oss/f1/v2/internal/verifhook"
	f1testing "github.com/form3tech-oss/f1/v2/pkg/f1/testing"
	"github.com/form3tech-oss/f1/v2/verifharness/vlib"
)

// TestProp_ScriptedTickAcrossStageEnd: "stages execute strictly one after another". The last tick
// of the first stage is held (at the yield point between its context check and the hand-over) from
// before the stage's time-out until well after the 20 ms pause that follows it. The second stage may
// only begin once that tick - the first stage's triggering - is over: in the totally ordered log the
// second file.stage.begin must not fall between hold-start and hold-end.
func TestProp_ScriptedTickAcrossStageEnd(t *testing.T) {
	dir := t.TempDir()
	rapid.Check(t, func(rt *rapid.T) {
		tickMs := rapid.SampledFrom([]int{40, 50, 60}).Draw(rt, "tickMs")
		ticks := rapid.IntRange(3, 5).Draw(rt, "ticksInStage") // hand-overs at 0, I, ..., (ticks-1)*I
		extra := rapid.IntRange(5, 15).Draw(rt, "stageExtraMs")
		stage1 := time.Duration((ticks-1)*tickMs+25+extra) * time.Millisecond // times out (less 20 ms) after the last tick started
		hold := time.Duration(25+extra+60) * time.Millisecond                  // past the time-out and the 20 ms pause
		secondMode := rapid.SampledFrom([]string{"constant", "users"}).Draw(rt, "secondStageMode")

		var mu sync.Mutex
		var events []string
		handovers, begins := 0, 0
		add := func(e string) { events = append(events, e) }
		verifhook.Set(func(point string) {
			switch point {
			case "pool.trigger.after_ctx_check":
				mu.Lock()
				handovers++
				n := handovers
				if n == ticks {
					add("hold-start")
				}
				mu.Unlock()
				if n == ticks {
					time.Sleep(hold)
					mu.Lock()
					add("hold-end")
					mu.Unlock()
				}
			case "file.stage.begin":
				mu.Lock()
				begins++
				add(fmt.Sprintf("begin-%d", begins))
				mu.Unlock()
			case "file.stage.end":
				mu.Lock()
				add("end")
				mu.Unlock()
			}
		})
		defer verifhook.Clear()
		second := "  mode: users\n  concurrency: 1\n"
		if secondMode == "constant" {
			second = "  mode: constant\n  rate: 1/50ms\n  jitter: 0\n  distribution: none\n"
		}
		yaml := fmt.Sprintf("scenario: %s\nlimits:\n  max-duration: 10s\n  concurrency: 2\n  max-iterations: 0\n  ignore-dropped: true\nstages:\n"+
			"- duration: %dms\n  mode: constant\n  rate: 1/%dms\n  jitter: 0\n  distribution: none\n- duration: 120ms\n%s",
			vlib.ScenarioName, stage1/time.Millisecond, tickMs, second)
		spec := &vlib.RunSpec{Mode: "file", FileYAML: yaml, FileDir: dir, WaitTimeout: 20 * time.Second,
			ScenarioFn: func(*f1testing.T) f1testing.RunFn { return func(*f1testing.T) {} }}
		if _, err := vlib.Execute(spec); err != nil {
			rt.Fatalf("VERIF-INFRA: %v\n%s", err, yaml)
		}
		verifhook.Clear()
		mu.Lock()
		log := append([]string{}, events...)
		mu.Unlock()
		joined := strings.Join(log, " ")
		held := strings.Contains(joined, "hold-start") && strings.Contains(joined, "hold-end")
		cls := []string{"second-" + secondMode}
		if held {
			cls = append(cls, "tick-held")
		}
		stats.Case("scripted-stage-end", fmt.Sprint(tickMs, ticks, extra, secondMode), held, cls, func() any {
			return map[string]any{"script": "last tick of stage 1 held across the stage's end", "tick_ms": tickMs, "ticks": ticks, "stage1": stage1.String(), "hold": hold.String(), "log": log}
		})
		inHold := false
		for _, e := range log {
			switch {
			case e == "hold-start":
				inHold = true
			case e == "hold-end":
				inHold = false
			case inHold && strings.HasPrefix(e, "begin-"):
				rt.Fatalf("VERIF-VIOLATION C15(run): the second stage began while a tick of the first stage was still being handed over (stages must run strictly one after another)\nlog: %v\n--- config ---\n%s", log, yaml)
			}
		}
	})
}
