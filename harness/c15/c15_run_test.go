package c15

// Run half of C15: real file-triggered runs. One totally ordered log receives
// the stage hook events and, from every scenario body, read-start / an
// environment snapshot / read-end.

import (
	"context"
	"fmt"
	"os"
	"sort"
	"strings"
	"sync"
	"testing"
	"time"

	"pgregory.net/rapid"

	"github.com/form3tech-oss/f1/v2/internal/verifhook"
	f1testing "github.com/form3tech-oss/f1/v2/pkg/f1/testing"
	"github.com/form3tech-oss/f1/v2/verifharness/vlib"
)

var runKeys = []string{"VERIF_C15_A", "VERIF_C15_B", "VERIF_C15_C", "VERIF_C15_D"}

const runMaxDuration = 30 * time.Second

type runStage struct {
	Mode     string
	Duration time.Duration
	Users    int    // users mode
	Rate     string // constant mode
	Params   map[string]string
	Inherit  bool // the stage omits `parameters` and takes the default section's
	Bulk     int  // further parameters VERIF_C15_BULK_<i> of this stage (many: setting them takes a while)
}

type runCase struct {
	Stages        []runStage
	DefaultParams map[string]string // nil: no default parameters
	Concurrency   int
	PreSleepUs    []int         // per body (cyclic): sleep before read-start
	Cut           string        // "" | "max-duration" | "cancel" | "max-iterations": the run is cut short inside the plan
	CutAfter      time.Duration // where
	Limit         uint64        // Cut == "max-iterations": limits.max-iterations (reached early in the plan)
	MidSleepUs    []int         // per body (cyclic): sleep between snapshot and read-end
}

func (c runCase) config() planCfg {
	p := planCfg{
		Scenario: ptr(vlib.ScenarioName),
		Limits: limitsCfg{MaxDuration: ptr(c.maxDuration()), Concurrency: ptr(c.Concurrency), MaxIterations: ptr(c.Limit),
			IgnoreDropped: ptr(true)},
		Default: stageCfg{Jitter: ptr(0.0), Distribution: ptr("none")},
	}
	if c.DefaultParams != nil {
		p.Default.Parameters = ptr(c.DefaultParams)
	}
	for _, s := range c.Stages {
		sc := stageCfg{Mode: ptr(s.Mode), Duration: ptr(s.Duration)}
		if s.Mode == mUsers {
			sc.Concurrency = ptr(s.Users)
		} else {
			sc.Rate = ptr(s.Rate)
		}
		if !s.Inherit {
			params := s.Params
			if s.Bulk > 0 {
				params = map[string]string{}
				for k, v := range s.Params {
					params[k] = v
				}
				for i := 0; i < s.Bulk; i++ {
					params[bulkKey(i)] = "b"
				}
			}
			sc.Parameters = ptr(params)
		}
		p.Stages = append(p.Stages, sc)
	}
	return p
}

func (c runCase) maxDuration() time.Duration {
	if c.Cut == "max-duration" {
		return c.CutAfter
	}
	return runMaxDuration
}

// expectedEnv: the parameters of stage k per the documented rules (stage's own, else the default section's, else none).
func (c runCase) expectedEnv(k int) map[string]string {
	s := c.Stages[k]
	switch {
	case !s.Inherit:
		return s.Params
	case c.DefaultParams != nil:
		return c.DefaultParams
	}
	return map[string]string{}
}

func bulkKey(i int) string { return fmt.Sprintf("VERIF_C15_BULK_%d", i) }

func genParams(t *rapid.T, label string, seq *int) map[string]string {
	m := map[string]string{}
	for _, k := range runKeys {
		if rapid.IntRange(0, 2).Draw(t, label+k[len(k)-1:]) != 0 {
			*seq++
			m[k] = fmt.Sprintf("%s%d", strings.ToLower(k[len(k)-1:]), *seq)
			// values are opaque text: a dollar sign is not a reference to anything
			switch rapid.IntRange(0, 7).Draw(t, label+"Dollar"+k[len(k)-1:]) {
			case 0:
				m[k] = "$" + m[k]
			case 1:
				m[k] = "pa$$" + m[k] + "${HOME}"
			case 2:
				// a parameter may be given the empty string: it is present in the environment all the same
				m[k] = ""
			}
		}
	}
	return m
}

func genRun(t *rapid.T) runCase {
	var c runCase
	seq := 0
	n := rapid.IntRange(2, 4).Draw(t, "stages")
	c.Concurrency = rapid.IntRange(2, 6).Draw(t, "concurrency")
	if rapid.IntRange(0, 2).Draw(t, "hasDefaultParams") != 0 {
		c.DefaultParams = genParams(t, "defaultParams", &seq)
	}
	for i := 0; i < n; i++ {
		s := runStage{Duration: time.Duration(rapid.IntRange(120, 300).Draw(t, fmt.Sprintf("s%dMs", i))) * time.Millisecond}
		if rapid.Bool().Draw(t, fmt.Sprintf("s%dUsers", i)) {
			s.Mode = mUsers
			s.Users = rapid.IntRange(1, 3).Draw(t, fmt.Sprintf("s%dConc", i))
		} else {
			s.Mode = mConstant
			s.Rate = fmt.Sprintf("%d/%dms", rapid.IntRange(1, 4).Draw(t, fmt.Sprintf("s%dPerTick", i)),
				rapid.SampledFrom([]int{5, 10, 20}).Draw(t, fmt.Sprintf("s%dTick", i)))
		}
		if rapid.IntRange(0, 4).Draw(t, fmt.Sprintf("s%dInherit", i)) == 0 {
			s.Inherit = true
		} else {
			s.Params = genParams(t, fmt.Sprintf("s%dParams", i), &seq)
			if s.Mode == mConstant && rapid.IntRange(0, 3).Draw(t, fmt.Sprintf("s%dBulk", i)) == 0 {
				s.Bulk = 3000 // putting these into the environment takes longer than starting a pool
			}
		}
		c.Stages = append(c.Stages, s)
	}
	// some runs are cut short strictly inside the plan: by limits.max-duration or by cancelling the run
	c.Cut = rapid.SampledFrom([]string{"", "", "", "max-duration", "cancel", "max-iterations"}).Draw(t, "cut")
	if c.Cut == "max-iterations" {
		// the iteration limit ends the run, usually within the first stages
		c.Limit = uint64(rapid.IntRange(1, 12).Draw(t, "maxIterations"))
	} else if c.Cut != "" {
		var total time.Duration
		for _, s := range c.Stages {
			total += s.Duration
		}
		c.CutAfter = time.Duration(rapid.IntRange(60, int(total/time.Millisecond)-40).Draw(t, "cutAfterMs")) * time.Millisecond
	}
	sleeps := rapid.SliceOfN(rapid.SampledFrom([]int{0, 0, 0, 100, 500, 2000, 8000, 25000, 45000}), 1, 7)
	c.PreSleepUs = sleeps.Draw(t, "preSleepUs")
	c.MidSleepUs = rapid.SliceOfN(rapid.SampledFrom([]int{0, 0, 0, 0, 50, 500, 3000, 30000}), 1, 5).Draw(t, "midSleepUs")
	return c
}

// sharedKeyDiffers: >= 2 stages give different values to a key they share.
func (c runCase) sharedKeyDiffers() bool {
	for i := range c.Stages {
		for j := i + 1; j < len(c.Stages); j++ {
			a, b := c.expectedEnv(i), c.expectedEnv(j)
			for k, v := range a {
				if w, ok := b[k]; ok && w != v {
					return true
				}
			}
		}
	}
	return false
}

type snapshot [4]struct {
	Set bool
	Val string
}

func takeSnapshot() snapshot {
	var s snapshot
	for i, k := range runKeys {
		s[i].Val, s[i].Set = os.LookupEnv(k)
	}
	return s
}

func (s snapshot) String() string {
	parts := []string{}
	for i, k := range runKeys {
		if s[i].Set {
			parts = append(parts, fmt.Sprintf("%s=%q", k, s[i].Val))
		}
	}
	return "{" + strings.Join(parts, " ") + "}"
}

func envString(m map[string]string) string {
	keys := sortedKeys(m)
	parts := []string{}
	for _, k := range keys {
		parts = append(parts, fmt.Sprintf("%s=%q", k, m[k]))
	}
	return "{" + strings.Join(parts, " ") + "}"
}

// exactly: the snapshot shows every key of want with want's value and every other key unset.
func (s snapshot) exactly(want map[string]string) bool {
	for i, k := range runKeys {
		v, ok := want[k]
		if ok != s[i].Set || (ok && v != s[i].Val) {
			return false
		}
	}
	return true
}

const (
	evTick  = -1 // a tick's request was handed to a pool
	evBegin = iota - 1
	evEnd
	evReadStart
	evReadEnd
)

type event struct {
	Kind int
	ID   int // hook events: ordinal of the begin (0-based); body events: body id
	Snap snapshot
	At   time.Duration // begin events: monotonic time since just before the run was started
}

type eventLog struct {
	t0     time.Time
	mu     sync.Mutex
	events []event
	begins int
	bodies int
}

func (l *eventLog) hook(point string) {
	switch point {
	case "file.stage.begin":
		l.mu.Lock()
		l.events = append(l.events, event{Kind: evBegin, ID: l.begins, Snap: takeSnapshot(), At: time.Since(l.t0)})
		l.begins++
		l.mu.Unlock()
	case "file.stage.end":
		l.mu.Lock()
		l.events = append(l.events, event{Kind: evEnd, ID: l.begins - 1, Snap: takeSnapshot()})
		l.mu.Unlock()
	case "pool.trigger.after_ctx_check":
		l.mu.Lock()
		l.events = append(l.events, event{Kind: evTick, ID: l.begins})
		l.mu.Unlock()
	}
}

func (l *eventLog) add(kind, id int, snap snapshot) {
	l.mu.Lock()
	l.events = append(l.events, event{Kind: kind, ID: id, Snap: snap})
	l.mu.Unlock()
}

func (l *eventLog) newBody() int {
	l.mu.Lock()
	defer l.mu.Unlock()
	l.bodies++
	return l.bodies - 1
}

type runFacts struct {
	Bodies        int
	Judged        int
	JudgedPerStep []int
	Unjudged      int
	Begins        int
}

// judgeLog applies the oracle to the totally ordered log. It returns "" or the violation.
func judgeLog(c runCase, events []event) (string, runFacts) {
	f := runFacts{JudgedPerStep: make([]int, len(c.Stages))}
	lastHook := -1 // index into events of the last hook event
	hooksSeen := 0
	open := false // a stage is between its begin and end
	type span struct{ hooksAtStart, lastHook int }
	spans := map[int]span{}
	for i, e := range events {
		switch e.Kind {
		case evTick:
			// "each stage's parameters are present in the environment while it triggers": no request is
			// handed to a pool between two stages - before the next stage's parameters are in place
			if !open {
				return fmt.Sprintf("a tick's request was handed to a worker pool after %d stage(s) had begun and while none was running (before the next stage reported that its parameters are in the environment)", e.ID), f
			}
		case evBegin:
			if open {
				return fmt.Sprintf("stage %d began before stage %d ended (stages must run strictly one after another)", e.ID, e.ID-1), f
			}
			if e.ID >= len(c.Stages) {
				return fmt.Sprintf("%d stages began, the plan has %d", e.ID+1, len(c.Stages)), f
			}
			if !e.Snap.exactly(c.expectedEnv(e.ID)) {
				return fmt.Sprintf("when stage %d started to trigger the environment was %s, its parameters are %s", e.ID, e.Snap, envString(c.expectedEnv(e.ID))), f
			}
			// a stage lasts (at least) its duration: stage k cannot begin before the durations of the
			// stages before it have passed (a lower bound, sound under any scheduling delay)
			var scheduled time.Duration
			for _, st := range c.Stages[:e.ID] {
				scheduled += st.Duration
			}
			if e.At != 0 && e.At+100*time.Microsecond < scheduled {
				return fmt.Sprintf("stage %d began %s after the run was started, but the %d stages before it last %s together (each stage runs for its own duration, one after another)",
					e.ID, e.At, e.ID, scheduled), f
			}
			open = true
			f.Begins++
			lastHook = i
			hooksSeen++
		case evEnd:
			if !open {
				return fmt.Sprintf("end event %d without a running stage", e.ID), f
			}
			if !e.Snap.exactly(c.expectedEnv(e.ID)) {
				return fmt.Sprintf("when stage %d stopped triggering (before its parameters are unset) the environment was %s, its parameters are %s",
					e.ID, e.Snap, envString(c.expectedEnv(e.ID))), f
			}
			open = false
			lastHook = i
			hooksSeen++
		case evReadStart:
			spans[e.ID] = span{hooksSeen, lastHook}
		case evReadEnd:
			f.Bodies++
			sp := spans[e.ID]
			delete(spans, e.ID)
			if sp.hooksAtStart != hooksSeen || sp.lastHook < 0 || events[sp.lastHook].Kind != evBegin {
				f.Unjudged++
				continue
			}
			j := events[sp.lastHook].ID
			f.Judged++
			f.JudgedPerStep[j]++
			if !e.Snap.exactly(c.expectedEnv(j)) {
				return fmt.Sprintf("an iteration that read the environment entirely while stage %d was triggering saw %s, the stage's parameters are %s",
					j, e.Snap, envString(c.expectedEnv(j))), f
			}
		}
	}
	if open {
		return "the last stage never reported its end", f
	}
	return "", f
}

func TestProp_StagedRun(t *testing.T) {
	dir := t.TempDir()
	rapid.Check(t, func(rt *rapid.T) {
		c := genRun(rt)
		text := c.config().yaml(style{})
		if err := writerSelfCheck(c.config(), text); err != nil {
			rt.Fatalf("VERIF-INFRA: %v\n%s", err, text)
		}
		for _, k := range runKeys {
			os.Unsetenv(k)
		}
		log := &eventLog{t0: time.Now()}
		verifhook.Set(log.hook)
		defer verifhook.Clear()
		scenario := func(*f1testing.T) f1testing.RunFn {
			return func(*f1testing.T) {
				id := log.newBody()
				if us := c.PreSleepUs[id%len(c.PreSleepUs)]; us > 0 {
					time.Sleep(time.Duration(us) * time.Microsecond)
				}
				log.add(evReadStart, id, snapshot{})
				snap := takeSnapshot()
				if us := c.MidSleepUs[id%len(c.MidSleepUs)]; us > 0 {
					time.Sleep(time.Duration(us) * time.Microsecond)
				}
				log.add(evReadEnd, id, snap)
			}
		}
		spec := &vlib.RunSpec{Mode: "file", FileYAML: text, FileDir: dir, ScenarioFn: scenario, WaitTimeout: 20 * time.Second}
		if c.Cut == "cancel" {
			ctx, cancel := context.WithCancel(context.Background())
			defer cancel()
			spec.Ctx = ctx
			go func() {
				time.Sleep(c.CutAfter)
				cancel()
			}()
		}
		started := time.Now()
		log.mu.Lock()
		log.t0 = started
		log.mu.Unlock()
		_, err := vlib.Execute(spec)
		elapsed := time.Since(started)
		verifhook.Clear()
		after := takeSnapshot()
		for _, k := range runKeys {
			os.Unsetenv(k)
		}
		bulkLeft := ""
		for _, st := range c.Stages {
			for i := 0; i < st.Bulk; i++ {
				if _, set := os.LookupEnv(bulkKey(i)); set {
					bulkLeft = bulkKey(i)
					os.Unsetenv(bulkKey(i))
				}
			}
		}
		if err != nil {
			rt.Fatalf("VERIF-INFRA: cannot execute the run: %v\n%s", err, text)
		}
		log.mu.Lock()
		events := append([]event{}, log.events...)
		log.mu.Unlock()

		violation, facts := judgeLog(c, events)
		stagesJudged := 0
		for _, n := range facts.JudgedPerStep {
			if n > 0 {
				stagesJudged++
			}
		}
		classes := []string{}
		for _, s := range c.Stages {
			if cl := "mode-" + s.Mode; !contains(classes, cl) {
				classes = append(classes, cl)
			}
			if s.Inherit && !contains(classes, "parameters-from-default") {
				classes = append(classes, "parameters-from-default")
			}
		}
		emptyVal := false
		for k := range c.Stages {
			for _, v := range c.expectedEnv(k) {
				if v == "" {
					emptyVal = true
				}
			}
		}
		if emptyVal {
			classes = append(classes, "empty-parameter-value")
		}
		if c.sharedKeyDiffers() {
			classes = append(classes, "shared-key-different-values")
		}
		if stagesJudged >= 2 {
			classes = append(classes, "bodies-judged-in->=2-stages")
		}
		if stagesJudged == len(c.Stages) {
			classes = append(classes, "bodies-judged-in-every-stage")
		}
		if facts.Begins == len(c.Stages) {
			classes = append(classes, "all-stages-executed")
		}
		if c.Cut != "" {
			classes = append(classes, "cut-short-by-"+c.Cut)
		}
		for _, st := range c.Stages {
			if st.Bulk > 0 {
				classes = append(classes, "stage-with-thousands-of-parameters")
				break
			}
		}
		if facts.Unjudged > 0 {
			classes = append(classes, "bodies-straddling-a-stage-event")
		}
		stats.Case("runs", text+fmt.Sprint(c.PreSleepUs, c.MidSleepUs), c.sharedKeyDiffers(), classes, func() any {
			return map[string]any{"yaml": text, "bodies": facts.Bodies, "judged": facts.Judged, "judged_per_stage": facts.JudgedPerStep,
				"unjudged": facts.Unjudged, "begins": facts.Begins, "elapsed_ms": elapsed.Milliseconds()}
		})
		stats.AddNote("run_bodies_judged", int64(facts.Judged))
		stats.AddNote("run_bodies_unjudged", int64(facts.Unjudged))

		fail := func(msg string) {
			p := vlib.SaveArtefact("c15-run", map[string]any{"yaml": text, "case": c, "violation": msg, "events": renderEvents(events)})
			rt.Fatalf("VERIF-VIOLATION C15(run): %s\n--- config ---\n%s(artefact %s)", msg, text, p)
		}
		if violation != "" {
			fail(violation)
		}
		if after != (snapshot{}) {
			fail(fmt.Sprintf("after the run returned the environment still holds %s", after))
		}
		if bulkLeft != "" {
			fail(fmt.Sprintf("after the run returned the environment still holds the stage parameter %s", bulkLeft))
		}
		// f1 gives the whole plan a budget of the sum of the stage durations (minus a ~10 ms window); bodies
		// that outlive their stage delay the next one, so late stages may legitimately not start once that
		// budget is used up. A run that returned clearly before the budget ran out was never cut short, so
		// every stage must have been executed.
		var total time.Duration
		for _, s := range c.Stages {
			total += s.Duration
		}
		if facts.Begins == len(c.Stages) {
			stats.AddNote("run_all_stages_executed", 1)
		} else if c.Cut != "" {
			stats.AddNote("run_cut_short_on_purpose", 1)
		} else if elapsed < total-50*time.Millisecond {
			fail(fmt.Sprintf("%d stages were executed, the plan has %d, although the run returned after %s, before the plan's budget of %s ran out",
				facts.Begins, len(c.Stages), elapsed, total))
		} else {
			stats.AddNote("run_budget_used_up_before_last_stage(not judged)", 1)
		}
	})
}

func renderEvents(events []event) []string {
	names := []string{"begin", "end", "read-start", "read-end"}
	out := make([]string, 0, len(events))
	for i, e := range events {
		if e.Kind == evTick {
			out = append(out, fmt.Sprintf("%d tick-handed-over (stages begun: %d)", i, e.ID))
			continue
		}
		s := fmt.Sprintf("%d %s %d", i, names[e.Kind], e.ID)
		if e.Kind != evReadStart {
			s += " " + e.Snap.String()
		}
		out = append(out, s)
	}
	if len(out) > 4000 {
		out = append(out[:2000], out[len(out)-2000:]...)
	}
	return out
}

// TestRegressLogOracle feeds hand-written logs to the oracle (a check of the
// check: the judge must flag each of these and accept the clean one).
func TestRegressLogOracle(t *testing.T) {
	a := map[string]string{runKeys[0]: "a1", runKeys[1]: "b1"}
	b := map[string]string{runKeys[0]: "a2"}
	c := runCase{Stages: []runStage{{Params: a, Duration: 2 * time.Second}, {Params: b}}}
	snap := func(m map[string]string) snapshot {
		var s snapshot
		for i, k := range runKeys {
			s[i].Val, s[i].Set = m[k]
		}
		return s
	}
	clean := []event{{Kind: evBegin, ID: 0, Snap: snap(a)}, {Kind: evReadStart, ID: 0, Snap: snapshot{}}, {Kind: evReadEnd, ID: 0, Snap: snap(a)}, {Kind: evReadStart, ID: 1, Snap: snapshot{}}, {Kind: evEnd, ID: 0, Snap: snap(a)},
		{Kind: evReadEnd, ID: 1, Snap: snapshot{}}, {Kind: evBegin, ID: 1, Snap: snap(b)}, {Kind: evReadStart, ID: 2, Snap: snapshot{}}, {Kind: evReadEnd, ID: 2, Snap: snap(b)}, {Kind: evEnd, ID: 1, Snap: snap(b)}}
	if v, f := judgeLog(c, clean); v != "" || f.Judged != 2 || f.Unjudged != 1 || f.Begins != 2 {
		t.Fatalf("VERIF-INFRA: clean log judged %q %+v", v, f)
	}
	mutate := func(i int, e event) []event {
		out := append([]event{}, clean...)
		out[i] = e
		return out
	}
	bad := map[string][]event{
		"stale value":        mutate(8, event{Kind: evReadEnd, ID: 2, Snap: snap(a)}),
		"leftover key":       mutate(8, event{Kind: evReadEnd, ID: 2, Snap: snap(map[string]string{runKeys[0]: "a2", runKeys[1]: "b1"})}),
		"overlap":            {clean[0], clean[6], clean[4], clean[9]},
		"missing at begin":   mutate(6, event{Kind: evBegin, ID: 1, Snap: snapshot{}}),
		"unset before end":   mutate(9, event{Kind: evEnd, ID: 1, Snap: snapshot{}}),
		"end never arrives":  clean[:9],
		"second stage early": mutate(6, event{Kind: evBegin, ID: 1, Snap: snap(b), At: time.Second}),
	}
	names := make([]string, 0, len(bad))
	for n := range bad {
		names = append(names, n)
	}
	sort.Strings(names)
	for _, n := range names {
		if v, _ := judgeLog(c, bad[n]); v == "" {
			t.Fatalf("VERIF-INFRA: the log oracle accepts the bad history %q", n)
		}
	}
}
