package c08

import (
	"errors"
	"fmt"
	"io"
	"log/slog"
	"os"
	"path/filepath"
	"strconv"
	"strings"
	"sync/atomic"
	"testing"
	"time"

	"pgregory.net/rapid"

	"github.com/form3tech-oss/f1/v2/internal/metrics"
	"github.com/form3tech-oss/f1/v2/internal/options"
	"github.com/form3tech-oss/f1/v2/internal/progress"
	"github.com/form3tech-oss/f1/v2/internal/run"
	"github.com/form3tech-oss/f1/v2/internal/run/views"
	"github.com/form3tech-oss/f1/v2/pkg/f1"
	f1testing "github.com/form3tech-oss/f1/v2/pkg/f1/testing"
	"github.com/form3tech-oss/f1/v2/verifharness/vlib"
)

var stats = vlib.NewStats("C08")

var vw = views.New()

func TestMain(m *testing.M) { vlib.Main(m, stats) }

type verdictCase struct {
	S, F, D       uint64
	SetupErr      bool
	TeardownErr   bool
	IgnoreDropped bool
	MaxFailures   uint64
	MaxRate       int
}

func (c verdictCase) key() string {
	return fmt.Sprintf("%d/%d/%d/%v/%v/%v/%d/%d", c.S, c.F, c.D, c.SetupErr, c.TeardownErr, c.IgnoreDropped, c.MaxFailures, c.MaxRate)
}

// oracle is the property statement in exact integer arithmetic.
func oracle(c verdictCase) bool {
	total := c.S + c.F + c.D
	return c.SetupErr || c.TeardownErr ||
		(!c.IgnoreDropped && c.D > 0) ||
		(c.MaxFailures == 0 && c.MaxRate == 0 && c.F > 0) ||
		(c.MaxFailures > 0 && c.F > c.MaxFailures) ||
		(c.MaxRate > 0 && 100*c.F > uint64(c.MaxRate)*total)
}

func (c verdictCase) nontrivial() bool {
	return ((c.MaxFailures > 0 || c.MaxRate > 0) && c.F > 0) || c.S+c.F+c.D == 0 || c.D > 0
}

// build goes through the real pipeline: Record -> NewResult -> GetTotals -> AddError.
func build(c verdictCase) *run.Result {
	st := &progress.Stats{}
	for i := uint64(0); i < c.S; i++ {
		st.Record(metrics.SuccessResult, int64(1000+i))
	}
	for i := uint64(0); i < c.F; i++ {
		st.Record(metrics.FailedResult, int64(2000+i))
	}
	for i := uint64(0); i < c.D; i++ {
		st.Record(metrics.DroppedResult, 0)
	}
	res := run.NewResult(options.RunOptions{
		Scenario:        "s",
		MaxDuration:     time.Second,
		Concurrency:     1,
		MaxFailures:     c.MaxFailures,
		MaxFailuresRate: c.MaxRate,
		IgnoreDropped:   c.IgnoreDropped,
	}, vw, st)
	res.GetTotals()
	if c.SetupErr {
		res.AddError(errors.New("setup failed"))
	}
	if c.TeardownErr {
		res.AddError(errors.New("teardown failed"))
	}
	return res
}

// judge returns "" if the real verdict agrees with the oracle.
func judge(c verdictCase) (msg string) {
	defer func() {
		if r := recover(); r != nil {
			msg = fmt.Sprintf("Failed() panicked for %+v: %v", c, r)
		}
	}()
	res := build(c)
	snap := res.Snapshot()
	if snap.SuccessfulIterationDurations.Count != c.S || snap.FailedIterationDurations.Count != c.F || snap.DroppedIterationCount != c.D {
		return fmt.Sprintf("totals %d/%d/%d differ from the recorded %d/%d/%d", snap.SuccessfulIterationDurations.Count,
			snap.FailedIterationDurations.Count, snap.DroppedIterationCount, c.S, c.F, c.D)
	}
	got := res.Failed()
	want := oracle(c)
	if got != want {
		return fmt.Sprintf("verdict for %+v: Failed()=%v, documented rule says %v", c, got, want)
	}
	hasErr := res.Error() != nil
	if hasErr != (c.SetupErr || c.TeardownErr) {
		return fmt.Sprintf("Error()=%v for %+v", res.Error(), c)
	}
	// the summary's verdict flag is the same verdict (it is what the banner renders)
	return ""
}

func genCase(t *rapid.T) verdictCase {
	var c verdictCase
	small := rapid.OneOf(rapid.Just(uint64(0)), rapid.Uint64Range(0, 3), rapid.Uint64Range(0, 400))
	c.IgnoreDropped = rapid.Bool().Draw(t, "ignoreDropped")
	c.SetupErr = rapid.IntRange(0, 9).Draw(t, "setupErr") == 0
	c.TeardownErr = rapid.IntRange(0, 9).Draw(t, "teardownErr") == 0
	c.MaxFailures = rapid.OneOf(rapid.Just(uint64(0)), rapid.Uint64Range(1, 5), rapid.Uint64Range(1, 400)).Draw(t, "maxFailures")
	c.MaxRate = rapid.OneOf(rapid.Just(0), rapid.IntRange(1, 100), rapid.SampledFrom([]int{1, 5, 10, 50, 99, 100})).Draw(t, "maxRate")
	shape := rapid.IntRange(0, 5).Draw(t, "shape")
	switch {
	case shape <= 1 && c.MaxRate > 0:
		// aim at the rate boundary: pick the total, then failed at floor/ceil of rate*total/100 +-1
		total := rapid.Uint64Range(1, 1200).Draw(t, "total")
		b := uint64(c.MaxRate) * total / 100
		delta := rapid.IntRange(-1, 2).Draw(t, "delta")
		f := int64(b) + int64(delta)
		if f < 0 {
			f = 0
		}
		if uint64(f) > total {
			f = int64(total)
		}
		if f > 400 {
			f = 400
		}
		c.F = uint64(f)
		rest := total - c.F
		if rest > 800 {
			rest = 800
		}
		c.D = 0
		if rapid.IntRange(0, 3).Draw(t, "withDropped") == 0 && rest > 0 {
			c.D = rapid.Uint64Range(0, min64(rest, 400)).Draw(t, "d")
		}
		c.S = min64(rest-c.D, 400)
	case shape == 2 && c.MaxFailures > 0:
		c.F = uint64(int64(c.MaxFailures) + int64(rapid.IntRange(-1, 1).Draw(t, "delta")))
		if c.F > 400 {
			c.F = 400
		}
		c.S = small.Draw(t, "s")
		c.D = small.Draw(t, "d")
	default:
		c.S = small.Draw(t, "s")
		c.F = small.Draw(t, "f")
		c.D = small.Draw(t, "d")
	}
	return c
}

func min64(a, b uint64) uint64 {
	if a < b {
		return a
	}
	return b
}

func record(section string, c verdictCase) {
	cls := []string{}
	if c.nontrivial() {
		cls = append(cls, "nontrivial")
	}
	if oracle(c) {
		cls = append(cls, "verdict-failed")
	} else {
		cls = append(cls, "verdict-passed")
	}
	if c.S+c.F+c.D == 0 {
		cls = append(cls, "zero-iterations")
	}
	if c.MaxRate > 0 && c.F > 0 {
		tot := c.S + c.F + c.D
		if (100*c.F)%tot != 0 && 100*c.F/tot == uint64(c.MaxRate) {
			cls = append(cls, "rate-fractionally-above")
		}
		if 100*c.F == uint64(c.MaxRate)*tot {
			cls = append(cls, "rate-exactly-at")
		}
	}
	stats.Case(section, c.key(), c.nontrivial(), cls, func() any { return c })
}

func TestProp_DirectVerdict(t *testing.T) {
	rapid.Check(t, func(rt *rapid.T) {
		c := genCase(rt)
		record("direct", c)
		if msg := judge(c); msg != "" {
			rt.Fatalf("VERIF-VIOLATION C08: %s", msg)
		}
	})
}

// TestEnum_Lattice enumerates a finite sub-space completely: every option
// combination of a small lattice with every triple in [0,6]^3.
func TestEnum_Lattice(t *testing.T) {
	n := 0
	for _, ign := range []bool{false, true} {
		for errs := 0; errs < 4; errs++ {
			for _, mf := range []uint64{0, 1, 2, 5} {
				for _, mr := range []int{0, 1, 5, 17, 50, 99, 100} {
					for s := uint64(0); s <= 6; s++ {
						for f := uint64(0); f <= 6; f++ {
							for d := uint64(0); d <= 6; d++ {
								c := verdictCase{S: s, F: f, D: d, SetupErr: errs&1 != 0, TeardownErr: errs&2 != 0,
									IgnoreDropped: ign, MaxFailures: mf, MaxRate: mr}
								record("lattice", c)
								n++
								if msg := judge(c); msg != "" {
									t.Fatalf("VERIF-VIOLATION C08: %s", msg)
								}
							}
						}
					}
				}
			}
		}
	}
	stats.Note("lattice_exhaustive", true)
	stats.Note("lattice_cases", int64(n))
}

// ---- CLI: error returned by ExecuteWithArgs <=> oracle --------------------------------

type cliCase struct {
	N           int // users mode: max-iterations
	Conc        int
	FailEvery   int // ids divisible by this fail (0 = none)
	FailFirst   int // ids <= this fail
	MaxFailures uint64
	MaxRate     int
	Ignore      bool
	Drops       bool   // constant-mode shape in which drops are certain by construction
	ViaFile     bool   // the same users run described by a config file (limits mapped by `run file`)
	PrevRun     bool   // the same F1 instance has executed another command before, with generous tolerances
	Profile     string // "" | "mem" | "cpu": the run is profiled (--memprofile / --cpuprofile), which must not touch the verdict
}

var (
	cliDir string
	cliSeq atomic.Int64
)

func TestProp_CLIVerdict(t *testing.T) {
	cliDir = t.TempDir()
	rapid.Check(t, func(rt *rapid.T) {
		c := cliCase{
			N:           rapid.IntRange(1, 60).Draw(rt, "n"),
			Conc:        rapid.IntRange(1, 6).Draw(rt, "conc"),
			FailEvery:   rapid.SampledFrom([]int{0, 0, 2, 3, 7, 20}).Draw(rt, "failEvery"),
			FailFirst:   rapid.SampledFrom([]int{0, 0, 1, 3}).Draw(rt, "failFirst"),
			MaxFailures: rapid.SampledFrom([]uint64{0, 0, 1, 3, 10}).Draw(rt, "maxFailures"),
			MaxRate:     rapid.SampledFrom([]int{0, 0, 5, 33, 50, 100, 100}).Draw(rt, "maxRate"),
			Ignore:      rapid.Bool().Draw(rt, "ignore"),
			Drops:       rapid.IntRange(0, 3).Draw(rt, "drops") == 0,
		}
		c.ViaFile = rapid.IntRange(0, 2).Draw(rt, "viaFile") == 0
		c.Profile = rapid.SampledFrom([]string{"", "", "", "mem", "cpu"}).Draw(rt, "profile")
		c.PrevRun = rapid.IntRange(0, 2).Draw(rt, "prevRun") == 0
		var passed, failed atomic.Uint64
		planFail := func(id uint64) bool {
			return (c.FailEvery > 0 && id%uint64(c.FailEvery) == 0) || id <= uint64(c.FailFirst)
		}
		var judging atomic.Bool
		scenario := func(*f1testing.T) f1testing.RunFn {
			return func(it *f1testing.T) {
				if !judging.Load() {
					return // the earlier command's iterations pass and are not counted
				}
				id, _ := strconv.ParseUint(it.Iteration, 10, 64)
				if c.Drops {
					time.Sleep(150 * time.Millisecond)
				}
				if planFail(id) {
					failed.Add(1)
					it.Fail()
					return
				}
				passed.Add(1)
			}
		}
		logger := slog.New(slog.NewTextHandler(io.Discard, nil))
		app := f1.New().WithLogger(logger).Add("verif_cli", scenario)
		var args []string
		if c.Drops {
			// 1 worker, 150 ms bodies, 5 requests every 50 ms for 200 ms: the 2nd tick supersedes >= 3 pending requests
			args = []string{"run", "constant", "verif_cli", "-v", "--rate", "5/50ms", "--distribution", "none",
				"--concurrency", "1", "--max-duration", "200ms"}
		} else {
			args = []string{"run", "users", "verif_cli", "-v", "--max-iterations", strconv.Itoa(c.N),
				"--concurrency", strconv.Itoa(c.Conc), "--max-duration", "30s"}
		}
		if c.ViaFile {
			yaml := fmt.Sprintf("scenario: verif_cli\nlimits:\n  max-duration: 30s\n  concurrency: %d\n  max-iterations: %d\n  ignore-dropped: %v\n", c.Conc, c.N, c.Ignore)
			if c.MaxFailures > 0 {
				yaml += fmt.Sprintf("  max-failures: %d\n", c.MaxFailures)
			}
			if c.MaxRate > 0 {
				yaml += fmt.Sprintf("  max-failures-rate: %d\n", c.MaxRate)
			}
			if c.Drops {
				// the constant-mode shape with certain drops, as a config file
				yaml = strings.Replace(yaml, "max-duration: 30s", "max-duration: 200ms", 1)
				yaml = strings.Replace(yaml, fmt.Sprintf("concurrency: %d", c.Conc), "concurrency: 1", 1)
				yaml = strings.Replace(yaml, fmt.Sprintf("max-iterations: %d", c.N), "max-iterations: 0", 1)
				yaml += "stages:\n- duration: 10s\n  mode: constant\n  rate: 5/50ms\n  jitter: 0\n  distribution: none\n"
			} else {
				yaml += fmt.Sprintf("stages:\n- duration: 30s\n  mode: users\n  concurrency: %d\n", c.Conc)
			}
			path := filepath.Join(cliDir, fmt.Sprintf("cfg-%d.yaml", cliSeq.Add(1)))
			if err := os.WriteFile(path, []byte(yaml), 0o600); err != nil {
				rt.Fatalf("VERIF-INFRA: %v", err)
			}
			defer os.Remove(path)
			args = []string{"run", "file", path, "-v"}
		}
		if c.MaxFailures > 0 && !c.ViaFile {
			args = append(args, "--max-failures", strconv.FormatUint(c.MaxFailures, 10))
		}
		if c.MaxRate > 0 && !c.ViaFile {
			args = append(args, "--max-failures-rate", strconv.Itoa(c.MaxRate))
		}
		if c.Ignore && !c.ViaFile {
			args = append(args, "--ignore-dropped")
		}
		if c.PrevRun {
			// every command line stands for itself: tolerances given to an earlier command on the same
			// F1 instance must not carry over to a command that does not give them
			_ = app.ExecuteWithArgs([]string{"run", "users", "verif_cli", "-v", "--max-iterations", "2", "--concurrency", "1", "--max-duration", "5s",
				"--max-failures", "1000000", "--max-failures-rate", "100", "--ignore-dropped"})
		}
		judging.Store(true)
		if c.Profile != "" {
			prof := filepath.Join(cliDir, fmt.Sprintf("%s-%d.pprof", c.Profile, cliSeq.Add(1)))
			defer os.Remove(prof)
			args = append(args, "--"+c.Profile+"profile", prof)
		}
		err := app.ExecuteWithArgs(args)
		s, f := passed.Load(), failed.Load()
		vc := verdictCase{S: s, F: f, IgnoreDropped: c.Ignore, MaxFailures: c.MaxFailures, MaxRate: c.MaxRate}
		if !c.Drops {
			if s+f != uint64(c.N) {
				rt.Fatalf("VERIF-VIOLATION C08(cli): users run with max-iterations %d executed %d iterations", c.N, s+f)
			}
			want := oracle(vc)
			cl := []string{"users"}
			if c.ViaFile {
				cl = append(cl, "via-config-file")
			}
			if c.Profile != "" {
				cl = append(cl, "profiled")
			}
			if c.PrevRun {
				cl = append(cl, "after-an-earlier-command")
			}
			stats.Case("cli", fmt.Sprintf("%+v", c), vc.nontrivial(), cl, func() any { return c })
			if (err != nil) != want {
				rt.Fatalf("VERIF-VIOLATION C08(cli): %+v -> %d passed %d failed: ExecuteWithArgs error=%v, documented rule says failed=%v", c, s, f, err, want)
			}
			return
		}
		// drops are certain (>=1) but their exact number is timing dependent: the verdict is
		// decided whenever it does not depend on that number.
		cd := []string{"constant-with-drops"}
		if c.ViaFile {
			cd = append(cd, "via-config-file")
		}
		stats.Case("cli", fmt.Sprintf("%+v", c), true, cd, func() any { return c })
		if !c.Ignore {
			if err == nil {
				rt.Fatalf("VERIF-VIOLATION C08(cli): %+v: iterations were certainly dropped, ignore-dropped is off, yet no error was returned", c)
			}
			return
		}
		// ignore-dropped on: evaluate the oracle at both extremes of the possible dropped counts; if they agree the verdict is determined
		lo, hi := vc, vc
		lo.D, hi.D = 1, 20
		if oracle(lo) == oracle(hi) && (err != nil) != oracle(lo) {
			rt.Fatalf("VERIF-VIOLATION C08(cli): %+v -> %d passed %d failed (+dropped, ignored): error=%v, documented rule says failed=%v", c, s, f, err, oracle(lo))
		}
	})
}

// TestRegress replays shrunk past failures as plain table tests (bypassing rapid).
func TestRegress(t *testing.T) {
	for _, c := range []verdictCase{
		// F3: zero iterations with a failure-rate tolerance divided by zero
		{MaxRate: 5},
		{MaxRate: 100, IgnoreDropped: true},
		// F3: 59 of 1000 failed is 5.9 % > 5 %
		{S: 941, F: 59, MaxRate: 5},
		{S: 0, F: 1, D: 0, MaxRate: 99},
		{S: 99, F: 1, MaxRate: 1},
		{S: 98, F: 2, MaxRate: 1},
		{S: 1, F: 1, D: 1, MaxRate: 33, IgnoreDropped: true},
	} {
		if msg := judge(c); msg != "" {
			t.Errorf("VERIF-VIOLATION C08: %s", msg)
		}
	}
}
