package c10

import (
	"fmt"
	"sync/atomic"
	"testing"
	"time"

	"pgregory.net/rapid"

	f1testing "github.com/form3tech-oss/f1/v2/pkg/f1/testing"
	"github.com/form3tech-oss/f1/v2/verifharness/vlib"
)

// Engine "run-start": the profile that DRIVES a `run staged` is the configured one as well - with a
// --startTime in the past the run enters the profile where the clock says it is. Two shapes, judged by
// whether iterations start at all in a short run (no rate arithmetic, no upper bound on time):
//   - "inside":  stages 10m:0, 0s:K, 10m:K started 11-19 min ago: the run is in the flat third stage,
//     K requests per tick from its first tick on, so iterations do start;
//   - "over":    stages 0s:K, 2s:K started 11-19 min ago: all stages have elapsed, the profile yields 0,
//     so no iteration starts.
func TestProp_StagedRunHonoursStartTime(t *testing.T) {
	dir := t.TempDir()
	// The flag's layout is "2006-01-02T15:04:05+07:00", in which "+07:00" is literal text, not a zone
	// (Go's zone reference is "-07:00"): f1 reads the clock time as UTC and requires that suffix.
	rapid.Check(t, func(rt *rapid.T) {
		shape := rapid.SampledFrom([]string{"inside", "over"}).Draw(rt, "shape")
		k := rapid.IntRange(1, 20).Draw(rt, "perTick")
		ago := time.Duration(rapid.IntRange(11, 19).Draw(rt, "startedMinutesAgo")) * time.Minute
		stages := fmt.Sprintf("10m:0,0s:%d,10m:%d", k, k)
		if shape == "over" {
			stages = fmt.Sprintf("0s:%d,2s:%d", k, k)
		}
		start := time.Now().Add(-ago).UTC().Format("2006-01-02T15:04:05") + "+07:00"
		var started atomic.Int64
		scenario := func(*f1testing.T) f1testing.RunFn {
			return func(*f1testing.T) { started.Add(1) }
		}
		spec := &vlib.RunSpec{Mode: "staged", FileDir: dir, ScenarioFn: scenario, WaitTimeout: 20 * time.Second,
			Flags: map[string]string{"stages": stages, "iterationFrequency": "50ms", "distribution": "none", "startTime": start}}
		spec.Opts.Concurrency = 32
		spec.Opts.MaxDuration = 400 * time.Millisecond
		spec.Opts.IgnoreDropped = true
		viaCLI := rapid.Bool().Draw(rt, "viaCLI")
		var err error
		if viaCLI {
			_, err = vlib.ExecuteCLI(spec)
		} else {
			_, err = vlib.Execute(spec)
		}
		if err != nil {
			rt.Fatalf("VERIF-INFRA: cannot execute run staged --stages %s --startTime %s: %v", stages, start, err)
		}
		desc := fmt.Sprintf("run staged --stages %s --iterationFrequency 50ms --startTime %s (%s ago) for 400ms, cli=%v", stages, start, ago, viaCLI)
		n := started.Load()
		stats.Case("run-start", desc, true, []string{"profile-" + shape}, func() any { return map[string]any{"case": desc, "iterations": n} })
		if shape == "inside" && n == 0 {
			rt.Fatalf("VERIF-VIOLATION C10: the run is %s into its profile, i.e. in the flat stage of %d per tick, yet no iteration started in 400 ms (%s)", ago, k, desc)
		}
		if shape == "over" && n != 0 {
			rt.Fatalf("VERIF-VIOLATION C10: all stages elapsed %s ago (the profile yields 0 once all stages have elapsed), yet %d iterations started (%s)", ago-2*time.Second, n, desc)
		}
	})
}
