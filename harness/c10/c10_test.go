// Package c10 decides property C10: staged and ramp profiles are the
// configured piecewise-linear shapes.
//
// Every generated case builds a FRESH rate function (they are stateful) and
// queries it at non-decreasing synthetic instants; the answers are compared
// with the statement evaluated in exact integer/rational arithmetic (math/big).
package c10

import (
	"fmt"
	"math/big"
	"sort"
	"strconv"
	"strings"
	"testing"
	"time"

	"pgregory.net/rapid"

	"github.com/form3tech-oss/f1/v2/internal/trigger/ramp"
	"github.com/form3tech-oss/f1/v2/internal/trigger/staged"
	"github.com/form3tech-oss/f1/v2/verifharness/vlib"
)

var stats = vlib.NewStats("C10")

func TestMain(m *testing.M) { vlib.Main(m, stats) }

const (
	maxTarget   = 1_000_000
	maxStageDur = int64(2 * time.Hour)
	year        = int64(365 * 24 * time.Hour)
)

// ---------------------------------------------------------------------------
// reference model (the property statement, exact arithmetic)

type stageSpec struct {
	D      int64 // duration in ns, 0 or [1, 2h]
	Target int   // end target, [0, 10^6]
}

type model struct {
	S    []int64 // S[i] = start offset of stage i, S[n] = T
	A, B []int   // start / end target of stage i (A[0] = 0, A[i+1] = B[i])
	D    []int64
	T    int64
}

func newModel(st []stageSpec) model {
	m := model{S: make([]int64, len(st)+1), A: make([]int, len(st)), B: make([]int, len(st)), D: make([]int64, len(st))}
	prev := 0
	for i, s := range st {
		m.A[i], m.B[i], m.D[i] = prev, s.Target, s.D
		m.S[i+1] = m.S[i] + s.D
		prev = s.Target
	}
	m.T = m.S[len(st)]
	return m
}

func minmax(a, b int) (int, int) {
	if a < b {
		return a, b
	}
	return b, a
}

// segmentOK: is v an admissible value of the segment a->b at position num/den
// (den > 0, 0 <= num <= den)? "within 1 of the exact value" and "never outside
// the two targets", decided without rounding:
// |v - (a + (b-a)*num/den)| <= 1  <=>  |(v-a)*den - (b-a)*num| <= den.
func segmentOK(v, a, b int, num, den int64) bool {
	lo, hi := minmax(a, b)
	if v < lo || v > hi {
		return false
	}
	lhs := new(big.Int).Mul(big.NewInt(int64(v)-int64(a)), big.NewInt(den))
	rhs := new(big.Int).Mul(big.NewInt(int64(b)-int64(a)), big.NewInt(num))
	diff := lhs.Sub(lhs, rhs)
	return diff.CmpAbs(big.NewInt(den)) <= 0
}

func exactText(a, b int, num, den int64) string {
	r := new(big.Rat).SetFrac(new(big.Int).Mul(big.NewInt(int64(b)-int64(a)), big.NewInt(num)), big.NewInt(den))
	r.Add(r, new(big.Rat).SetInt64(int64(a)))
	return r.FloatString(6)
}

// interior returns the index of the stage that strictly contains offset o
// (S[i] < o < S[i]+D[i]) or -1.
func (m model) interior(o int64) int {
	for i := range m.D {
		if m.S[i] < o && o < m.S[i+1] {
			return i
		}
	}
	return -1
}

// admissible decides one answer. Strictly inside a stage exactly that stage's
// interpolation applies. On an instant that is a stage boundary the statement
// does not say which neighbour owns it, so the value of ANY stage whose closed
// interval [S_i, S_i+D_i] contains the instant is accepted (a zero-length stage
// has no interpolation; only "never outside its two targets" can be asked of
// it); exactly at the total either the last stage's end value or 0; strictly
// after the total only 0.
func (m model) admissible(o int64, v int) (bool, string) {
	var allowed []string
	if o >= m.T {
		if v == 0 {
			return true, ""
		}
		allowed = append(allowed, "0 (all stages have elapsed)")
	}
	for i := range m.D {
		if o < m.S[i] || o > m.S[i+1] {
			continue
		}
		if m.D[i] == 0 {
			lo, hi := minmax(m.A[i], m.B[i])
			if v >= lo && v <= hi {
				return true, ""
			}
			allowed = append(allowed, fmt.Sprintf("stage %d (zero-length %d->%d): any value in [%d,%d]", i, m.A[i], m.B[i], lo, hi))
			continue
		}
		if segmentOK(v, m.A[i], m.B[i], o-m.S[i], m.D[i]) {
			return true, ""
		}
		lo, hi := minmax(m.A[i], m.B[i])
		allowed = append(allowed, fmt.Sprintf("stage %d (%d->%d over %v, from offset %v): exact %s, within 1 of it and in [%d,%d]",
			i, m.A[i], m.B[i], time.Duration(m.D[i]), time.Duration(m.S[i]), exactText(m.A[i], m.B[i], o-m.S[i], m.D[i]), lo, hi))
	}
	return false, strings.Join(allowed, " | ")
}

// judgeStaged checks a whole answer sequence (values[k] is the answer at
// offsets[k], offsets non-decreasing) plus the reported duration.
func judgeStaged(m model, offsets []int64, values []int, reported time.Duration) string {
	if int64(reported) != m.T {
		return fmt.Sprintf("reported total duration %v, sum of the stage durations is %v", reported, time.Duration(m.T))
	}
	lastStage, lastVal, lastOff := -1, 0, int64(0)
	for k, o := range offsets {
		v := values[k]
		if ok, allowed := m.admissible(o, v); !ok {
			return fmt.Sprintf("query #%d at offset %v (%dns) answered %d; admissible: %s", k, time.Duration(o), o, v, allowed)
		}
		if i := m.interior(o); i >= 0 {
			if i == lastStage {
				up := m.B[i] >= m.A[i]
				down := m.B[i] <= m.A[i]
				if (up && v < lastVal) || (down && v > lastVal) {
					return fmt.Sprintf("not monotone inside stage %d (%d->%d): offset %v answered %d, later offset %v answered %d",
						i, m.A[i], m.B[i], time.Duration(lastOff), lastVal, time.Duration(o), v)
				}
			}
			lastStage, lastVal, lastOff = i, v, o
		}
	}
	return ""
}

// ---------------------------------------------------------------------------
// staged: case, construction through the real entry points, evaluation

type stagedCase struct {
	Stages     []stageSpec
	Text       string // the stages rendered in the --stages grammar
	Path       string // calculate | parse+calculator | structs-zero | structs-chained
	StartGiven bool   // start passed in, or taken from the first query
	BaseNs     int64  // unix ns of the profile's start instant
	Freq       time.Duration
	Offsets    []int64 // non-decreasing, >= 0; Offsets[0] == 0 when !StartGiven
}

func (c stagedCase) key() string {
	return fmt.Sprintf("%s|%s|%v|%d|%v", c.Text, c.Path, c.StartGiven, c.BaseNs, c.Offsets)
}

func at(baseNs, off int64) time.Time { return time.Unix(0, baseNs).Add(time.Duration(off)) }

// evalStaged builds a fresh rate function and queries it in order.
func evalStaged(c stagedCase) (values []int, reported time.Duration, problem string) {
	defer func() {
		if r := recover(); r != nil {
			problem = fmt.Sprintf("panicked after %d answers: %v", len(values), r)
		}
	}()
	var startPtr *time.Time
	if c.StartGiven {
		s := at(c.BaseNs, 0)
		startPtr = &s
	}
	var rateFn func(time.Time) int
	switch c.Path {
	case "calculate":
		rates, err := staged.CalculateStagedRate(0, c.Freq, c.Text, "none", startPtr)
		if err != nil {
			return nil, 0, fmt.Sprintf("CalculateStagedRate rejected the stages: %v", err)
		}
		rateFn, reported = rates.Rate, rates.Duration
	case "builder":
		// the CLI's builder (flag set -> staged.Rate().New): start taken from the first query
		spec := &vlib.RunSpec{Mode: "staged", Flags: map[string]string{"stages": c.Text, "iterationFrequency": c.Freq.String(), "distribution": "none"}}
		trig, err := vlib.BuildTrigger(spec)
		if err != nil {
			return nil, 0, fmt.Sprintf("the staged builder rejected the stages: %v", err)
		}
		rateFn, reported = trig.DryRun, trig.Duration
	case "parse+calculator":
		st, err := staged.ParseStages(c.Text)
		if err != nil {
			return nil, 0, fmt.Sprintf("ParseStages rejected the stages: %v", err)
		}
		calc := staged.NewRateCalculator(st, startPtr)
		rateFn, reported = calc.Rate, calc.MaxDuration()
	default: // Stage structs as the repository's own tests build them
		st := make([]staged.Stage, len(c.Stages))
		prev := 0
		for i, s := range c.Stages {
			st[i] = staged.Stage{EndTarget: s.Target, Duration: time.Duration(s.D)}
			if c.Path == "structs-chained" {
				st[i].StartTarget = prev
			}
			prev = s.Target
		}
		calc := staged.NewRateCalculator(st, startPtr)
		rateFn, reported = calc.Rate, calc.MaxDuration()
	}
	for _, o := range c.Offsets {
		values = append(values, rateFn(at(c.BaseNs, o)))
	}
	if startPtr != nil && !startPtr.Equal(at(c.BaseNs, 0)) {
		// the start instant is the caller's value: a profile must not move it (the caller may build the
		// next profile from the same variable)
		return values, reported, fmt.Sprintf("the caller's start time variable was changed from %v to %v by querying the profile", at(c.BaseNs, 0), *startPtr)
	}
	return values, reported, ""
}

// runStaged evaluates, records and judges one case; "" = holds.
func runStaged(section string, c stagedCase) string {
	m := newModel(c.Stages)
	values, reported, problem := evalStaged(c)
	recordStaged(section, c, m, values)
	if problem != "" {
		return fmt.Sprintf("%s; case %s", problem, describeStaged(c, values))
	}
	if msg := judgeStaged(m, c.Offsets, values, reported); msg != "" {
		return fmt.Sprintf("%s; case %s", msg, describeStaged(c, values))
	}
	return ""
}

func describeStaged(c stagedCase, values []int) string {
	offs := make([]string, len(c.Offsets))
	for i, o := range c.Offsets {
		offs[i] = strconv.FormatInt(o, 10)
	}
	return fmt.Sprintf("stages=%q path=%s startGiven=%v startUnixNs=%d offsetsNs=[%s] answers=%v",
		c.Text, c.Path, c.StartGiven, c.BaseNs, strings.Join(offs, " "), values)
}

func recordStaged(section string, c stagedCase, m model, values []int) {
	differ := false
	for i := range m.B {
		if m.B[i] != m.B[0] {
			differ = true
		}
	}
	cls := map[string]bool{}
	inside := false
	perStage := map[int]int{}
	for k, o := range c.Offsets {
		if i := m.interior(o); i >= 0 {
			inside = true
			perStage[i]++
			if perStage[i] >= 2 {
				cls["two-queries-inside-one-stage"] = true
			}
			switch {
			case m.B[i] > m.A[i]:
				cls["q-inside-rising-stage"] = true
			case m.B[i] < m.A[i]:
				cls["q-inside-falling-stage"] = true
			default:
				cls["q-inside-flat-stage"] = true
			}
		}
		if k > 0 && c.Offsets[k-1] == o {
			cls["repeated-instant"] = true
		}
		switch {
		case o == 0:
			cls["q-at-0"] = true
		case o == m.T:
			cls["q-at-total"] = true
		case o > m.T:
			cls["q-after-total"] = true
		}
		for i := 1; i < len(m.D); i++ {
			if m.S[i] == 0 || m.S[i] == m.T {
				continue
			}
			switch o {
			case m.S[i]:
				cls["q-on-internal-boundary"] = true
			case m.S[i] - 1:
				cls["q-1ns-before-boundary"] = true
			case m.S[i] + 1:
				cls["q-1ns-after-boundary"] = true
			}
		}
		for i := range m.D {
			if m.D[i] == 0 && m.S[i] == o {
				cls["q-on-zero-length-stage"] = true
			}
		}
	}
	for i := range m.D {
		if m.D[i] == 0 {
			cls["has-zero-length-stage"] = true
		}
	}
	if c.StartGiven {
		cls["start-given"] = true
		if len(m.D) > 1 && len(c.Offsets) > 0 && c.Offsets[0] >= m.S[1] && m.S[1] > 0 {
			cls["first-query-skips-a-stage"] = true
		}
	} else {
		cls["start-from-first-query"] = true
	}
	cls["path-"+c.Path] = true
	nontrivial := len(m.D) >= 2 && differ && inside
	if nontrivial {
		cls["nontrivial"] = true
	}
	list := make([]string, 0, len(cls))
	for k := range cls {
		list = append(list, k)
	}
	stats.Case(section, c.key(), nontrivial, list, func() any {
		offs := make([]string, len(c.Offsets))
		for i, o := range c.Offsets {
			offs[i] = time.Duration(o).String()
		}
		return map[string]any{"stages": c.Text, "path": c.Path, "start_given": c.StartGiven,
			"start_unix_ns": c.BaseNs, "query_offsets": offs, "answers": values}
	})
}

// ---------------------------------------------------------------------------
// staged: generators

var baseInstants = []int64{
	0,                             // 1970-01-01 (not the zero time.Time)
	1_600_000_000_000_000_000,     // 2020
	1_700_000_000_123_456_789,     // 2023, odd nanoseconds
	4_000_000_000_999_999_999,     // 2096
	-1_000_000_000_000_000_001,    // 1938
	1_790_000_000_000_000_000 + 1, // 2026
}

func genDuration(t *rapid.T, label string) int64 {
	switch k := rapid.IntRange(0, 19).Draw(t, label+"Kind"); {
	case k <= 2:
		return 0
	case k == 3:
		return 1
	case k == 4:
		return rapid.Int64Range(1, 10).Draw(t, label)
	case k == 5:
		return rapid.Int64Range(1, 1000).Draw(t, label)
	case k <= 8:
		return rapid.Int64Range(1, 10_000).Draw(t, label) * int64(time.Millisecond)
	case k <= 12:
		return rapid.Int64Range(1, 7200).Draw(t, label) * int64(time.Second)
	case k == 13:
		return maxStageDur
	case k == 14:
		return rapid.Int64Range(1, 120).Draw(t, label) * int64(time.Minute)
	default:
		return rapid.Int64Range(1, maxStageDur).Draw(t, label)
	}
}

func genTarget(t *rapid.T, label string, prev int) int {
	v := prev
	switch k := rapid.IntRange(0, 15).Draw(t, label+"Kind"); {
	case k == 0:
		v = 0
	case k == 1:
		v = 1
	case k == 2:
		v = maxTarget
	case k == 3:
		v = prev // flat stage
	case k == 4:
		v = prev + rapid.SampledFrom([]int{-1, 1}).Draw(t, label)
	case k <= 7:
		v = rapid.IntRange(0, 10).Draw(t, label)
	case k <= 11:
		v = rapid.IntRange(0, 1000).Draw(t, label)
	default:
		v = rapid.IntRange(0, maxTarget).Draw(t, label)
	}
	if v < 0 {
		v = 0
	}
	if v > maxTarget {
		v = maxTarget
	}
	return v
}

// renderDuration writes d in one of several spellings of Go's duration syntax.
func renderDuration(t *rapid.T, d int64) string {
	var s string
	switch rapid.IntRange(0, 4).Draw(t, "durFmt") {
	case 0:
		s = time.Duration(d).String()
	case 1:
		s = fmt.Sprintf("%dns", d)
	case 2:
		s = largestUnit(d)
	case 3:
		if d%1000 == 0 {
			s = fmt.Sprintf("%d%s", d/1000, rapid.SampledFrom([]string{"us", "µs"}).Draw(t, "micro"))
		} else {
			s = largestUnit(d)
		}
	default:
		s = fmt.Sprintf("%d.%09ds", d/1_000_000_000, d%1_000_000_000)
	}
	if back, err := time.ParseDuration(s); err != nil || int64(back) != d {
		t.Fatalf("VERIF-INFRA: generator rendered %dns as %q which reads back as %v (%v)", d, s, back, err)
	}
	return s
}

func largestUnit(d int64) string {
	for _, u := range []struct {
		n int64
		s string
	}{{int64(time.Hour), "h"}, {int64(time.Minute), "m"}, {int64(time.Second), "s"}, {int64(time.Millisecond), "ms"}, {int64(time.Microsecond), "us"}} {
		if d != 0 && d%u.n == 0 {
			return fmt.Sprintf("%d%s", d/u.n, u.s)
		}
	}
	return fmt.Sprintf("%dns", d)
}

// renderTarget spells a target: plainly, zero-padded (still decimal: "0100" is one hundred) or signed.
func renderTarget(t *rapid.T, v int) string {
	switch rapid.IntRange(0, 9).Draw(t, "targetSpelling") {
	case 0:
		return strings.Repeat("0", rapid.IntRange(1, 3).Draw(t, "zeroPad")) + strconv.Itoa(v)
	case 1:
		return "+" + strconv.Itoa(v)
	default:
		return strconv.Itoa(v)
	}
}

func renderStages(t *rapid.T, st []stageSpec) string {
	spaced := rapid.IntRange(0, 2).Draw(t, "spacing")
	parts := make([]string, len(st))
	for i, s := range st {
		d := renderDuration(t, s.D)
		switch spaced {
		case 0:
			parts[i] = d + ":" + renderTarget(t, s.Target)
		case 1:
			parts[i] = d + ": " + renderTarget(t, s.Target)
		default:
			parts[i] = " " + d + " : " + renderTarget(t, s.Target) + " "
		}
	}
	if spaced == 1 {
		return strings.Join(parts, ", ")
	}
	return strings.Join(parts, ",")
}

func plainStages(st []stageSpec) string {
	parts := make([]string, len(st))
	for i, s := range st {
		parts[i] = time.Duration(s.D).String() + ":" + strconv.Itoa(s.Target)
	}
	return strings.Join(parts, ",")
}

func genOffsets(t *rapid.T, m model) []int64 {
	n := rapid.IntRange(1, vlib.ByTier(24, 64)).Draw(t, "queries")
	focus := rapid.IntRange(0, len(m.D)-1).Draw(t, "focusStage")
	offs := make([]int64, 0, n)
	for k := 0; k < n; k++ {
		var o int64
		switch kind := rapid.IntRange(0, 12).Draw(t, "qKind"); {
		case kind <= 2: // a stage boundary +-1ns
			i := rapid.IntRange(0, len(m.D)).Draw(t, "qBoundary")
			o = m.S[i] + int64(rapid.IntRange(-1, 1).Draw(t, "qDelta"))
		case kind == 3:
			o = 0
		case kind == 4:
			o = m.T + int64(rapid.IntRange(-1, 1).Draw(t, "qDelta"))
		case kind == 5:
			o = rapid.Int64Range(0, m.T).Draw(t, "qAny")
		case kind <= 8: // several queries in the same stage (monotonicity)
			o = m.S[focus] + rapid.Int64Range(0, m.D[focus]).Draw(t, "qFocus")
		case kind == 9:
			i := rapid.IntRange(0, len(m.D)-1).Draw(t, "qStage")
			o = m.S[i] + rapid.Int64Range(0, m.D[i]).Draw(t, "qIn")
		case kind == 10:
			o = m.T + rapid.Int64Range(1, 10_000_000_000).Draw(t, "qBeyond")
		case kind == 11:
			o = m.T + rapid.SampledFrom([]int64{int64(time.Hour), 1000 * int64(time.Hour), 100 * year}).Draw(t, "qFar")
		default: // the same instant again
			if len(offs) > 0 {
				o = offs[rapid.IntRange(0, len(offs)-1).Draw(t, "qRepeat")]
			}
		}
		if o < 0 {
			o = 0
		}
		offs = append(offs, o)
	}
	sort.Slice(offs, func(i, j int) bool { return offs[i] < offs[j] })
	return offs
}

func genStagedCase(t *rapid.T) stagedCase {
	n := rapid.SampledFrom([]int{1, 2, 2, 3, 3, 4, 5, 6, 7, 8}).Draw(t, "stages")
	st := make([]stageSpec, n)
	prev := 0
	for i := range st {
		st[i].D = genDuration(t, fmt.Sprintf("d%d", i))
		st[i].Target = genTarget(t, fmt.Sprintf("t%d", i), prev)
		prev = st[i].Target
	}
	c := stagedCase{Stages: st}
	c.Text = renderStages(t, st)
	c.Path = rapid.SampledFrom([]string{"calculate", "calculate", "calculate", "parse+calculator", "structs-zero", "structs-chained"}).Draw(t, "path")
	c.StartGiven = rapid.Bool().Draw(t, "startGiven")
	c.BaseNs = rapid.SampledFrom(baseInstants).Draw(t, "base")
	c.Freq = rapid.SampledFrom([]time.Duration{time.Nanosecond, time.Millisecond, 100 * time.Millisecond, time.Second, time.Minute}).Draw(t, "frequency")
	m := newModel(st)
	c.Offsets = genOffsets(t, m)
	if c.StartGiven && n > 1 && rapid.IntRange(0, 3).Draw(t, "lateFirstQuery") == 0 {
		// the first query comes late: whole stages are skipped in one call
		from := m.S[rapid.IntRange(1, n).Draw(t, "lateStage")] + int64(rapid.IntRange(-1, 1).Draw(t, "lateDelta"))
		kept := []int64{}
		for _, o := range c.Offsets {
			if o >= from {
				kept = append(kept, o)
			}
		}
		if len(kept) == 0 {
			if from < 0 {
				from = 0
			}
			kept = append(kept, from)
		}
		c.Offsets = kept
	}
	if !c.StartGiven {
		// the first query IS the start
		c.Offsets = append([]int64{0}, c.Offsets...)
		if c.Path == "calculate" && rapid.IntRange(0, 2).Draw(t, "viaBuilder") == 0 {
			c.Path = "builder"
		}
	}
	return c
}

func TestProp_Staged(t *testing.T) {
	rapid.Check(t, func(rt *rapid.T) {
		c := genStagedCase(rt)
		if msg := runStaged("staged", c); msg != "" {
			rt.Fatalf("VERIF-VIOLATION C10: staged: %s", msg)
		}
	})
}

// ---------------------------------------------------------------------------
// ramp

type rampCase struct {
	Start, End         int
	StartText, EndText string
	Unit               time.Duration
	Dur                time.Duration
	BaseNs             int64
	Offsets            []int64 // non-decreasing, Offsets[0] == 0 (the first query is the ramp's start)
	// Via "builder": the trigger is built by ramp.Rate().New from a flag set that also holds the run's
	// --max-duration (MaxDur), the way the CLI builds it; DurFlagZero: --ramp-duration 0, which the
	// builder documents as "use --max-duration" (then Dur == MaxDur).
	Via         string
	MaxDur      time.Duration
	DurFlagZero bool
}

func (c rampCase) key() string {
	return fmt.Sprintf("%s|%s|%d|%d|%v|%s|%d|%v", c.StartText, c.EndText, c.Dur, c.BaseNs, c.Offsets, c.Via, c.MaxDur, c.DurFlagZero)
}

func evalRamp(c rampCase) (values []int, reported time.Duration, problem string) {
	defer func() {
		if r := recover(); r != nil {
			problem = fmt.Sprintf("panicked after %d answers: %v", len(values), r)
		}
	}()
	if c.Via == "builder" {
		durFlag := c.Dur.String()
		if c.DurFlagZero {
			durFlag = "0s"
		}
		spec := &vlib.RunSpec{Mode: "ramp", Flags: map[string]string{"start-rate": c.StartText, "end-rate": c.EndText, "ramp-duration": durFlag, "distribution": "none"}}
		spec.Opts.MaxDuration = c.MaxDur
		trig, err := vlib.BuildTrigger(spec)
		if err != nil {
			return nil, 0, fmt.Sprintf("the ramp builder rejected different rates, equal units and duration >= unit (--max-duration %v, --ramp-duration %s): %v", c.MaxDur, durFlag, err)
		}
		for _, o := range c.Offsets {
			values = append(values, trig.DryRun(at(c.BaseNs, o)))
		}
		return values, c.Dur, "" // the builder does not report a duration
	}
	rates, err := ramp.CalculateRampRate(c.StartText, c.EndText, "none", c.Dur, 0)
	if err != nil {
		return nil, 0, fmt.Sprintf("CalculateRampRate rejected a ramp with different rates, equal units and duration >= unit: %v", err)
	}
	for _, o := range c.Offsets {
		values = append(values, rates.Rate(at(c.BaseNs, o)))
	}
	return values, rates.Duration, ""
}

func judgeRamp(c rampCase, values []int, reported time.Duration) string {
	if reported != c.Dur {
		return fmt.Sprintf("reported duration %v, ramp duration is %v", reported, c.Dur)
	}
	havePrev, prevVal, prevOff := false, 0, int64(0)
	for k, o := range c.Offsets {
		v := values[k]
		if o > int64(c.Dur) {
			if v != 0 {
				return fmt.Sprintf("query #%d at offset %v, after the ramp duration, answered %d instead of 0", k, time.Duration(o), v)
			}
			continue
		}
		if !segmentOK(v, c.Start, c.End, o, int64(c.Dur)) {
			lo, hi := minmax(c.Start, c.End)
			return fmt.Sprintf("query #%d at offset %v (%dns) answered %d; exact %s, must be within 1 of it and in [%d,%d]",
				k, time.Duration(o), o, v, exactText(c.Start, c.End, o, int64(c.Dur)), lo, hi)
		}
		if havePrev && ((c.End > c.Start && v < prevVal) || (c.End < c.Start && v > prevVal)) {
			return fmt.Sprintf("not monotone: offset %v answered %d, later offset %v answered %d", time.Duration(prevOff), prevVal, time.Duration(o), v)
		}
		havePrev, prevVal, prevOff = true, v, o
	}
	return ""
}

func describeRamp(c rampCase, values []int) string {
	return fmt.Sprintf("start-rate=%q end-rate=%q ramp-duration=%v(%dns) startUnixNs=%d offsetsNs=%v answers=%v via=%q max-duration=%v ramp-duration-flag-zero=%v",
		c.StartText, c.EndText, c.Dur, int64(c.Dur), c.BaseNs, c.Offsets, values, c.Via, c.MaxDur, c.DurFlagZero)
}

func runRamp(section string, c rampCase) string {
	values, reported, problem := evalRamp(c)
	cls := map[string]bool{}
	inside := 0
	for k, o := range c.Offsets {
		switch {
		case o == 0:
		case o < int64(c.Dur):
			inside++
		case o == int64(c.Dur):
			cls["q-at-duration"] = true
		case o == int64(c.Dur)+1:
			cls["q-1ns-after-duration"] = true
			cls["q-after-duration"] = true
		default:
			cls["q-after-duration"] = true
		}
		if o == int64(c.Dur)-1 {
			cls["q-1ns-before-duration"] = true
		}
		if k > 0 && c.Offsets[k-1] == o {
			cls["repeated-instant"] = true
		}
	}
	if c.End > c.Start {
		cls["rising"] = true
	} else {
		cls["falling"] = true
	}
	if c.Dur == c.Unit {
		cls["duration-equals-unit"] = true
	}
	if unitSpelling(c.StartText) != unitSpelling(c.EndText) {
		cls["same-unit-spelled-differently"] = true
	}
	if inside >= 2 {
		cls["two-queries-inside"] = true
	}
	if c.Via == "builder" {
		cls["via-builder"] = true
		switch {
		case c.DurFlagZero:
			cls["via-builder-duration-from-max-duration"] = true
		case c.MaxDur < c.Dur:
			cls["via-builder-max-duration-shorter-than-ramp"] = true
		}
	}
	nontrivial := inside >= 1
	if nontrivial {
		cls["nontrivial"] = true
	}
	list := make([]string, 0, len(cls))
	for k := range cls {
		list = append(list, k)
	}
	stats.Case(section, c.key(), nontrivial, list, func() any {
		offs := make([]string, len(c.Offsets))
		for i, o := range c.Offsets {
			offs[i] = time.Duration(o).String()
		}
		return map[string]any{"start_rate": c.StartText, "end_rate": c.EndText, "ramp_duration": c.Dur.String(),
			"start_unix_ns": c.BaseNs, "query_offsets": offs, "answers": values}
	})
	if problem != "" {
		return fmt.Sprintf("%s; case %s", problem, describeRamp(c, values))
	}
	if msg := judgeRamp(c, values, reported); msg != "" {
		return fmt.Sprintf("%s; case %s", msg, describeRamp(c, values))
	}
	return ""
}

// spellings of one unit; "" = the form without a slash (unit 1s).
var rampUnits = []struct {
	d      time.Duration
	spells []string
}{
	{time.Nanosecond, []string{"ns", "1ns"}},
	{time.Microsecond, []string{"us", "µs", "1us", "1000ns"}},
	{time.Millisecond, []string{"ms", "1ms", "1000us"}},
	{10 * time.Millisecond, []string{"10ms", "0.01s"}},
	{100 * time.Millisecond, []string{"100ms", "0.1s"}},
	{500 * time.Millisecond, []string{"500ms", "0.5s"}},
	{time.Second, []string{"s", "1s", "1000ms", ""}},
	{1500 * time.Millisecond, []string{"1.5s", "1500ms", "1s500ms"}},
	{2 * time.Second, []string{"2s", "2000ms"}},
	{30 * time.Second, []string{"30s", "0.5m"}},
	{time.Minute, []string{"m", "1m", "60s"}},
	{5 * time.Minute, []string{"5m", "300s"}},
	{time.Hour, []string{"h", "1h", "60m"}},
}

func unitSpelling(rateArg string) string {
	if i := strings.Index(rateArg, "/"); i >= 0 {
		return rateArg[i+1:]
	}
	return ""
}

func rateText(n int, spell string) string {
	if spell == "" {
		return strconv.Itoa(n)
	}
	return strconv.Itoa(n) + "/" + spell
}

func genRate(t *rapid.T, label string) int {
	switch k := rapid.IntRange(0, 9).Draw(t, label+"Kind"); {
	case k == 0:
		return 0
	case k == 1:
		return 1
	case k == 2:
		return maxTarget
	case k <= 4:
		return rapid.IntRange(0, 10).Draw(t, label)
	case k <= 7:
		return rapid.IntRange(0, 1000).Draw(t, label)
	default:
		return rapid.IntRange(0, maxTarget).Draw(t, label)
	}
}

func genRampCase(t *rapid.T) rampCase {
	var c rampCase
	c.Start = genRate(t, "start")
	c.End = genRate(t, "end")
	if c.End == c.Start { // the rates must differ
		if c.End < maxTarget {
			c.End += rapid.IntRange(1, maxTarget-c.End).Draw(t, "endShift")
		} else {
			c.End -= rapid.IntRange(1, maxTarget).Draw(t, "endShift")
		}
	}
	u := rapid.SampledFrom(rampUnits).Draw(t, "unit")
	c.Unit = u.d
	c.StartText = rateText(c.Start, rapid.SampledFrom(u.spells).Draw(t, "startSpell"))
	c.EndText = rateText(c.End, rapid.SampledFrom(u.spells).Draw(t, "endSpell"))
	unit := int64(u.d)
	var d int64
	switch k := rapid.IntRange(0, 9).Draw(t, "durKind"); {
	case k == 0:
		d = unit
	case k == 1:
		d = unit + 1
	case k <= 3:
		d = unit * rapid.Int64Range(1, 100).Draw(t, "durMul")
	case k == 4:
		d = unit + rapid.Int64Range(0, 1000).Draw(t, "durPlus")
	case k <= 7:
		d = rapid.Int64Range(unit, maxStageDur).Draw(t, "dur")
	case k == 8:
		d = maxStageDur
	default:
		d = rapid.Int64Range(maxStageDur, 48*int64(time.Hour)).Draw(t, "durLong")
	}
	c.Dur = time.Duration(d)
	if rapid.IntRange(0, 3).Draw(t, "viaBuilder") == 0 {
		// through the CLI's builder, whose flag set also holds --max-duration: shorter than, equal to or
		// longer than the ramp, or the documented source of the ramp duration (--ramp-duration 0)
		c.Via = "builder"
		switch rapid.IntRange(0, 3).Draw(t, "maxDurKind") {
		case 0:
			c.MaxDur = time.Duration(rapid.Int64Range(1, d).Draw(t, "maxDurShorter"))
		case 1:
			c.MaxDur = c.Dur
		case 2:
			c.MaxDur = c.Dur + time.Duration(rapid.Int64Range(1, int64(time.Hour)).Draw(t, "maxDurLonger"))
		default:
			c.DurFlagZero = true
			c.MaxDur = c.Dur
		}
	}
	c.BaseNs = rapid.SampledFrom(baseInstants).Draw(t, "base")
	n := rapid.IntRange(0, vlib.ByTier(20, 60)).Draw(t, "queries")
	offs := make([]int64, 0, n)
	for k := 0; k < n; k++ {
		var o int64
		switch kind := rapid.IntRange(0, 11).Draw(t, "qKind"); {
		case kind == 0:
			o = 0
		case kind == 1:
			o = 1
		case kind <= 3:
			o = d + int64(rapid.IntRange(-1, 1).Draw(t, "qDelta"))
		case kind <= 8:
			o = rapid.Int64Range(0, d).Draw(t, "qIn")
		case kind == 9:
			o = d + rapid.Int64Range(1, 10_000_000_000).Draw(t, "qBeyond")
		case kind == 10:
			o = d + rapid.SampledFrom([]int64{int64(time.Hour), 1000 * int64(time.Hour), 100 * year}).Draw(t, "qFar")
		default:
			if len(offs) > 0 {
				o = offs[rapid.IntRange(0, len(offs)-1).Draw(t, "qRepeat")]
			}
		}
		if o < 0 {
			o = 0
		}
		offs = append(offs, o)
	}
	sort.Slice(offs, func(i, j int) bool { return offs[i] < offs[j] })
	c.Offsets = append([]int64{0}, offs...) // the first query is the ramp's start
	return c
}

func TestProp_Ramp(t *testing.T) {
	rapid.Check(t, func(rt *rapid.T) {
		c := genRampCase(rt)
		if msg := runRamp("ramp", c); msg != "" {
			rt.Fatalf("VERIF-VIOLATION C10: ramp: %s", msg)
		}
	})
}

// ---------------------------------------------------------------------------
// exhaustive small scopes

// TestEnum_StagedSmallScope: every list of 1..3 stages with durations in
// {0,1,2,3} ns and targets in {0,1,2,7}; for each, the full sweep 0..T+2 in
// both start modes and every non-decreasing pair (o1 <= o2) of offsets in
// 0..T+2 with the start given (each on a fresh calculator).
func TestEnum_StagedSmallScope(t *testing.T) {
	durs := []int64{0, 1, 2, 3}
	targets := []int{0, 1, 2, 7}
	var lists [][]stageSpec
	var rec func(prefix []stageSpec, depth int)
	rec = func(prefix []stageSpec, depth int) {
		if len(prefix) > 0 {
			lists = append(lists, append([]stageSpec{}, prefix...))
		}
		if depth == 3 {
			return
		}
		for _, d := range durs {
			for _, tg := range targets {
				rec(append(prefix, stageSpec{d, tg}), depth+1)
			}
		}
	}
	rec(nil, 0)
	paths := []string{"calculate", "parse+calculator", "structs-zero", "structs-chained"}
	n := 0
	for li, st := range lists {
		m := newModel(st)
		text := plainStages(st)
		base := baseInstants[li%len(baseInstants)]
		run := func(given bool, offs []int64) {
			c := stagedCase{Stages: st, Text: text, Path: paths[n%len(paths)], StartGiven: given, BaseNs: base, Freq: time.Second, Offsets: offs}
			n++
			if msg := runStaged("enum-staged", c); msg != "" {
				t.Fatalf("VERIF-VIOLATION C10: staged: %s", msg)
			}
		}
		var sweep []int64
		for o := int64(0); o <= m.T+2; o++ {
			sweep = append(sweep, o)
		}
		run(true, sweep)
		run(false, sweep)
		for o1 := int64(0); o1 <= m.T+2; o1++ {
			for o2 := o1; o2 <= m.T+2; o2++ {
				run(true, []int64{o1, o2})
			}
		}
	}
	stats.Note("enum_staged_exhaustive", true)
	stats.Note("enum_staged_lists", int64(len(lists)))
	stats.Note("enum_staged_cases", int64(n))
}

// TestEnum_RampSmallScope: every ramp with rates in 0..4 (different), unit
// 1ns, duration 1..6 ns; the full sweep and every pair (0, o1 <= o2).
func TestEnum_RampSmallScope(t *testing.T) {
	n := 0
	for s := 0; s <= 4; s++ {
		for e := 0; e <= 4; e++ {
			if s == e {
				continue
			}
			for d := int64(1); d <= 6; d++ {
				run := func(offs []int64) {
					c := rampCase{Start: s, End: e, StartText: rateText(s, "ns"), EndText: rateText(e, "1ns"), Unit: time.Nanosecond,
						Dur: time.Duration(d), BaseNs: baseInstants[n%len(baseInstants)], Offsets: offs}
					n++
					if msg := runRamp("enum-ramp", c); msg != "" {
						t.Fatalf("VERIF-VIOLATION C10: ramp: %s", msg)
					}
				}
				var sweep []int64
				for o := int64(0); o <= d+2; o++ {
					sweep = append(sweep, o)
				}
				run(sweep)
				for o1 := int64(0); o1 <= d+2; o1++ {
					for o2 := o1; o2 <= d+2; o2++ {
						run([]int64{0, o1, o2})
					}
				}
			}
		}
	}
	stats.Note("enum_ramp_exhaustive", true)
	stats.Note("enum_ramp_cases", int64(n))
}

// ---------------------------------------------------------------------------
// regression table: hostile constants and the shrunk inputs of the deliberate
// breakages tried while validating this check (plain, bypasses rapid)

func TestRegress(t *testing.T) {
	h, s, ms := int64(time.Hour), int64(time.Second), int64(time.Millisecond)
	type sc struct {
		text    string
		stages  []stageSpec
		given   bool
		offsets []int64
	}
	cases := []sc{
		// the flag's default value: a zero-length first stage jumps to 1 at once
		{"0s:1, 10s:1", []stageSpec{{0, 1}, {10 * s, 1}}, false, []int64{0, 1, 5 * s, 10*s - 1, 10 * s, 10*s + 1}},
		{"0s:1, 10s:1", []stageSpec{{0, 1}, {10 * s, 1}}, true, []int64{0, 0, 10 * s, 11 * s}},
		// zero-length stage in the middle, queried exactly on it (stays on a zero-length stage => 0/0)
		{"10s:5,0s:100,10s:50", []stageSpec{{10 * s, 5}, {0, 100}, {10 * s, 50}}, true, []int64{0, 5 * s, 10*s - 1, 10 * s, 10*s + 1, 15 * s, 20*s - 1, 20 * s, 20*s + 1}},
		{"10s:5,0s:100,10s:50", []stageSpec{{10 * s, 5}, {0, 100}, {10 * s, 50}}, true, []int64{10 * s}},
		// only zero-length stages; zero-length last stage; several zero-length stages in a row
		{"0s:5", []stageSpec{{0, 5}}, false, []int64{0, 0, 1}},
		{"0s:5,0s:9,0s:2", []stageSpec{{0, 5}, {0, 9}, {0, 2}}, true, []int64{0, 1}},
		{"10s:5,0s:100", []stageSpec{{10 * s, 5}, {0, 100}}, true, []int64{10*s - 1, 10 * s, 10*s + 1}},
		{"1s:4,0s:9,0s:2,1s:0", []stageSpec{{s, 4}, {0, 9}, {0, 2}, {s, 0}}, false, []int64{0, s - 1, s, s + 1, 2*s - 1, 2 * s}},
		// 1ns stages
		{"1ns:1000000,1ns:0,1ns:7", []stageSpec{{1, 1000000}, {1, 0}, {1, 7}}, true, []int64{0, 1, 2, 3, 4}},
		// longest stage, largest target, every ns around the ends
		{"2h:1000000,2h:0", []stageSpec{{2 * h, 1000000}, {2 * h, 0}}, false, []int64{0, 1, 7199, 7200, 7201, h, 2*h - 1, 2 * h, 2*h + 1, 3 * h, 4*h - 7200, 4*h - 1, 4 * h, 4*h + 1, 100 * year}},
		// start target must be chained, not 0 (second stage falls from 100 to 10)
		{"1s:100,1s:10", []stageSpec{{s, 100}, {s, 10}}, true, []int64{s + 1, s + 500*ms, 2*s - 1}},
		// the first query skips whole stages
		{"1s:100,1s:10,1s:70", []stageSpec{{s, 100}, {s, 10}, {s, 70}}, true, []int64{2*s + 500*ms, 3 * s}},
		{"1s:100,1s:10,1s:70", []stageSpec{{s, 100}, {s, 10}, {s, 70}}, true, []int64{3*s + 1}},
		// the final 0 must not be dropped, also when the only query is late
		{"5ms:3", []stageSpec{{5 * ms, 3}}, true, []int64{5*ms + 1}},
		{"5ms:3", []stageSpec{{5 * ms, 3}}, false, []int64{0, 5*ms + 1, 6 * ms}},
		// odd durations: truncation against the exact rational
		{"7ns:3,13ns:1000000,3ns:999999", []stageSpec{{7, 3}, {13, 1000000}, {3, 999999}}, true, []int64{0, 1, 2, 3, 4, 5, 6, 7, 8, 9, 10, 11, 12, 13, 14, 15, 16, 17, 18, 19, 20, 21, 22, 23, 24}},
	}
	for _, c := range cases {
		for _, path := range []string{"calculate", "parse+calculator", "structs-zero", "structs-chained"} {
			for _, base := range []int64{baseInstants[0], baseInstants[2]} {
				k := stagedCase{Stages: c.stages, Text: c.text, Path: path, StartGiven: c.given, BaseNs: base, Freq: time.Second, Offsets: c.offsets}
				if msg := runStaged("regress", k); msg != "" {
					t.Errorf("VERIF-VIOLATION C10: staged: %s", msg)
				}
			}
		}
	}
	ramps := []rampCase{
		{Start: 0, End: 10, StartText: "0/s", EndText: "10/s", Unit: time.Second, Dur: 10 * time.Second, Offsets: []int64{0, 1, s, 5 * s, 10*s - 1, 10 * s, 10*s + 1, 11 * s}},
		{Start: 10, End: 0, StartText: "10/s", EndText: "0/1s", Unit: time.Second, Dur: time.Second, Offsets: []int64{0, 1, 500 * ms, s - 1, s, s + 1}},
		{Start: 1000000, End: 0, StartText: "1000000", EndText: "0/1000ms", Unit: time.Second, Dur: 48 * time.Hour, Offsets: []int64{0, 1, 172799, 172800, 172801, 24 * h, 48*h - 1, 48 * h, 48*h + 1, 100 * year}},
		{Start: 3, End: 4, StartText: "3/ns", EndText: "4/1ns", Unit: time.Nanosecond, Dur: 1, Offsets: []int64{0, 0, 1, 1, 2}},
		{Start: 1, End: 100, StartText: "1/100ms", EndText: "100/0.1s", Unit: 100 * time.Millisecond, Dur: 100*time.Millisecond + 1, Offsets: []int64{0, 100 * ms, 100*ms + 1, 100*ms + 2}},
		{Start: 5, End: 6, StartText: "5/h", EndText: "6/60m", Unit: time.Hour, Dur: time.Hour, Offsets: []int64{0, h}},
	}
	for _, c := range ramps {
		c.BaseNs = baseInstants[2]
		if msg := runRamp("regress", c); msg != "" {
			t.Errorf("VERIF-VIOLATION C10: ramp: %s", msg)
		}
	}
}
