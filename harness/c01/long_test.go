package c01

import (
	"strconv"
	"sync/atomic"
	"testing"
	"time"

	"github.com/prometheus/client_golang/prometheus"

	"github.com/form3tech-oss/f1/v2/internal/metrics"
	f1testing "github.com/form3tech-oss/f1/v2/pkg/f1/testing"
	"github.com/form3tech-oss/f1/v2/verifharness/vlib"
)

// TestLong_RunAcrossProgressCadenceChange (thorough tier only: it takes 72 s): the progress reporter
// collects every second for the first minute and every ten seconds after that. One users-mode run lasts
// long enough to cross that change; every executed iteration is still counted exactly once in the
// final result and in the exported metric.
func TestLong_RunAcrossProgressCadenceChange(t *testing.T) {
	if vlib.Tier() != "thorough" {
		t.Skip("thorough tier only")
	}
	var passed, failed atomic.Uint64
	scenario := func(*f1testing.T) f1testing.RunFn {
		return func(it *f1testing.T) {
			id, _ := strconv.ParseUint(it.Iteration, 10, 64)
			time.Sleep(time.Millisecond)
			if id%7 == 0 {
				failed.Add(1)
				it.Fail()
				return
			}
			passed.Add(1)
		}
	}
	spec := &vlib.RunSpec{Mode: "users", FileDir: t.TempDir(), ScenarioFn: scenario, WaitTimeout: 20 * time.Second}
	spec.Opts.Concurrency = 4
	spec.Opts.MaxDuration = 72 * time.Second
	spec.Opts.IgnoreDropped = true
	spec.Metrics = metrics.NewInstance(prometheus.NewRegistry(), true, nil)
	out, err := vlib.Execute(spec)
	if err != nil {
		t.Fatalf("VERIF-INFRA: %v", err)
	}
	snap := out.Result.Snapshot()
	s, f := passed.Load(), failed.Load()
	mc, err := vlib.GatherCounts(out.Metrics)
	if err != nil {
		t.Fatalf("VERIF-INFRA: gather: %v", err)
	}
	stats.Case("long-run", "users c=4 72s", s > 0 && f > 0, []string{"crosses-the-progress-cadence-change"}, func() any {
		return map[string]any{"run": "users c=4 body=1ms duration=72s", "passed": s, "failed": f}
	})
	if snap.SuccessfulIterationDurations.Count != s || snap.FailedIterationDurations.Count != f {
		t.Fatalf("VERIF-VIOLATION C01: a users run of 72 s (4 workers, 1 ms bodies) ran %d passing and %d failing iterations, the final result reports %d successful and %d failed",
			s, f, snap.SuccessfulIterationDurations.Count, snap.FailedIterationDurations.Count)
	}
	if mc.Iteration["success"] != s || mc.Iteration["fail"] != f {
		t.Fatalf("VERIF-VIOLATION C01: a users run of 72 s ran %d passing and %d failing iterations, the metric carries success=%d fail=%d", s, f, mc.Iteration["success"], mc.Iteration["fail"])
	}
}
