package c01

import (
	"fmt"
	"runtime"
	"strconv"
	"sync"
	"sync/atomic"
	"testing"
	"time"

	"pgregory.net/rapid"

	f1testing "github.com/form3tech-oss/f1/v2/pkg/f1/testing"
	"github.com/form3tech-oss/f1/v2/verifharness/vlib"
)

// ---- engine "late-helper": hook-free, really parallel ------------------------------------
//
// Iterations start a helper goroutine that reports a failure on the iteration's handle
// (T.Fail may be called from other goroutines) a drawn number of spins AFTER the body has
// returned, i.e. while the worker is booking that iteration. f1 may count such an iteration
// either way - what the statement fixes is that the final result and the exported iteration
// metric carry the SAME counts: the outcome is decided once and booked twice. No yield point
// is involved, so the window between the two bookings is hit by real parallelism: the helper
// busy-waits on a flag the body sets when it returns (or, in the "chan" class, on a channel
// closed there) and then spins 0..maxSpin steps before failing the handle.
func TestProp_LateHelperFailure(t *testing.T) {
	dir := t.TempDir()
	rapid.Check(t, func(rt *rapid.T) {
		n := rapid.IntRange(3000, 9000).Draw(rt, "iterations")
		maxSpin := rapid.SampledFrom([]int{60, 250, 1000, 4000}).Draw(rt, "maxSpin")
		conc := rapid.IntRange(1, 3).Draw(rt, "concurrency")
		every := rapid.IntRange(1, 3).Draw(rt, "lateEvery")
		wake := rapid.SampledFrom([]string{"spin", "spin", "chan"}).Draw(rt, "wake")
		planFail := rapid.SampledFrom([]int{0, 5, 11}).Draw(rt, "failEvery")

		var helpers sync.WaitGroup
		var lateCalls, sink atomic.Int64
		scenario := func(*f1testing.T) f1testing.RunFn {
			return func(it *f1testing.T) {
				id, _ := strconv.Atoi(it.Iteration)
				if planFail > 0 && id%planFail == 0 {
					it.Fail()
					return
				}
				if id%every != 0 {
					return
				}
				spin := (id * 7919) % (maxSpin + 1)
				helpers.Add(1)
				if wake == "chan" {
					returned := make(chan struct{})
					go func() {
						defer helpers.Done()
						<-returned
						x := 0
						for i := 0; i < spin; i++ {
							x += i
						}
						sink.Add(int64(x & 1))
						it.Fail()
						lateCalls.Add(1)
					}()
					defer close(returned)
					return
				}
				var ready, done atomic.Bool
				go func() {
					defer helpers.Done()
					ready.Store(true)
					for !done.Load() {
					}
					x := 0
					for i := 0; i < spin; i++ {
						x += i
					}
					sink.Add(int64(x & 1))
					it.Fail()
					lateCalls.Add(1)
				}()
				for !ready.Load() {
					runtime.Gosched()
				}
				defer done.Store(true)
			}
		}
		spec := &vlib.RunSpec{Mode: "users", FileDir: dir, ScenarioFn: scenario, WaitTimeout: 20 * time.Second}
		spec.Opts.Concurrency = conc
		spec.Opts.MaxDuration = 60 * time.Second
		spec.Opts.MaxIterations = uint64(n)
		spec.Opts.IgnoreDropped = true
		out, err := vlib.Execute(spec)
		if err != nil {
			rt.Fatalf("VERIF-INFRA: cannot execute: %v", err)
		}
		helpers.Wait()
		snap := out.Result.Snapshot()
		mc, err := vlib.GatherCounts(out.Metrics)
		if err != nil {
			rt.Fatalf("VERIF-INFRA: gather: %v", err)
		}
		desc := fmt.Sprintf("users c=%d n=%d lateEvery=%d maxSpin=%d wake=%s failEvery=%d", conc, n, every, maxSpin, wake, planFail)
		stats.Case("late-helper", desc, lateCalls.Load() > 0, []string{"late-helper", "late-helper-" + wake}, func() any {
			return map[string]any{"case": desc, "late_fail_calls": lateCalls.Load(),
				"result_success": snap.SuccessfulIterationDurations.Count, "result_failed": snap.FailedIterationDurations.Count}
		})
		if got := snap.SuccessfulIterationDurations.Count + snap.FailedIterationDurations.Count; got != uint64(n) {
			rt.Fatalf("VERIF-VIOLATION C01: %d iterations ran, the final result reports %d (%s)", n, got, desc)
		}
		if mc.Iteration["success"] != snap.SuccessfulIterationDurations.Count || mc.Iteration["fail"] != snap.FailedIterationDurations.Count {
			rt.Fatalf("VERIF-VIOLATION C01: the final result reports %d successful / %d failed iterations, the exported metric holds %d success / %d fail samples (%s; %d helper goroutines failed their iteration's handle just after its body returned)",
				snap.SuccessfulIterationDurations.Count, snap.FailedIterationDurations.Count, mc.Iteration["success"], mc.Iteration["fail"], desc, lateCalls.Load())
		}
	})
}
