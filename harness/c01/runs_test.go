package c01

import (
	"context"
	"fmt"
	"strconv"
	"sync/atomic"
	"testing"
	"time"

	"github.com/prometheus/client_golang/prometheus"
	"pgregory.net/rapid"

	"github.com/form3tech-oss/f1/v2/internal/metrics"
	f1testing "github.com/form3tech-oss/f1/v2/pkg/f1/testing"
	"github.com/form3tech-oss/f1/v2/verifharness/vlib"
)

// ---- engine 3: whole runs: ground-truth counters inside the scenario body ----------------

func TestProp_WholeRuns(t *testing.T) {
	dir := t.TempDir()
	rapid.Check(t, func(rt *rapid.T) {
		long := rapid.IntRange(0, 5).Draw(rt, "long") == 0 // run past the first 1 s progress snapshot
		opts := vlib.ShapeOpts{Limit: "maybe", MaxLimit: 300}
		if long {
			opts.MinDur, opts.MaxDur = 1050*time.Millisecond, 1250*time.Millisecond
			opts.Modes = []string{"users", "constant", "file"}
		}
		shape := vlib.GenShape(rt, opts)
		handover := !long && rapid.IntRange(0, 2).Draw(rt, "stageHandover") == 0
		if handover {
			// a config file whose stages hand over while iterations are still running (bodies of 50 ms,
			// stages of 100-150 ms, 20 ms between stages), with every second iteration failing
			c := rapid.IntRange(1, 6).Draw(rt, "handoverConcurrency")
			d1, d2 := rapid.IntRange(100, 150).Draw(rt, "stage1Ms"), rapid.IntRange(100, 150).Draw(rt, "stage2Ms")
			shape = vlib.Shape{Mode: "file", Flags: map[string]string{}, Concurrency: c, MaxDuration: 5 * time.Second}
			shape.FileYAML = fmt.Sprintf("scenario: %s\nlimits:\n  max-duration: 5s\n  concurrency: %d\n  max-iterations: 0\n  ignore-dropped: true\nstages:\n"+
				"- duration: %dms\n  mode: users\n  concurrency: %d\n- duration: %dms\n  mode: constant\n  rate: %d/10ms\n  jitter: 0\n  distribution: none\n- duration: 120ms\n  mode: users\n  concurrency: %d\n",
				vlib.ScenarioName, c, d1, c, d2, c, c)
			shape.Desc = fmt.Sprintf("file c=%d stage-handover users(%dms)->constant(%dms)->users(120ms)", c, d1, d2)
		}
		// a config-file stage whose ticks request hundreds of thousands of iterations from one or two workers:
		// nearly all of them are dropped, tick after tick, and the run is interrupted while that goes on
		hugeBacklog := !long && !handover && rapid.IntRange(0, 3).Draw(rt, "hugeBacklog") == 0
		if hugeBacklog {
			c := rapid.IntRange(1, 2).Draw(rt, "backlogConcurrency")
			per := rapid.SampledFrom([]int{150000, 400000}).Draw(rt, "backlogPerTick")
			shape = vlib.Shape{Mode: "file", Flags: map[string]string{}, Concurrency: c, MaxDuration: 5 * time.Second}
			shape.FileYAML = fmt.Sprintf("scenario: %s\nlimits:\n  max-duration: 5s\n  concurrency: %d\n  max-iterations: 0\n  ignore-dropped: true\nstages:\n"+
				"- duration: 5s\n  mode: constant\n  rate: %d/20ms\n  jitter: 0\n  distribution: none\n", vlib.ScenarioName, c, per)
			shape.Desc = fmt.Sprintf("file c=%d constant %d/20ms (huge backlog), interrupted", c, per)
		}
		failEvery := rapid.SampledFrom([]int{0, 2, 3, 5, 11}).Draw(rt, "failEvery")
		panicEvery := rapid.SampledFrom([]int{0, 0, 7, 13}).Draw(rt, "panicEvery")
		bodyUs := rapid.SampledFrom([]int{0, 0, 50, 500, 2000}).Draw(rt, "bodyMicros")
		if shape.Mode == "file" && (handover || rapid.Bool().Draw(rt, "slowBodies")) {
			bodyUs = 50000 // iterations outlive their config-file stage
		}
		if handover {
			failEvery, panicEvery = 2, 0
		}
		metricsOn := hugeBacklog || rapid.IntRange(0, 3).Draw(rt, "metricsOn") != 0
		// some runs are the second run on a metrics instance that already served an identical run
		secondRun := !long && !hugeBacklog && rapid.IntRange(0, 3).Draw(rt, "secondRunOnSameMetrics") == 0

		var passed, failed atomic.Uint64
		var inFlight atomic.Int64
		scenario := func(*f1testing.T) f1testing.RunFn {
			return func(it *f1testing.T) {
				inFlight.Add(1)
				defer inFlight.Add(-1)
				id, _ := strconv.ParseUint(it.Iteration, 10, 64)
				if bodyUs > 0 {
					time.Sleep(time.Duration(bodyUs) * time.Microsecond)
				}
				switch {
				case panicEvery > 0 && id%uint64(panicEvery) == 0:
					failed.Add(1)
					panic(fmt.Sprintf("planned panic in iteration %d", id))
				case failEvery > 0 && id%uint64(failEvery) == 0:
					failed.Add(1)
					it.FailNow()
				default:
					passed.Add(1)
				}
			}
		}
		spec := shape.Spec(dir)
		spec.ScenarioFn = scenario
		spec.WaitTimeout = 20 * time.Second
		spec.Metrics = metrics.NewInstance(prometheus.NewRegistry(), metricsOn, nil)
		if secondRun {
			if _, err := vlib.Execute(spec); err != nil {
				rt.Fatalf("VERIF-INFRA: cannot execute generated run %s: %v", shape.Desc, err)
			}
			if inFlight.Load() != 0 {
				stats.AddNote("runs_skipped_iterations_still_running", 1)
				return
			}
			passed.Store(0)
			failed.Store(0)
			if shape.Mode == "file" {
				spec.Trigger = nil
			}
		}
		// one run in five is interrupted by the caller at a drawn instant: what ran is counted all the same
		cancelAt := 0
		if hugeBacklog || rapid.IntRange(0, 4).Draw(rt, "endByCancel") == 0 {
			cancelAt = rapid.IntRange(1, int(shape.MaxDuration.Milliseconds())).Draw(rt, "cancelAtMs")
			if hugeBacklog {
				cancelAt = rapid.IntRange(25, 150).Draw(rt, "backlogCancelAtMs")
			}
			ctx, cancel := context.WithCancel(context.Background())
			defer cancel()
			spec.Ctx = ctx
			go func() {
				time.Sleep(time.Duration(cancelAt) * time.Millisecond)
				cancel()
			}()
		}
		out, err := vlib.Execute(spec)
		if err != nil {
			rt.Fatalf("VERIF-INFRA: cannot execute generated run %s: %v", shape.Desc, err)
		}
		if inFlight.Load() != 0 {
			// precondition of the property ("all iterations complete") not met: completion timeout expired
			stats.AddNote("runs_skipped_iterations_still_running", 1)
			return
		}
		snap := out.Result.Snapshot()
		s, f := passed.Load(), failed.Load()
		mc, err := vlib.GatherCounts(out.Metrics)
		if err != nil {
			rt.Fatalf("VERIF-INFRA: gather: %v", err)
		}
		nontrivial := s > 0 && f > 0
		cls := []string{"mode-" + shape.Mode}
		if long {
			cls = append(cls, "spans-progress-snapshot")
		}
		if snap.DroppedIterationCount > 0 {
			cls = append(cls, "with-drops")
		}
		if metricsOn {
			cls = append(cls, "metrics-on")
		}
		if shape.Mode == "file" && bodyUs >= 50000 {
			cls = append(cls, "iterations-outlive-their-stage")
		}
		if secondRun {
			cls = append(cls, "second-run-on-same-metrics")
		}
		if cancelAt > 0 {
			cls = append(cls, "interrupted-by-the-caller")
		}
		if hugeBacklog {
			cls = append(cls, "huge-backlog-being-dropped-at-the-interruption")
		}
		stats.Case("runs", shape.Desc+fmt.Sprint(failEvery, panicEvery, bodyUs, metricsOn), nontrivial, cls, func() any {
			return map[string]any{"shape": shape.Desc, "failEvery": failEvery, "panicEvery": panicEvery, "bodyMicros": bodyUs,
				"metrics": metricsOn, "passed": s, "failed": f, "dropped": snap.DroppedIterationCount}
		})
		if snap.SuccessfulIterationDurations.Count != s || snap.FailedIterationDurations.Count != f {
			rt.Fatalf("VERIF-VIOLATION C01: run %s: scenario body ran %d passing and %d failing iterations, final result reports %d successful and %d failed",
				shape.Desc, s, f, snap.SuccessfulIterationDurations.Count, snap.FailedIterationDurations.Count)
		}
		if metricsOn {
			if mc.Iteration["success"] != s || mc.Iteration["fail"] != f || mc.Iteration["dropped"] != snap.DroppedIterationCount {
				rt.Fatalf("VERIF-VIOLATION C01: run %s: body %d/%d, result dropped %d, but metrics carry success=%d fail=%d dropped=%d",
					shape.Desc, s, f, snap.DroppedIterationCount, mc.Iteration["success"], mc.Iteration["fail"], mc.Iteration["dropped"])
			}
		} else if len(mc.Iteration) != 0 {
			rt.Fatalf("VERIF-VIOLATION C01: run %s: iteration metrics disabled but %v exported", shape.Desc, mc.Iteration)
		}
		if shape.MaxIterations > 0 && s+f > shape.MaxIterations {
			rt.Fatalf("VERIF-VIOLATION C01: run %s executed %d iterations", shape.Desc, s+f)
		}
	})
}
