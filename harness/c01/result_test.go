package c01

import (
	"fmt"
	"sync"
	"sync/atomic"
	"testing"
	"time"

	"pgregory.net/rapid"

	"github.com/form3tech-oss/f1/v2/internal/options"
	"github.com/form3tech-oss/f1/v2/internal/progress"
	"github.com/form3tech-oss/f1/v2/internal/run"
	"github.com/form3tech-oss/f1/v2/internal/run/views"
)

var vw = views.New()

// ---- engine 4: run.Result under concurrent progress snapshots and final totals -----------
//
// Iteration completions (Record), periodic progress snapshots (Result.SnapshotProgress) and the
// final totals (Result.GetTotals) race on one Result. Once every recorder has returned and
// GetTotals has been called, whatever snapshot calls are still in flight or follow, the result
// must report exactly the recorded counts.
func TestProp_ResultSnapshotVsTotals(t *testing.T) {
	rapid.Check(t, func(rt *rapid.T) {
		recorders := rapid.IntRange(1, 8).Draw(rt, "recorders")
		perG := rapid.SampledFrom([]int{200, 2000, 20000}).Draw(rt, "perG")
		snapshotters := rapid.IntRange(1, 3).Draw(rt, "snapshotters")
		failEvery := rapid.SampledFrom([]int{0, 2, 5}).Draw(rt, "failEvery")
		lingerUs := rapid.SampledFrom([]int{0, 50, 500}).Draw(rt, "lingerMicros")

		st := &progress.Stats{}
		res := run.NewResult(options.RunOptions{Scenario: "s", MaxDuration: time.Second, Concurrency: 1}, vw, st)
		var want [3]atomic.Uint64
		var wg, swg sync.WaitGroup
		stop := make(chan struct{})
		var snaps atomic.Int64
		for i := 0; i < snapshotters; i++ {
			swg.Add(1)
			go func() {
				defer swg.Done()
				for {
					select {
					case <-stop:
						return
					default:
					}
					res.SnapshotProgress(time.Second)
					snaps.Add(1)
				}
			}()
		}
		for g := 0; g < recorders; g++ {
			wg.Add(1)
			go func(g int) {
				defer wg.Done()
				for i := 1; i <= perG; i++ {
					o := 0
					if failEvery > 0 && i%failEvery == 0 {
						o = 1
					}
					st.Record(resultTypes[o], int64(1+i%977))
					want[o].Add(1)
				}
			}(g)
		}
		wg.Wait()
		// final totals while progress snapshots are still being taken
		res.GetTotals()
		first := snapCounts(res.Snapshot())
		if lingerUs > 0 {
			time.Sleep(time.Duration(lingerUs) * time.Microsecond)
		}
		close(stop)
		swg.Wait()
		last := snapCounts(res.Snapshot())
		stats.Case("result", fmt.Sprint(recorders, perG, snapshotters, failEvery, lingerUs), snaps.Load() > 2, []string{}, func() any {
			return map[string]any{"recorders": recorders, "records_each": perG, "snapshot_goroutines": snapshotters, "snapshots_taken": snaps.Load()}
		})
		for k, name := range []string{"successful", "failed", "dropped"} {
			if first[k] != want[k].Load() || last[k] != want[k].Load() {
				rt.Fatalf("VERIF-VIOLATION C01: %d %s iterations were recorded and GetTotals was called after the last one returned; with %d progress-snapshot goroutines still running the result reported %d right after GetTotals and %d after they stopped",
					want[k].Load(), name, snapshotters, first[k], last[k])
			}
		}
	})
}
