package c01

import (
	"fmt"
	"runtime"
	"sync"
	"sync/atomic"
	"testing"
	"time"

	"pgregory.net/rapid"

	"github.com/form3tech-oss/f1/v2/internal/progress"
)

// ---- engine 2: hook-free parallel stress on the real progress.Stats ----------------------

type stressCase struct {
	Goroutines int
	PerG       int
	FailEvery  int // every k-th record of a goroutine is a failure (0 = none)
	DropEvery  int
	Cadence    int // collector: 0 = tight loop, 1 = Gosched between collects, 2 = 50us, 3 = 1ms
	UseTotal   bool
}

func TestProp_ParallelStress(t *testing.T) {
	rapid.Check(t, func(rt *rapid.T) {
		c := stressCase{
			Goroutines: rapid.IntRange(2, 16).Draw(rt, "goroutines"),
			PerG:       rapid.SampledFrom([]int{1000, 5000, 20000, 100000}).Draw(rt, "perG"),
			FailEvery:  rapid.SampledFrom([]int{0, 2, 3, 10}).Draw(rt, "failEvery"),
			DropEvery:  rapid.SampledFrom([]int{0, 5, 7}).Draw(rt, "dropEvery"),
			Cadence:    rapid.IntRange(0, 3).Draw(rt, "cadence"),
			UseTotal:   rapid.Bool().Draw(rt, "useTotal"),
		}
		st := &progress.Stats{}
		var want [3]atomic.Uint64
		var wg sync.WaitGroup
		stop := make(chan struct{})
		collectorDone := make(chan struct{})
		var collects, overlapping atomic.Int64
		var running atomic.Int32
		var midMsg atomic.Pointer[string]
		go func() {
			defer close(collectorDone)
			var prev counts
			for {
				select {
				case <-stop:
					return
				default:
				}
				var s progress.Snapshot
				if c.UseTotal {
					s = st.Total()
				} else {
					s = st.Snapshot(time.Second)
				}
				collects.Add(1)
				if running.Load() > 0 {
					overlapping.Add(1)
				}
				got := snapCounts(s)
				for k := 0; k < 3; k++ {
					if got[k] < prev[k] {
						m := fmt.Sprintf("lifetime count %d went from %d down to %d between two collects", k, prev[k], got[k])
						midMsg.CompareAndSwap(nil, &m)
					}
				}
				prev = got
				switch c.Cadence {
				case 1:
					runtime.Gosched()
				case 2:
					time.Sleep(50 * time.Microsecond)
				case 3:
					time.Sleep(time.Millisecond)
				}
			}
		}()
		start := make(chan struct{})
		for g := 0; g < c.Goroutines; g++ {
			wg.Add(1)
			go func(g int) {
				defer wg.Done()
				<-start
				running.Add(1)
				defer running.Add(-1)
				for i := 1; i <= c.PerG; i++ {
					o := 0
					if c.DropEvery > 0 && i%c.DropEvery == 0 {
						o = 2
					} else if c.FailEvery > 0 && i%c.FailEvery == 0 {
						o = 1
					}
					st.Record(resultTypes[o], int64(1+(i+g)%1000))
					want[o].Add(1)
				}
			}(g)
		}
		close(start)
		wg.Wait()
		close(stop)
		<-collectorDone
		final := snapCounts(st.Total())
		nontrivial := overlapping.Load() > 0
		stats.Case("stress", fmt.Sprintf("%+v", c), nontrivial, []string{fmt.Sprintf("cadence-%d", c.Cadence)}, func() any {
			return map[string]any{"case": c, "collects": collects.Load(), "collects_overlapping_recording": overlapping.Load()}
		})
		for k, name := range []string{"successful", "failed", "dropped"} {
			if final[k] != want[k].Load() {
				rt.Fatalf("VERIF-VIOLATION C01: %d goroutines recorded %d %s iterations while %d collects ran concurrently (%d overlapping); after all of them returned Total() reports %d (case %+v)",
					c.Goroutines, want[k].Load(), name, collects.Load(), overlapping.Load(), final[k], c)
			}
		}
		if m := midMsg.Load(); m != nil {
			rt.Fatalf("VERIF-VIOLATION C01: %s (case %+v)", *m, c)
		}
	})
}
