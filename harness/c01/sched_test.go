package c01

import (
	"fmt"
	"strings"
	"testing"
	"time"

	"pgregory.net/rapid"

	"github.com/form3tech-oss/f1/v2/internal/metrics"
	"github.com/form3tech-oss/f1/v2/internal/progress"
	"github.com/form3tech-oss/f1/v2/verifharness/vlib"
)

var stats = vlib.NewStats("C01")

func TestMain(m *testing.M) { vlib.Main(m, stats) }

// ---- engine 1: scheduled histories on the real progress.Stats ---------------------------

type recOp struct {
	Outcome int   // 0 success, 1 failed, 2 dropped
	D       int64 // duration in ns
}

type schedCase struct {
	Recorders [][]recOp
	Collector []int // 0 = Snapshot(period), 1 = Total()
	Schedule  []int
}

func (c schedCase) String() string {
	var b strings.Builder
	for i, r := range c.Recorders {
		fmt.Fprintf(&b, "R%d:", i)
		for _, op := range r {
			fmt.Fprintf(&b, "%d@%d,", op.Outcome, op.D)
		}
		b.WriteString(" ")
	}
	fmt.Fprintf(&b, "C:%v S:%v", c.Collector, c.Schedule)
	return b.String()
}

var resultTypes = []metrics.ResultType{metrics.SuccessResult, metrics.FailedResult, metrics.DroppedResult}

type counts [3]uint64

func snapCounts(s progress.Snapshot) counts {
	return counts{s.SuccessfulIterationDurations.Count, s.FailedIterationDurations.Count, s.DroppedIterationCount}
}

// runSchedCase executes the case under its schedule and returns "" or a violation message,
// whether the interleaving was non-trivial, and the trace.
func runSchedCase(c schedCase) (msg string, nontrivial bool, trace []vlib.Step) {
	st := &progress.Stats{}
	var started, finished counts // Record calls started / finished so far, per outcome
	type collectObs struct {
		finishedAtBegin counts
		startedAtEnd    counts
		got             counts
		op              int
	}
	var obs []collectObs

	threads := make([]func(), 0, len(c.Recorders)+1)
	for _, ops := range c.Recorders {
		ops := ops
		threads = append(threads, func() {
			for _, op := range ops {
				started[op.Outcome]++
				st.Record(resultTypes[op.Outcome], op.D)
				finished[op.Outcome]++
			}
		})
	}
	collectorIdx := len(threads)
	threads = append(threads, func() {
		for _, op := range c.Collector {
			o := collectObs{finishedAtBegin: finished, op: op}
			var s progress.Snapshot
			if op == 0 {
				s = st.Snapshot(time.Second)
			} else {
				s = st.Total()
			}
			o.startedAtEnd = started
			o.got = snapCounts(s)
			obs = append(obs, o)
		}
	})

	trace = vlib.RunSchedule(threads, c.Schedule, nil)

	// non-trivial: the collector advanced while a recorder was inside Record (parked after its
	// first atomic update), or a recorder advanced while the collector was between reading the
	// per-period accumulators and having cleared them.
	parked := map[int]string{}
	for _, stp := range trace {
		for th, pt := range parked {
			if th == stp.Thread {
				continue
			}
			if stp.Thread == collectorIdx && (pt == "progress.add.mid" || pt == "progress.add.counted") {
				nontrivial = true
			}
			if th == collectorIdx && stp.Thread != collectorIdx &&
				(pt == "progress.collect.read" || pt == "progress.collect.merge" ||
					pt == "progress.drain.sum" || pt == "progress.drain.count") {
				nontrivial = true
			}
		}
		parked[stp.Thread] = stp.Point
	}

	final := snapCounts(st.Total())
	var want counts
	for _, ops := range c.Recorders {
		for _, op := range ops {
			want[op.Outcome]++
		}
	}
	names := []string{"successful", "failed", "dropped"}
	for k := 0; k < 3; k++ {
		if final[k] != want[k] {
			return fmt.Sprintf("after all %d Record calls returned, Total() reports %d %s iterations but %d were recorded (case %s)",
				want[0]+want[1]+want[2], final[k], names[k], want[k], c), nontrivial, trace
		}
	}
	var prev counts
	for i, o := range obs {
		for k := 0; k < 3; k++ {
			if o.got[k] < o.finishedAtBegin[k] {
				return fmt.Sprintf("collect #%d (op %d) reports %d %s iterations although %d Record calls had already returned before it began (case %s)",
					i, o.op, o.got[k], names[k], o.finishedAtBegin[k], c), nontrivial, trace
			}
			if o.got[k] > o.startedAtEnd[k] {
				return fmt.Sprintf("collect #%d (op %d) reports %d %s iterations but only %d Record calls had started by its end - double counting (case %s)",
					i, o.op, o.got[k], names[k], o.startedAtEnd[k], c), nontrivial, trace
			}
			if o.got[k] < prev[k] {
				return fmt.Sprintf("collect #%d: lifetime %s count went from %d down to %d (case %s)", i, names[k], prev[k], o.got[k], c), nontrivial, trace
			}
		}
		prev = o.got
	}
	return "", nontrivial, trace
}

func genSchedCase(t *rapid.T) schedCase {
	var c schedCase
	nrec := rapid.IntRange(1, 4).Draw(t, "recorders")
	opGen := rapid.Custom(func(t *rapid.T) recOp {
		return recOp{
			Outcome: rapid.SampledFrom([]int{0, 0, 0, 1, 1, 2}).Draw(t, "outcome"),
			D:       rapid.Int64Range(1, 1_000_000).Draw(t, "d"),
		}
	})
	for i := 0; i < nrec; i++ {
		c.Recorders = append(c.Recorders, rapid.SliceOfN(opGen, 1, 6).Draw(t, fmt.Sprintf("ops%d", i)))
	}
	c.Collector = rapid.SliceOfN(rapid.IntRange(0, 1), 1, 5).Draw(t, "collector")
	c.Schedule = rapid.SliceOfN(rapid.IntRange(0, 4), 0, 120).Draw(t, "schedule")
	return c
}

func TestProp_ScheduledHistories(t *testing.T) {
	rapid.Check(t, func(rt *rapid.T) {
		c := genSchedCase(rt)
		msg, nontrivial, trace := runSchedCase(c)
		cls := []string{}
		if nontrivial {
			cls = append(cls, "collect-overlaps-record")
		}
		stats.Case("scheduled", c.String(), nontrivial, cls, func() any {
			return map[string]any{"recorders": c.Recorders, "collector_ops": c.Collector, "schedule": c.Schedule, "trace": traceStrings(trace)}
		})
		if msg != "" {
			rt.Fatalf("VERIF-VIOLATION C01: %s\ntrace: %v", msg, traceStrings(trace))
		}
	})
}

func traceStrings(tr []vlib.Step) []string {
	out := make([]string, len(tr))
	for i, s := range tr {
		p := s.Point
		if p == "" {
			p = "done"
		}
		out[i] = fmt.Sprintf("T%d->%s", s.Thread, p)
	}
	return out
}

// TestEnum_SmallScopes enumerates every schedule (at yield-point granularity) of small
// configurations on the real progress.Stats.
func TestEnum_SmallScopes(t *testing.T) {
	shard, shards := vlib.Shard()
	type scope struct {
		name string
		c    schedCase
		only string // tier restriction
	}
	scopes := []scope{
		{"1rec x 1 record vs Total", schedCase{Recorders: [][]recOp{{{0, 7}}}, Collector: []int{1}}, ""},
		{"1rec x 1 record vs Snapshot", schedCase{Recorders: [][]recOp{{{1, 7}}}, Collector: []int{0}}, ""},
		{"1rec x 2 records vs Total", schedCase{Recorders: [][]recOp{{{0, 7}, {0, 3}}}, Collector: []int{1}}, ""},
		{"1rec x 2 records (success, failed) vs Snapshot", schedCase{Recorders: [][]recOp{{{0, 7}, {1, 3}}}, Collector: []int{0}}, ""},
		{"1rec x 1 record vs Snapshot,Total", schedCase{Recorders: [][]recOp{{{0, 7}}}, Collector: []int{0, 1}}, ""},
		{"2rec x 1 record vs Total", schedCase{Recorders: [][]recOp{{{0, 7}}, {{0, 5}}}, Collector: []int{1}}, "thorough"},
		{"2rec x 1 record (success, failed) vs Snapshot", schedCase{Recorders: [][]recOp{{{0, 7}}, {{1, 5}}}, Collector: []int{0}}, "thorough"},
	}
	var total int64
	for _, sc := range scopes {
		if sc.only != "" && sc.only != vlib.Tier() {
			continue
		}
		var failure string
		n := vlib.EnumerateSchedules(func(schedule []int) []vlib.Step {
			c := sc.c
			c.Schedule = schedule
			msg, nontrivial, trace := runSchedCase(c)
			cls := []string{}
			if nontrivial {
				cls = append(cls, "collect-overlaps-record")
			}
			stats.Case("enumerated", sc.name+fmt.Sprint(choicesOf(trace)), nontrivial, cls, func() any {
				return map[string]any{"scope": sc.name, "trace": traceStrings(trace)}
			})
			if msg != "" && failure == "" {
				failure = msg + "\ntrace: " + fmt.Sprint(traceStrings(trace))
			}
			return trace
		}, 6, shard, shards)
		total += n
		if failure != "" {
			t.Fatalf("VERIF-VIOLATION C01 (exhaustive scope %q): %s", sc.name, failure)
		}
		t.Logf("scope %q: %d schedules in this shard", sc.name, n)
	}
	stats.Note("enumerated_scopes_exhaustive", true)
	stats.AddNote("enumerated_schedules", total)
}

func choicesOf(tr []vlib.Step) []int {
	out := make([]int, len(tr))
	for i, s := range tr {
		out[i] = s.Choice
	}
	return out
}

// TestRegress replays shrunk past failures (bypassing rapid).
func TestRegress(t *testing.T) {
	for name, c := range map[string]schedCase{
		// F1: the record lands after the collect merged the period accumulators and before it cleared them
		"record between merge and reset": {Recorders: [][]recOp{{{0, 7}}}, Collector: []int{1},
			Schedule: []int{1, 1, 1, 0, 0, 0, 0}},
		"record between read and merge": {Recorders: [][]recOp{{{1, 7}}}, Collector: []int{0},
			Schedule: []int{1, 1, 1, 1, 1, 1, 1, 0, 0, 0, 0}},
		"sum before collect, count after": {Recorders: [][]recOp{{{0, 7}}}, Collector: []int{1},
			Schedule: []int{0, 0, 1, 1, 1, 1, 1}},
	} {
		if msg, _, trace := runSchedCase(c); msg != "" {
			t.Errorf("VERIF-VIOLATION C01 (%s): %s\ntrace: %v", name, msg, traceStrings(trace))
		}
	}
}
