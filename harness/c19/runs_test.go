package c19

import (
	"bytes"
	"context"
	"errors"
	"fmt"
	"log/slog"
	"path/filepath"
	"regexp"
	"strconv"
	"strings"
	"sync"
	"testing"
	"time"

	"pgregory.net/rapid"

	"github.com/form3tech-oss/f1/v2/internal/ui"
	"github.com/form3tech-oss/f1/v2/internal/verifhook"
	f1testing "github.com/form3tech-oss/f1/v2/pkg/f1/testing"
	"github.com/form3tech-oss/f1/v2/verifharness/vlib"
)

// Engine "runs": what a whole run actually DISPLAYS as its final summary, against the result that
// Run.Do returns - the summary a user reads must be rendered from the final result, whatever
// happened last (a failing teardown is part of the verdict).

type recHandler struct {
	mu   *sync.Mutex
	recs *[]*captured
}

func (h recHandler) Enabled(context.Context, slog.Level) bool { return true }
func (h recHandler) WithAttrs([]slog.Attr) slog.Handler       { return h }
func (h recHandler) WithGroup(string) slog.Handler            { return h }
func (h recHandler) Handle(ctx context.Context, r slog.Record) error {
	c := &captured{stats: map[string]slog.Value{}}
	_ = capHandler{c: c, all: true}.Handle(ctx, r)
	h.mu.Lock()
	*h.recs = append(*h.recs, c)
	h.mu.Unlock()
	return nil
}

type syncBuf struct {
	mu sync.Mutex
	b  bytes.Buffer
}

func (s *syncBuf) Write(p []byte) (int, error) {
	s.mu.Lock()
	defer s.mu.Unlock()
	return s.b.Write(p)
}

func (s *syncBuf) String() string {
	s.mu.Lock()
	defer s.mu.Unlock()
	return s.b.String()
}

var bannerRe = regexp.MustCompile(`(?m)^Load Test (Passed|Failed)$`)

func TestProp_DisplayedSummary(t *testing.T) {
	dir := t.TempDir()
	rapid.Check(t, func(rt *rapid.T) {
		n := rapid.IntRange(0, 30).Draw(rt, "iterations")
		failEvery := rapid.SampledFrom([]int{0, 0, 2, 5}).Draw(rt, "failEvery")
		setup := rapid.SampledFrom([]string{"ok", "ok", "ok", "cleanup-fails", "cleanup-fails", "cleanup-panics", "setup-fails"}).Draw(rt, "setup")
		maxFailures := rapid.SampledFrom([]uint64{0, 0, 3, 100}).Draw(rt, "maxFailures")
		form := rapid.SampledFrom([]string{"text", "structured"}).Draw(rt, "form")
		// straggler: iteration 1 outlives the completion timeout (60 ms) and only finishes - failing -
		// while the scenario is torn down; the summary is rendered from the totals the verdict was
		// taken from, like the result the run returns
		straggler := n >= 2 && setup != "setup-fails" && rapid.IntRange(0, 3).Draw(rt, "straggler") == 0
		release := make(chan struct{})
		booked := make(chan struct{})
		scenario := func(st *f1testing.T) f1testing.RunFn {
			if straggler {
				st.Cleanup(func() {
					close(release)
					select {
					case <-booked:
					case <-time.After(2 * time.Second):
					}
					time.Sleep(20 * time.Millisecond) // let the worker book the iteration
				})
			}
			switch setup {
			case "cleanup-fails":
				st.Cleanup(func() { st.FailNow() })
			case "cleanup-panics":
				st.Cleanup(func() { panic("planned teardown panic") })
			case "setup-fails":
				st.FailNow()
			}
			return func(it *f1testing.T) {
				id, _ := strconv.Atoi(it.Iteration)
				if straggler && id == 1 {
					<-release
					it.Fail()
					close(booked)
					return
				}
				if failEvery > 0 && id%failEvery == 0 {
					it.Fail()
				}
			}
		}
		var mu sync.Mutex
		var recs []*captured
		text := &syncBuf{}
		var output *ui.Output
		logPath := ""
		if form == "text" {
			// the human-readable form is only printed by an interactive run that logs to a file (not -v)
			logPath = filepath.Join(dir, "scenario.log")
			output = ui.NewOutput(slog.New(recHandler{&mu, &recs}), ui.NewPrinter(text, text), true, true)
		} else {
			output = ui.NewOutput(slog.New(recHandler{&mu, &recs}), ui.NewPrinter(text, text), false, true)
		}
		spec := &vlib.RunSpec{Mode: "users", FileDir: dir, ScenarioFn: scenario, Output: output, LogFilePath: logPath, WaitTimeout: 20 * time.Second}
		spec.Opts.Concurrency = rapid.IntRange(1, 4).Draw(rt, "concurrency")
		spec.Opts.MaxDuration = 10 * time.Second
		spec.Opts.MaxIterations = uint64(n)
		spec.Opts.MaxFailures = maxFailures
		spec.Opts.IgnoreDropped = true
		if straggler {
			spec.WaitTimeout = 60 * time.Millisecond
			spec.Opts.Concurrency = max(2, spec.Opts.Concurrency) // the others reach the limit while iteration 1 is stuck
			spec.Opts.MaxDuration = 250 * time.Millisecond        // ... and max-duration, then the completion timeout, end the wait for it
		}
		if n == 0 {
			spec.Opts.MaxIterations = 0
			spec.Opts.MaxDuration = 30 * time.Millisecond
			spec.Mode = "constant"
			spec.Flags = map[string]string{"rate": "0/10ms", "distribution": "none"}
		}
		// fault injection (runs that log to a file, 1 in 3): closing the scenario log file fails, as on a
		// full disk. Whatever f1 makes of that, the summary it displays and the result it returns agree.
		closeFails := logPath != "" && rapid.IntRange(0, 2).Draw(rt, "logFileCloseFails") == 0
		if closeFails {
			verifhook.SetFault(func(point string) error {
				if point == "scenariolog.close" {
					return errors.New("injected: no space left on device")
				}
				return nil
			})
			defer verifhook.ClearFault()
		}
		out, err := vlib.Execute(spec)
		verifhook.ClearFault()
		if err != nil {
			rt.Fatalf("VERIF-INFRA: cannot execute: %v", err)
		}
		failed, resErr := out.Result.Failed(), out.Result.Error()
		snap := out.Result.Snapshot()
		desc := fmt.Sprintf("users N=%d failEvery=%d setup=%s max-failures=%d form=%s straggler=%v", n, failEvery, setup, maxFailures, form, straggler) + map[bool]string{true: " log-file-close-fails"}[closeFails]
		cls := []string{"form-" + form, "setup-" + setup}
		if straggler {
			cls = append(cls, "iteration-finishes-during-teardown")
		}
		if closeFails {
			cls = append(cls, "closing-the-log-file-fails")
		}
		if failed {
			cls = append(cls, "verdict-failed")
		}
		stats.Case("runs", desc, setup != "ok" || failEvery > 0, cls, func() any {
			return map[string]any{"case": desc, "result_failed": failed, "result_error": fmt.Sprint(resErr)}
		})
		fail := func(format string, args ...any) {
			rt.Fatalf("VERIF-VIOLATION C19: "+format+"\ncase: %s; the result returned by the run: failed=%v error=%v successful=%d failed=%d dropped=%d",
				append(args, desc, failed, resErr, snap.SuccessfulIterationDurations.Count, snap.FailedIterationDurations.Count, snap.DroppedIterationCount)...)
		}
		if form == "text" {
			shown := stripANSI(text.String())
			all := bannerRe.FindAllStringSubmatchIndex(shown, -1)
			if len(all) != 1 {
				fail("the run displayed %d final summaries (pass/fail banners), expected exactly one: %q", len(all), shown)
			}
			banner := shown[all[0][2]:all[0][3]]
			summary := shown[all[0][0]:]
			if (banner == "Failed") != failed {
				fail("the displayed summary says \"Load Test %s\": %q", banner, summary)
			}
			if hasErr := strings.Contains(summary, "\nError: "); hasErr != (resErr != nil) {
				fail("the displayed summary has an Error line = %v: %q", hasErr, summary)
			}
			for _, k := range []struct {
				re   *regexp.Regexp
				kind string
				want uint64
			}{{successfulRe, "successful", snap.SuccessfulIterationDurations.Count}, {failedRe, "failed", snap.FailedIterationDurations.Count}} {
				got := uint64(0)
				for _, ln := range strings.Split(summary, "\n") {
					if m := k.re.FindStringSubmatch(ln); m != nil {
						got, _ = parseU(m[1])
					}
				}
				if got != k.want {
					fail("the displayed summary states %d %s iterations: %q", got, k.kind, summary)
				}
			}
			return
		}
		mu.Lock()
		var finals []*captured
		for _, c := range recs {
			if c.msg == "Load Test Passed" || c.msg == "Load Test Failed" {
				finals = append(finals, c)
			}
		}
		mu.Unlock()
		if len(finals) != 1 {
			fail("the run logged %d final summaries, expected exactly one", len(finals))
		}
		c := finals[0]
		if (c.msg == "Load Test Failed") != failed || (c.level == slog.LevelError) != failed {
			fail("the logged summary says %q at level %v", c.msg, c.level)
		}
		if (c.errAttr != nil) != (resErr != nil) {
			fail("the logged summary carries an error attribute = %v", c.errAttr != nil)
		}
		for _, k := range []struct {
			name string
			want uint64
		}{{"successful", snap.SuccessfulIterationDurations.Count}, {"failed", snap.FailedIterationDurations.Count}, {"dropped", snap.DroppedIterationCount}} {
			got, err := c.count(k.name)
			if err != nil {
				fail("the logged summary: %v", err)
			}
			if got != k.want {
				fail("the logged summary states %s=%d", k.name, got)
			}
		}
	})
}
