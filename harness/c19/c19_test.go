// Package c19 decides property C19: the final summary and every progress line -
// human-readable and structured - state the same counts as the result they are
// rendered from, the banner matches the verdict, each percentage is the count's
// share of all iterations, and rendering never fails.
package c19

import (
	"context"
	"errors"
	"fmt"
	"io"
	"log/slog"
	"math"
	"math/big"
	"regexp"
	"runtime/debug"
	"strings"
	"testing"
	"time"

	"pgregory.net/rapid"

	f1log "github.com/form3tech-oss/f1/v2/internal/log"
	"github.com/form3tech-oss/f1/v2/internal/metrics"
	"github.com/form3tech-oss/f1/v2/internal/options"
	"github.com/form3tech-oss/f1/v2/internal/progress"
	"github.com/form3tech-oss/f1/v2/internal/run"
	"github.com/form3tech-oss/f1/v2/internal/run/views"
	"github.com/form3tech-oss/f1/v2/verifharness/vlib"
)

var stats = vlib.NewStats("C19")

var vw = views.New()

func TestMain(m *testing.M) { vlib.Main(m, stats) }

// f8ID is the identifier under which DESIGN section 4 item F8 would be listed in
// known_findings.json if it is recorded as open instead of being repaired.
const f8ID = "F8-result-log-started-zero"

// ---- error values ---------------------------------------------------------------------

type strErr string

func (e strErr) Error() string { return string(e) }

type structErr struct{ msg string }

func (e structErr) Error() string { return e.msg }

// nilSafeErr is an error whose nil pointer is a usable value (only fed to the no-panic oracle).
type nilSafeErr struct{ msg string }

func (e *nilSafeErr) Error() string {
	if e == nil {
		return "<nil error>"
	}
	return e.msg
}

type errSpec struct {
	Kind string // nil | plain | wrapped | joined | strkind | structkind | nilptr
	Text string
}

func (e errSpec) build() error {
	switch e.Kind {
	case "nil":
		return nil
	case "wrapped":
		return fmt.Errorf("%w", errors.New(e.Text))
	case "joined":
		parts := strings.Split(e.Text, "\n")
		errs := make([]error, len(parts))
		for i, p := range parts {
			errs[i] = errors.New(p)
		}
		return errors.Join(errs...)
	case "strkind":
		return strErr(e.Text)
	case "structkind":
		return structErr{e.Text}
	case "nilptr":
		return (*nilSafeErr)(nil)
	default:
		return errors.New(e.Text)
	}
}

var hostileTexts = []string{
	"",
	"boom",
	"errorMessage",
	"100% failed: %d %s %v %!d(MISSING) %% %",
	"{{.Failed}} {{template \"x\"}} {{end}} {{ .Iterations",
	"{red}{bold}{u}{-}{cyan}{green}{yellow}{intensive_blue}{light_black}",
	"line one\nline two\n",
	"Load Test Passed\n7 iterations started in 1s (7/second)\nSuccessful Iterations: 7 (100.00%, 7/second) avg: 1s, min: 1s, max: 1s\nFull logs: /x",
	"Error: nested\nFailed Iterations: 1 (1.00%, 1) avg: 0s, min: 0s, max: 0s\nDropped Iterations: 9 (9.00%, 9) (consider increasing --concurrency setting)",
	"\x1b[31mred\x1b[0m",
	"ends with a partial escape \x1b[3",
	"\x1b",
	"tab\tand\rcarriage",
	"\xff\xfe invalid utf8 \xc3",
	" leading and trailing ",
	"\n",
	"\n\n0 iterations started in 0s (0/second)",
	"/var/log/f1/scenario-2026-10-01.log",
	"C:\\logs\\f1 run.log",
	strings.Repeat("long ", 400),
}

func genText() *rapid.Generator[string] {
	return rapid.OneOf(
		rapid.SampledFrom(hostileTexts),
		rapid.String(),
		rapid.StringN(0, 40, -1),
		rapid.Custom(func(t *rapid.T) string { return string(rapid.SliceOfN(rapid.Byte(), 0, 30).Draw(t, "bytes")) }),
		rapid.Custom(func(t *rapid.T) string {
			return strings.Join(rapid.SliceOfN(rapid.SampledFrom(hostileTexts), 1, 3).Draw(t, "parts"), "\n")
		}),
	)
}

func genErr(arbitrary bool) *rapid.Generator[errSpec] {
	return rapid.Custom(func(t *rapid.T) errSpec {
		kinds := []string{"nil", "nil", "plain", "plain", "wrapped", "joined", "strkind", "structkind"}
		if arbitrary {
			kinds = append(kinds, "nilptr")
		}
		k := rapid.SampledFrom(kinds).Draw(t, "errKind")
		if k == "nil" || k == "nilptr" {
			return errSpec{Kind: k}
		}
		return errSpec{Kind: k, Text: genText().Draw(t, "errText")}
	})
}

// ---- numbers --------------------------------------------------------------------------

const maxCount = 1_000_000_000_000 // 10^12

const astronomicCount = 1 << 62

func genCount() *rapid.Generator[uint64] {
	return rapid.OneOf(
		rapid.Just(uint64(0)),
		rapid.Uint64Range(0, 3),
		rapid.Uint64Range(0, 1000),
		rapid.Uint64Range(0, maxCount),
		rapid.SampledFrom([]uint64{1, 2, 7, 99, 100, 999, 1000, 99999, 1_000_000, 1_000_000_000, maxCount - 1, maxCount}),
		// the property quantifies over every combination of counts: also far beyond any real run
		// (three of them still sum below 2^64)
		rapid.Uint64Range(0, astronomicCount),
		rapid.SampledFrom([]uint64{184467440737095516, 184467440737095517, 200_000_000_000_000_000, 1 << 53, 1<<53 + 1, 1 << 62, astronomicCount}),
	)
}

const hundredHours = 100 * time.Hour

func genDuration() *rapid.Generator[time.Duration] {
	return rapid.OneOf(
		rapid.Just(time.Duration(0)),
		rapid.Custom(func(t *rapid.T) time.Duration {
			return time.Duration(rapid.Int64Range(0, int64(time.Second)).Draw(t, "subsecond"))
		}),
		rapid.Custom(func(t *rapid.T) time.Duration {
			return time.Duration(rapid.Int64Range(0, int64(hundredHours)).Draw(t, "dur"))
		}),
		rapid.Custom(func(t *rapid.T) time.Duration {
			return time.Duration(rapid.Int64Range(1, 359_999).Draw(t, "secs"))*time.Second +
				time.Duration(rapid.SampledFrom([]int64{0, 0, 1, 250_000_000, 499_999_999, 500_000_000, 999_999_999}).Draw(t, "frac"))
		}),
		rapid.SampledFrom([]time.Duration{1, 499_999_999, 500 * time.Millisecond, 500_000_001, time.Second, 1500 * time.Millisecond,
			time.Minute, time.Hour, hundredHours}),
	)
}

func genSnap(count uint64) *rapid.Generator[progress.IterationDurationsSnapshot] {
	return rapid.Custom(func(t *rapid.T) progress.IterationDurationsSnapshot {
		return progress.IterationDurationsSnapshot{
			Average: genDuration().Draw(t, "avg"),
			Min:     genDuration().Draw(t, "min"),
			Max:     genDuration().Draw(t, "max"),
			Count:   count,
		}
	})
}

// genTriple draws (successful, failed, dropped) in [0,10^12]^3 biased to 0, to one-kind-only results and to shares
// whose second decimal is at or next to a rounding tie.
func genTriple(t *rapid.T) (s, f, d uint64) {
	place := func(c, rest uint64) (uint64, uint64, uint64) {
		a := rapid.Uint64Range(0, rest).Draw(t, "split")
		b := rest - a
		switch rapid.IntRange(0, 2).Draw(t, "which") {
		case 0:
			return c, a, b
		case 1:
			return a, c, b
		default:
			return a, b, c
		}
	}
	switch rapid.IntRange(0, 9).Draw(t, "shape") {
	case 0: // exact tie: share m/8 percent, m odd
		k := rapid.Uint64Range(1, 1_000_000).Draw(t, "k")
		m := 2*rapid.Uint64Range(0, 399).Draw(t, "m") + 1
		return place(m*k, 800*k-m*k)
	case 1: // next to a tie: c ~ (j+0.5)/100 percent of the total
		total := rapid.Uint64Range(1, maxCount).Draw(t, "total")
		j := rapid.Uint64Range(0, 9999).Draw(t, "j")
		num := new(big.Int).Mul(big.NewInt(int64(2*j+1)), new(big.Int).SetUint64(total))
		c := num.Div(num, big.NewInt(20000)).Uint64() + rapid.Uint64Range(0, 1).Draw(t, "delta")
		if c > total {
			c = total
		}
		return place(c, total-c)
	case 2: // only dropped (nothing started)
		return 0, 0, genCount().Draw(t, "d")
	case 3: // a single kind
		c := genCount().Draw(t, "c")
		return place(c, 0)
	default:
		return genCount().Draw(t, "s"), genCount().Draw(t, "f"), genCount().Draw(t, "d")
	}
}

// ---- capturing slog handler --------------------------------------------------------------

type captured struct {
	records  int
	level    slog.Level
	msg      string
	stats    map[string]slog.Value
	dupStats []string
	errAttr  *string
}

type capHandler struct {
	c   *captured
	min slog.Level // records below this level are not enabled (0 = everything: Debug is -4, Info is 0)
	all bool
}

func (h capHandler) Enabled(_ context.Context, l slog.Level) bool { return h.all || l >= h.min }
func (h capHandler) WithAttrs([]slog.Attr) slog.Handler       { return h }
func (h capHandler) WithGroup(string) slog.Handler            { return h }
func (h capHandler) Handle(_ context.Context, r slog.Record) error {
	h.c.records++
	h.c.level = r.Level
	h.c.msg = r.Message
	r.Attrs(func(a slog.Attr) bool {
		v := a.Value.Resolve()
		switch {
		case a.Key == "iteration_stats" && v.Kind() == slog.KindGroup:
			for _, g := range v.Group() {
				if _, dup := h.c.stats[g.Key]; dup {
					h.c.dupStats = append(h.c.dupStats, g.Key)
				}
				h.c.stats[g.Key] = g.Value.Resolve()
			}
		case a.Key == "error":
			s := v.String()
			h.c.errAttr = &s
		}
		return true
	})
	return nil
}

func capture(logTo func(*slog.Logger)) *captured {
	c := &captured{stats: map[string]slog.Value{}}
	logTo(slog.New(capHandler{c: c, all: true}))
	return c
}

// captureFrom is capture with a logger that only emits records of at least level min.
func captureFrom(min slog.Level, logTo func(*slog.Logger)) *captured {
	c := &captured{stats: map[string]slog.Value{}}
	logTo(slog.New(capHandler{c: c, min: min}))
	return c
}

func (c *captured) count(name string) (uint64, error) {
	v, ok := c.stats[name]
	if !ok {
		return 0, fmt.Errorf("iteration_stats.%s is missing", name)
	}
	switch v.Kind() {
	case slog.KindUint64:
		return v.Uint64(), nil
	case slog.KindInt64:
		if v.Int64() < 0 {
			return 0, fmt.Errorf("iteration_stats.%s is negative: %d", name, v.Int64())
		}
		return uint64(v.Int64()), nil
	default:
		return 0, fmt.Errorf("iteration_stats.%s is not an integer: %v (%v)", name, v, v.Kind())
	}
}

// ---- text grammar ------------------------------------------------------------------------

var (
	ansiRe       = regexp.MustCompile("\x1b\\[[0-9;]*m")
	startedRe    = regexp.MustCompile(`^(\d+) iterations started in (\S+) \((\d+)/second\)$`)
	successfulRe = regexp.MustCompile(`^Successful Iterations: (\d+) \((\S+)%, (\d+)/second\) avg: (\S+), min: (\S+), max: (\S+)$`)
	failedRe     = regexp.MustCompile(`^Failed Iterations: (\d+) \((\S+)%, (\d+)\) avg: (\S+), min: (\S+), max: (\S+)$`)
	droppedRe    = regexp.MustCompile(`^Dropped Iterations: (\d+) \((\S+)%, (\d+)\) \(consider increasing --concurrency setting\)$`)
	pctRe        = regexp.MustCompile(`^(\d+)\.(\d\d)$`)
	progressRe   = regexp.MustCompile(`^\[ *(\S+)\]  ✔ +(\d+)  (?:⦸ +(\d+)  )?✘ +(\d+) \((\d+)/s\)   avg: (\S+), min: (\S+), max: (\S+)$`)
)

func stripANSI(s string) string { return ansiRe.ReplaceAllString(s, "") }

func parseU(s string) (uint64, bool) {
	n, ok := new(big.Int).SetString(s, 10)
	if !ok || !n.IsUint64() {
		return 0, false
	}
	return n.Uint64(), true
}

// pctMsg returns "" when the printed two-decimal percentage p is the share count/total rounded to the printed
// precision: |p - 100*count/total| <= 0.005 (+1e-9 for the binary floating point the value passes through),
// evaluated in exact integer arithmetic: 10^7*|P*total - 10000*count| <= (5*10^6+1)*total, P = p in hundredths.
func pctMsg(p string, count, total uint64) string {
	m := pctRe.FindStringSubmatch(p)
	if m == nil {
		return fmt.Sprintf("percentage %q is not a two-decimal number", p)
	}
	P, _ := new(big.Int).SetString(m[1]+m[2], 10)
	if total == 0 {
		if P.Sign() != 0 || count != 0 {
			return fmt.Sprintf("percentage %s%% printed for %d of 0 iterations", p, count)
		}
		return ""
	}
	T := new(big.Int).SetUint64(total)
	lhs := new(big.Int).Mul(P, T)
	lhs.Sub(lhs, new(big.Int).Mul(big.NewInt(10000), new(big.Int).SetUint64(count)))
	lhs.Abs(lhs)
	lhs.Mul(lhs, big.NewInt(10_000_000))
	rhs := new(big.Int).Mul(big.NewInt(5_000_001), T)
	if lhs.Cmp(rhs) > 0 {
		exact := new(big.Rat).SetFrac(new(big.Int).Mul(big.NewInt(100), new(big.Int).SetUint64(count)), T)
		return fmt.Sprintf("percentage %s%% is not the share of %d in %d iterations (= %s%%)", p, count, total, exact.FloatString(6))
	}
	return ""
}

// expResult is what a rendered result has to state.
type expResult struct {
	S, F, D    uint64
	Iterations uint64
	Started    uint64
	Failed     bool
	ErrText    *string // nil when the result carries no error
	Path       string
}

// guarded runs f and turns a panic into a message.
func guarded(what string, f func() string) (msg string) {
	defer func() {
		if r := recover(); r != nil {
			msg = fmt.Sprintf("%s panicked: %v\n%s", what, r, debug.Stack())
		}
	}()
	return f()
}

// verifyResultText checks the human-readable summary (plain and coloured) against exp.
func verifyResultText(vc *views.ViewContext[views.ResultData], exp expResult) string {
	return guarded("rendering the result", func() string {
		plain := vc.VerifRender(false)
		tty := vc.VerifRender(true)
		if got, want := stripANSI(tty), stripANSI(plain); got != want {
			return fmt.Sprintf("coloured rendering without its escape sequences differs from the plain rendering:\n tty:   %q\n plain: %q", tty, plain)
		}
		if r := vc.Render(); r != plain && r != tty {
			return fmt.Sprintf("Render() = %q is neither the plain nor the coloured template's output", r)
		}
		rest := plain
		var bannerFailed bool
		switch {
		case strings.HasPrefix(rest, "\nLoad Test Failed\n"):
			bannerFailed = true
			rest = strings.TrimPrefix(rest, "\nLoad Test Failed\n")
		case strings.HasPrefix(rest, "\nLoad Test Passed\n"):
			rest = strings.TrimPrefix(rest, "\nLoad Test Passed\n")
		default:
			return fmt.Sprintf("no pass/fail banner at the top of %q", plain)
		}
		if bannerFailed != exp.Failed {
			return fmt.Sprintf("banner says failed=%v, the result's verdict is failed=%v: %q", bannerFailed, exp.Failed, plain)
		}
		if exp.ErrText != nil {
			rest = strings.TrimPrefix(rest, "Error: "+*exp.ErrText+"\n")
		}
		logsLine := "Full logs: " + exp.Path + "\n"
		if !strings.HasSuffix(rest, logsLine) {
			return fmt.Sprintf("summary does not end with the log path line %q: %q", logsLine, plain)
		}
		rest = strings.TrimSuffix(rest, logsLine)
		if !strings.HasSuffix(rest, "\n") {
			return fmt.Sprintf("count lines are not newline terminated: %q", plain)
		}
		lines := strings.Split(strings.TrimSuffix(rest, "\n"), "\n")
		seen := map[string]bool{}
		once := func(kind string) string {
			if seen[kind] {
				return fmt.Sprintf("two %q lines in %q", kind, plain)
			}
			seen[kind] = true
			return ""
		}
		countLine := func(kind string, m []string, want uint64) string {
			if msg := once(kind); msg != "" {
				return msg
			}
			got, ok := parseU(m[1])
			if !ok || got != want {
				return fmt.Sprintf("text says %s %s iterations, the result has %d: %q", m[1], kind, want, plain)
			}
			if msg := pctMsg(m[2], want, exp.Iterations); msg != "" {
				return fmt.Sprintf("%s: %s: %q", kind, msg, plain)
			}
			return ""
		}
		for _, ln := range lines {
			var msg string
			if m := startedRe.FindStringSubmatch(ln); m != nil {
				if msg = once("started"); msg == "" {
					if got, ok := parseU(m[1]); !ok || got != exp.Started {
						msg = fmt.Sprintf("text says %s iterations started, the result has %d: %q", m[1], exp.Started, plain)
					}
				}
			} else if m := successfulRe.FindStringSubmatch(ln); m != nil {
				msg = countLine("successful", m, exp.S)
			} else if m := failedRe.FindStringSubmatch(ln); m != nil {
				msg = countLine("failed", m, exp.F)
			} else if m := droppedRe.FindStringSubmatch(ln); m != nil {
				msg = countLine("dropped", m, exp.D)
			} else {
				msg = fmt.Sprintf("line %q of the summary is none of the started/successful/failed/dropped lines: %q", ln, plain)
			}
			if msg != "" {
				return msg
			}
		}
		if !seen["started"] {
			return fmt.Sprintf("no \"iterations started\" line: %q", plain)
		}
		for _, k := range []struct {
			kind string
			n    uint64
		}{{"successful", exp.S}, {"failed", exp.F}, {"dropped", exp.D}} {
			if !seen[k.kind] && k.n != 0 {
				return fmt.Sprintf("the result has %d %s iterations but the text has no line for them: %q", k.n, k.kind, plain)
			}
		}
		return ""
	})
}

// verifyResultLog checks the structured form of the summary against exp.
func verifyResultLog(vc *views.ViewContext[views.ResultData], exp expResult) string {
	return guarded("logging the result", func() string {
		c := capture(vc.Log)
		if c.records != 1 {
			return fmt.Sprintf("%d log records for one result", c.records)
		}
		if (c.level == slog.LevelError) != exp.Failed {
			return fmt.Sprintf("result logged at level %v, verdict failed=%v", c.level, exp.Failed)
		}
		wantMsg := "Load Test Passed"
		if exp.Failed {
			wantMsg = "Load Test Failed"
		}
		if c.msg != wantMsg {
			return fmt.Sprintf("result log message %q, verdict failed=%v", c.msg, exp.Failed)
		}
		// a logger that only emits warnings and errors (F1_LOG_LEVEL=warn): the summary of a failed run
		// is an error and still comes out, with the same content; that of a passed run is info
		w := captureFrom(slog.LevelWarn, vc.Log)
		if exp.Failed && (w.records != 1 || w.msg != wantMsg || w.level != slog.LevelError) {
			return fmt.Sprintf("with a logger at level warn the summary of a failed run produced %d records (message %q, level %v), expected the one error record %q", w.records, w.msg, w.level, wantMsg)
		}
		if exp.Failed {
			for _, name := range []string{"successful", "failed", "dropped"} {
				a, erra := c.count(name)
				b, errb := w.count(name)
				if erra != nil || errb != nil || a != b {
					return fmt.Sprintf("with a logger at level warn the failed summary states %s=%d (%v), at level info %d (%v)", name, b, errb, a, erra)
				}
			}
		}
		if len(c.dupStats) > 0 {
			return fmt.Sprintf("iteration_stats repeats %v", c.dupStats)
		}
		for _, k := range []struct {
			name string
			want uint64
		}{{"successful", exp.S}, {"failed", exp.F}, {"dropped", exp.D}} {
			got, err := c.count(k.name)
			if err != nil {
				return err.Error()
			}
			if got != k.want {
				return fmt.Sprintf("structured result says %s=%d, the result has %d", k.name, got, k.want)
			}
		}
		got, err := c.count("started")
		if err != nil {
			return err.Error()
		}
		if got != exp.Started {
			if exp.Started == 0 && got == exp.S+exp.F+exp.D && vlib.KnownOpen(f8ID) {
				vlib.ReportKnown(f8ID)
				stats.AddNote("excluded_known", 1)
				return ""
			}
			return fmt.Sprintf("structured result says started=%d, the result (and its text: \"%d iterations started\") has %d started "+
				"[successful=%d failed=%d dropped=%d]", got, exp.Started, exp.Started, exp.S, exp.F, exp.D)
		}
		return ""
	})
}

type expProgress struct {
	S, F, D uint64
	// NoSuccessInPeriod: the line is rendered from a period in which no iteration succeeded (only set
	// where the period is known): whatever the rounding, the per-second figure of such a period is 0
	NoSuccessInPeriod bool
}

// verifyProgress checks one progress line in both forms.
func verifyProgress(vc *views.ViewContext[views.ProgressData], exp expProgress) string {
	return guarded("rendering a progress line", func() string {
		plain := vc.VerifRender(false)
		tty := vc.VerifRender(true)
		if stripANSI(tty) != plain {
			return fmt.Sprintf("coloured progress line without its escape sequences differs from the plain one:\n tty:   %q\n plain: %q", tty, plain)
		}
		if r := vc.Render(); r != plain && r != tty {
			return fmt.Sprintf("Render() = %q is neither the plain nor the coloured template's output", r)
		}
		m := progressRe.FindStringSubmatch(plain)
		if m == nil {
			return fmt.Sprintf("progress line does not have the documented shape: %q", plain)
		}
		if got, ok := parseU(m[2]); !ok || got != exp.S {
			return fmt.Sprintf("progress line says %s successful, the result has %d: %q", m[2], exp.S, plain)
		}
		if got, ok := parseU(m[4]); !ok || got != exp.F {
			return fmt.Sprintf("progress line says %s failed, the result has %d: %q", m[4], exp.F, plain)
		}
		if m[3] == "" {
			if exp.D != 0 {
				return fmt.Sprintf("the result has %d dropped iterations, the progress line shows none: %q", exp.D, plain)
			}
		} else if got, ok := parseU(m[3]); !ok || got != exp.D {
			return fmt.Sprintf("progress line says %s dropped, the result has %d: %q", m[3], exp.D, plain)
		}
		if exp.NoSuccessInPeriod && m[5] != "0" {
			return fmt.Sprintf("no iteration succeeded in the period the line stands for, yet it shows %s/s: %q", m[5], plain)
		}
		c := capture(vc.Log)
		if c.records != 1 {
			return fmt.Sprintf("%d log records for one progress line", c.records)
		}
		if len(c.dupStats) > 0 {
			return fmt.Sprintf("iteration_stats repeats %v", c.dupStats)
		}
		for _, k := range []struct {
			name string
			want uint64
		}{{"successful", exp.S}, {"failed", exp.F}, {"dropped", exp.D}, {"started", exp.S + exp.F + exp.D}} {
			got, err := c.count(k.name)
			if err != nil {
				return "progress log: " + err.Error()
			}
			if got != k.want {
				return fmt.Sprintf("structured progress says %s=%d, the result has %d [successful=%d failed=%d dropped=%d]",
					k.name, got, k.want, exp.S, exp.F, exp.D)
			}
		}
		return ""
	})
}

// ---- consistent result data ----------------------------------------------------------------

type resultCase struct {
	S, F, D    uint64
	Iterations uint64
	Started    uint64
	Failed     bool
	Duration   time.Duration
	Err        errSpec
	Path       string
	SDur, FDur progress.IterationDurationsSnapshot
}

func (c resultCase) data() views.ResultData {
	return views.ResultData{
		Error:                        c.Err.build(),
		LogFilePath:                  c.Path,
		SuccessfulIterationDurations: c.SDur,
		FailedIterationDurations:     c.FDur,
		IterationsStarted:            c.Started,
		Duration:                     c.Duration,
		SuccessfulIterationCount:     c.S,
		Iterations:                   c.Iterations,
		FailedIterationCount:         c.F,
		DroppedIterationCount:        c.D,
		Failed:                       c.Failed,
	}
}

func (c resultCase) exp() expResult {
	e := expResult{S: c.S, F: c.F, D: c.D, Iterations: c.Iterations, Started: c.Started, Failed: c.Failed, Path: c.Path}
	if err := c.Err.build(); err != nil {
		s := err.Error()
		e.ErrText = &s
	}
	return e
}

func (c resultCase) key() string { return fmt.Sprintf("%+v", c) }

func nonzero(ns ...uint64) int {
	n := 0
	for _, v := range ns {
		if v != 0 {
			n++
		}
	}
	return n
}

// nontrivialRule: at least two non-zero counts, or zero iterations, or zero elapsed time.
func nontrivialRule(s, f, d, iterations uint64, dur time.Duration) bool {
	return nonzero(s, f, d) >= 2 || iterations == 0 || dur == 0
}

func nearTie(count, total uint64) bool {
	if count == 0 || total == 0 {
		return false
	}
	// frac(10000*count/total) within 0.002 of one half
	n := new(big.Int).Mul(big.NewInt(10000), new(big.Int).SetUint64(count))
	T := new(big.Int).SetUint64(total)
	r := new(big.Int).Mod(n, T) // r/T in [0,1)
	// |r/T - 1/2| <= 0.002  <=>  |2r - T|*500 <= T... (|2r-T| <= 0.004 T)
	x := new(big.Int).Sub(new(big.Int).Mul(big.NewInt(2), r), T)
	x.Abs(x)
	x.Mul(x, big.NewInt(250))
	return x.Cmp(T) <= 0
}

func (c resultCase) classes() []string {
	cls := []string{}
	if nontrivialRule(c.S, c.F, c.D, c.Iterations, c.Duration) {
		cls = append(cls, "nontrivial")
	}
	if nonzero(c.S, c.F, c.D) >= 2 {
		cls = append(cls, "two-plus-nonzero")
	}
	if nonzero(c.S, c.F, c.D) == 3 {
		cls = append(cls, "all-three-nonzero")
	}
	if c.Iterations == 0 {
		cls = append(cls, "zero-iterations")
	}
	if c.Started == 0 && c.D > 0 {
		cls = append(cls, "only-dropped")
	}
	if c.Duration == 0 {
		cls = append(cls, "zero-duration")
	} else if c.Duration.Round(time.Second) == 0 {
		cls = append(cls, "duration-rounds-to-zero")
	}
	if c.S >= 1_000_000_000 || c.F >= 1_000_000_000 || c.D >= 1_000_000_000 {
		cls = append(cls, "huge-count")
	}
	if nearTie(c.S, c.Iterations) || nearTie(c.F, c.Iterations) || nearTie(c.D, c.Iterations) {
		cls = append(cls, "pct-near-tie")
	}
	if c.Failed {
		cls = append(cls, "verdict-failed")
	} else {
		cls = append(cls, "verdict-passed")
	}
	switch {
	case c.Err.Kind == "nil":
		cls = append(cls, "error-nil")
	case strings.Contains(c.Err.Text, "\n"):
		cls = append(cls, "error-multiline")
	default:
		cls = append(cls, "error-single-line")
	}
	if strings.ContainsAny(c.Err.Text, "%{") {
		cls = append(cls, "error-percent-or-template")
	}
	if strings.ContainsAny(c.Path, "%{\n\x1b") {
		cls = append(cls, "path-hostile")
	}
	return cls
}

func genResultCase(t *rapid.T) resultCase {
	var c resultCase
	c.S, c.F, c.D = genTriple(t)
	c.Iterations = c.S + c.F + c.D
	c.Started = c.S + c.F
	c.Duration = genDuration().Draw(t, "duration")
	c.Err = genErr(false).Draw(t, "err")
	// the verdict is an input of the rendering; a result carrying an error is always a failed one (run.Result.Failed)
	c.Failed = rapid.Bool().Draw(t, "failed") || c.Err.Kind != "nil"
	if c.Err.Kind != "nil" && rapid.IntRange(0, 5).Draw(t, "errorWithoutFailedVerdict") == 0 {
		// the verdict is an input of its own: data carrying an error with Failed == false must still be
		// rendered consistently (banner and log level follow the verdict, in both forms)
		c.Failed = false
	}
	c.Path = genText().Draw(t, "path")
	c.SDur = genSnap(c.S).Draw(t, "sdur")
	c.FDur = genSnap(c.F).Draw(t, "fdur")
	return c
}

func TestProp_ResultText(t *testing.T) {
	rapid.Check(t, func(rt *rapid.T) {
		c := genResultCase(rt)
		stats.Case("result-text", c.key(), nontrivialRule(c.S, c.F, c.D, c.Iterations, c.Duration), c.classes(), func() any { return c })
		if msg := verifyResultText(vw.Result(c.data()), c.exp()); msg != "" {
			rt.Fatalf("VERIF-VIOLATION C19: %s\ninput: %+v", msg, c)
		}
	})
}

func TestProp_ResultLog(t *testing.T) {
	rapid.Check(t, func(rt *rapid.T) {
		c := genResultCase(rt)
		stats.Case("result-log", c.key(), nontrivialRule(c.S, c.F, c.D, c.Iterations, c.Duration), c.classes(), func() any { return c })
		if msg := verifyResultLog(vw.Result(c.data()), c.exp()); msg != "" {
			rt.Fatalf("VERIF-VIOLATION C19: %s\ninput: %+v", msg, c)
		}
	})
}

// ---- consistent progress data -------------------------------------------------------------

type progressCase struct {
	S, F, D  uint64
	Duration time.Duration
	Period   time.Duration
	Recent   progress.IterationDurationsSnapshot
}

func (c progressCase) data() views.ProgressData {
	return views.ProgressData{
		SuccessfulIterationDurationsForPeriod: c.Recent,
		Duration:                              c.Duration,
		SuccessfulIterationCount:              c.S,
		DroppedIterationCount:                 c.D,
		FailedIterationCount:                  c.F,
		Period:                                c.Period,
	}
}

func (c progressCase) classes() []string {
	cls := []string{}
	if nontrivialRule(c.S, c.F, c.D, c.S+c.F+c.D, c.Duration) || c.Period == 0 {
		cls = append(cls, "nontrivial")
	}
	if nonzero(c.S, c.F, c.D) >= 2 {
		cls = append(cls, "two-plus-nonzero")
	}
	if c.S+c.F+c.D == 0 {
		cls = append(cls, "zero-iterations")
	}
	if c.D == 0 {
		cls = append(cls, "no-dropped")
	} else {
		cls = append(cls, "with-dropped")
	}
	if c.Period == 0 {
		cls = append(cls, "zero-period")
	}
	if c.Duration == 0 {
		cls = append(cls, "zero-duration")
	}
	if c.Recent.Count != c.S {
		cls = append(cls, "period-count-differs-from-lifetime")
	}
	if c.S >= 100000 || c.F >= 100000 || c.D >= 100000 {
		cls = append(cls, "wider-than-column")
	}
	return cls
}

func genProgressCase(t *rapid.T) progressCase {
	var c progressCase
	c.S, c.F, c.D = genTriple(t)
	c.Duration = genDuration().Draw(t, "duration")
	c.Period = genDuration().Draw(t, "period")
	recent := c.S
	if rapid.IntRange(0, 3).Draw(t, "recentAll") != 0 {
		recent = rapid.Uint64Range(0, c.S).Draw(t, "recent")
	}
	c.Recent = genSnap(recent).Draw(t, "recentDur")
	return c
}

func TestProp_Progress(t *testing.T) {
	rapid.Check(t, func(rt *rapid.T) {
		c := genProgressCase(rt)
		nt := nontrivialRule(c.S, c.F, c.D, c.S+c.F+c.D, c.Duration) || c.Period == 0
		stats.Case("progress", fmt.Sprintf("%+v", c), nt, c.classes(), func() any { return c })
		if msg := verifyProgress(vw.Progress(c.data()), expProgress{S: c.S, F: c.F, D: c.D}); msg != "" {
			rt.Fatalf("VERIF-VIOLATION C19: %s\ninput: %+v", msg, c)
		}
	})
}

// ---- the real pipeline: Record -> NewResult -> SnapshotProgress/GetTotals -> Progress()/Summary() ----------

type pipeCase struct {
	Phase1, Phase2 [3]uint64 // successful, failed, dropped recorded before the 1st / between the 1st and 2nd progress line
	MaxFailures    uint64
	MaxRate        int
	IgnoreDropped  bool
	Errs           []errSpec
	Path           string
	Period         time.Duration
	Clock          bool // RecordStarted was called (elapsed time is then the wall clock, otherwise 0)
	Nanos          int64
}

func genPipeCase(t *rapid.T) pipeCase {
	small := rapid.OneOf(rapid.Just(uint64(0)), rapid.Uint64Range(0, 3), rapid.Uint64Range(0, 120))
	var c pipeCase
	for i := 0; i < 3; i++ {
		c.Phase1[i] = small.Draw(t, "phase1")
		c.Phase2[i] = small.Draw(t, "phase2")
	}
	if rapid.IntRange(0, 7).Draw(t, "onlyDropped") == 0 {
		c.Phase1[0], c.Phase1[1], c.Phase2[0], c.Phase2[1] = 0, 0, 0, 0
	}
	c.MaxFailures = rapid.SampledFrom([]uint64{0, 0, 1, 5, 100}).Draw(t, "maxFailures")
	c.MaxRate = rapid.SampledFrom([]int{0, 0, 1, 10, 50, 100}).Draw(t, "maxRate")
	c.IgnoreDropped = rapid.Bool().Draw(t, "ignoreDropped")
	n := rapid.SampledFrom([]int{0, 0, 0, 1, 1, 2, 3}).Draw(t, "nerrs")
	for i := 0; i < n; i++ {
		e := genErr(false).Draw(t, "err")
		if e.Kind == "nil" {
			e = errSpec{Kind: "plain", Text: "setup failed"}
		}
		c.Errs = append(c.Errs, e)
	}
	c.Path = genText().Draw(t, "path")
	c.Period = genDuration().Draw(t, "period")
	c.Clock = rapid.Bool().Draw(t, "clock")
	c.Nanos = rapid.OneOf(rapid.Just(int64(0)), rapid.Int64Range(0, 10_000_000_000)).Draw(t, "nanos")
	return c
}

func judgePipe(c pipeCase) string {
	return guarded("the result pipeline", func() string {
		st := &progress.Stats{}
		res := run.NewResult(options.RunOptions{
			Scenario:        "s",
			MaxDuration:     time.Second,
			Concurrency:     1,
			MaxFailures:     c.MaxFailures,
			MaxFailuresRate: c.MaxRate,
			IgnoreDropped:   c.IgnoreDropped,
		}, vw, st)
		res.LogFilePath = c.Path
		if c.Clock {
			res.RecordStarted()
		}
		var tot [3]uint64
		for phase, p := range [][3]uint64{c.Phase1, c.Phase2} {
			for i := uint64(0); i < p[0]; i++ {
				st.Record(metrics.SuccessResult, c.Nanos+int64(i))
			}
			for i := uint64(0); i < p[1]; i++ {
				st.Record(metrics.FailedResult, c.Nanos+int64(2*i))
			}
			for i := uint64(0); i < p[2]; i++ {
				st.Record(metrics.DroppedResult, 0)
			}
			for i := range tot {
				tot[i] += p[i]
			}
			res.SnapshotProgress(c.Period)
			if msg := verifyProgress(res.Progress(), expProgress{S: tot[0], F: tot[1], D: tot[2], NoSuccessInPeriod: p[0] == 0}); msg != "" {
				return fmt.Sprintf("progress line %d: %s", phase+1, msg)
			}
		}
		if c.Clock {
			res.RecordTestFinished()
		}
		res.GetTotals()
		for _, e := range c.Errs {
			res.AddError(e.build())
		}
		exp := expResult{S: tot[0], F: tot[1], D: tot[2], Iterations: tot[0] + tot[1] + tot[2], Started: tot[0] + tot[1],
			Failed: res.Failed(), Path: c.Path}
		if err := res.Error(); err != nil {
			s := err.Error()
			exp.ErrText = &s
		}
		if (exp.ErrText != nil) != (len(c.Errs) > 0) {
			return fmt.Sprintf("Error()=%v after %d AddError calls", res.Error(), len(c.Errs))
		}
		if exp.ErrText != nil && !exp.Failed {
			return "a result carrying an error is not failed"
		}
		if msg := verifyResultText(res.Summary(), exp); msg != "" {
			return "summary: " + msg
		}
		if msg := verifyResultLog(res.Summary(), exp); msg != "" {
			return "summary: " + msg
		}
		return ""
	})
}

func TestProp_Pipeline(t *testing.T) {
	rapid.Check(t, func(rt *rapid.T) {
		c := genPipeCase(rt)
		s, f, d := c.Phase1[0]+c.Phase2[0], c.Phase1[1]+c.Phase2[1], c.Phase1[2]+c.Phase2[2]
		cls := []string{}
		nt := nontrivialRule(s, f, d, s+f+d, map[bool]time.Duration{true: 1, false: 0}[c.Clock])
		if nt {
			cls = append(cls, "nontrivial")
		}
		if nonzero(s, f, d) >= 2 {
			cls = append(cls, "two-plus-nonzero")
		}
		if s+f+d == 0 {
			cls = append(cls, "zero-iterations")
		}
		if s+f == 0 && d > 0 {
			cls = append(cls, "only-dropped")
		}
		if !c.Clock {
			cls = append(cls, "zero-duration")
		}
		if len(c.Errs) > 1 {
			cls = append(cls, "several-errors")
		} else if len(c.Errs) == 1 {
			cls = append(cls, "one-error")
		}
		stats.Case("pipeline", fmt.Sprintf("%+v", c), nt, cls, func() any { return c })
		if msg := judgePipe(c); msg != "" {
			rt.Fatalf("VERIF-VIOLATION C19: %s\ninput: %+v", msg, c)
		}
	})
}

// ---- arbitrary (inconsistent) data: rendering never panics -------------------------------------

type arbCase struct {
	Result   resultCase
	Progress progressCase
}

func genAnyCount() *rapid.Generator[uint64] {
	return rapid.OneOf(genCount(), rapid.Uint64(), rapid.SampledFrom([]uint64{math.MaxUint64, math.MaxUint64 - 1, 1 << 63, 1<<63 - 1, 1 << 53, 1<<53 + 1}))
}

func genAnyDuration() *rapid.Generator[time.Duration] {
	return rapid.OneOf(genDuration(),
		rapid.Custom(func(t *rapid.T) time.Duration { return time.Duration(rapid.Int64().Draw(t, "anydur")) }),
		rapid.SampledFrom([]time.Duration{math.MinInt64, math.MinInt64 + 1, math.MaxInt64, math.MaxInt64 - 1, -1, -time.Second, -500 * time.Millisecond,
			-499_999_999}))
}

func genAnySnap() *rapid.Generator[progress.IterationDurationsSnapshot] {
	return rapid.Custom(func(t *rapid.T) progress.IterationDurationsSnapshot {
		return progress.IterationDurationsSnapshot{
			Average: genAnyDuration().Draw(t, "avg"),
			Min:     genAnyDuration().Draw(t, "min"),
			Max:     genAnyDuration().Draw(t, "max"),
			Count:   genAnyCount().Draw(t, "count"),
		}
	})
}

func genArbCase(t *rapid.T) arbCase {
	var c arbCase
	r := &c.Result
	r.S, r.F, r.D = genAnyCount().Draw(t, "s"), genAnyCount().Draw(t, "f"), genAnyCount().Draw(t, "d")
	r.Iterations, r.Started = genAnyCount().Draw(t, "iterations"), genAnyCount().Draw(t, "started")
	r.Failed = rapid.Bool().Draw(t, "failed")
	r.Duration = genAnyDuration().Draw(t, "duration")
	r.Err = genErr(true).Draw(t, "err")
	r.Path = genText().Draw(t, "path")
	r.SDur, r.FDur = genAnySnap().Draw(t, "sdur"), genAnySnap().Draw(t, "fdur")
	p := &c.Progress
	p.S, p.F, p.D = genAnyCount().Draw(t, "ps"), genAnyCount().Draw(t, "pf"), genAnyCount().Draw(t, "pd")
	p.Duration, p.Period = genAnyDuration().Draw(t, "pduration"), genAnyDuration().Draw(t, "period")
	p.Recent = genAnySnap().Draw(t, "recent")
	return c
}

var (
	discardText = f1log.NewTestLogger(io.Discard)
	discardJSON = f1log.NewLogger(io.Discard, f1log.NewConfig().WithJSONFormat(true))
)

// noPanic renders and logs both views in every form and reports a panic; nothing else is demanded of inconsistent data.
func noPanic(c arbCase) string {
	return guarded("rendering arbitrary data", func() string {
		rv := vw.Result(c.Result.data())
		plain, tty := rv.VerifRender(false), rv.VerifRender(true)
		if plain == "" || tty == "" {
			return "empty summary"
		}
		_ = rv.Render()
		capture(rv.Log)
		rv.Log(discardText)
		rv.Log(discardJSON)
		pv := vw.Progress(c.Progress.data())
		if pv.VerifRender(false) == "" || pv.VerifRender(true) == "" {
			return "empty progress line"
		}
		_ = pv.Render()
		capture(pv.Log)
		pv.Log(discardText)
		pv.Log(discardJSON)
		return ""
	})
}

func (c arbCase) classes() []string {
	r := c.Result
	cls := []string{}
	if r.Iterations != r.S+r.F+r.D || r.Started != r.S+r.F {
		cls = append(cls, "inconsistent")
	}
	if r.Iterations == 0 && nonzero(r.S, r.F, r.D) > 0 {
		cls = append(cls, "share-of-zero-iterations")
	}
	if r.Duration < 0 || c.Progress.Duration < 0 || c.Progress.Period < 0 {
		cls = append(cls, "negative-duration")
	}
	if r.Duration == 0 {
		cls = append(cls, "zero-duration")
	}
	if r.S > 1<<53 || r.F > 1<<53 || r.D > 1<<53 || r.Iterations > 1<<53 {
		cls = append(cls, "beyond-float-precision")
	}
	if r.Err.Kind == "nil" {
		cls = append(cls, "error-nil")
	} else {
		cls = append(cls, "error-"+r.Err.Kind)
	}
	if r.Err.Kind != "nil" && !r.Failed {
		cls = append(cls, "error-but-passed")
	}
	return cls
}

func TestProp_ArbitraryNoPanic(t *testing.T) {
	rapid.Check(t, func(rt *rapid.T) {
		c := genArbCase(rt)
		r := c.Result
		stats.Case("arbitrary", fmt.Sprintf("%+v", c), nontrivialRule(r.S, r.F, r.D, r.Iterations, r.Duration), c.classes(), func() any { return c })
		if msg := noPanic(c); msg != "" {
			rt.Fatalf("VERIF-VIOLATION C19: %s\ninput: %+v", msg, c)
		}
	})
}

// ---- exhaustive small scope ------------------------------------------------------------------

const enumMax = 12

func enumTriples(f func(s, fl, d uint64)) {
	for s := uint64(0); s <= enumMax; s++ {
		for fl := uint64(0); fl <= enumMax; fl++ {
			for d := uint64(0); d <= enumMax; d++ {
				f(s, fl, d)
			}
		}
	}
}

func enumResultCases(f func(c resultCase)) {
	snap := progress.IterationDurationsSnapshot{Average: 2 * time.Microsecond, Min: time.Microsecond, Max: 3 * time.Microsecond}
	enumTriples(func(s, fl, d uint64) {
		for _, failed := range []bool{false, true} {
			for _, dur := range []time.Duration{0, time.Second} {
				for _, e := range []errSpec{{Kind: "nil"}, {Kind: "plain", Text: "errorMessage"}} {
					if e.Kind != "nil" && !failed {
						continue
					}
					f(resultCase{S: s, F: fl, D: d, Iterations: s + fl + d, Started: s + fl, Failed: failed, Duration: dur, Err: e,
						Path: "log/file/path.log", SDur: snap, FDur: snap})
				}
			}
		}
	})
}

// TestEnum_SmallCountsText renders every (successful, failed, dropped) in [0,12]^3 x verdict x {0,1s} x {no error, error}
// as text, and every triple x period {0,1s} as a progress line in both forms.
func TestEnum_SmallCountsText(t *testing.T) {
	n := 0
	enumResultCases(func(c resultCase) {
		n++
		stats.Case("enum-text", c.key(), nontrivialRule(c.S, c.F, c.D, c.Iterations, c.Duration), nil, func() any { return c })
		if msg := verifyResultText(vw.Result(c.data()), c.exp()); msg != "" {
			t.Fatalf("VERIF-VIOLATION C19: %s\ninput: %+v", msg, c)
		}
	})
	enumTriples(func(s, fl, d uint64) {
		for _, period := range []time.Duration{0, time.Second} {
			n++
			c := progressCase{S: s, F: fl, D: d, Duration: time.Minute, Period: period,
				Recent: progress.IterationDurationsSnapshot{Average: time.Microsecond, Min: time.Microsecond, Max: time.Microsecond, Count: s / 2}}
			stats.Case("enum-text", fmt.Sprintf("%+v", c), nontrivialRule(s, fl, d, s+fl+d, c.Duration) || period == 0, nil, func() any { return c })
			if msg := verifyProgress(vw.Progress(c.data()), expProgress{S: s, F: fl, D: d}); msg != "" {
				t.Fatalf("VERIF-VIOLATION C19: %s\ninput: %+v", msg, c)
			}
		}
	})
	stats.Note("enum_text_exhaustive", true)
	stats.AddNote("enum_text_cases", int64(n))
}

// TestEnum_SmallCountsLog checks the structured summary for the same finite set of results.
func TestEnum_SmallCountsLog(t *testing.T) {
	n := 0
	var first string
	bad := 0
	enumResultCases(func(c resultCase) {
		n++
		stats.Case("enum-log", c.key(), nontrivialRule(c.S, c.F, c.D, c.Iterations, c.Duration), nil, func() any { return c })
		if msg := verifyResultLog(vw.Result(c.data()), c.exp()); msg != "" {
			bad++
			if first == "" {
				first = fmt.Sprintf("%s\ninput: %+v", msg, c)
			}
		}
	})
	stats.Note("enum_log_exhaustive", true)
	stats.AddNote("enum_log_cases", int64(n))
	if bad > 0 {
		t.Fatalf("VERIF-VIOLATION C19: %d of %d enumerated results, first: %s", bad, n, first)
	}
}

// ---- regression table ---------------------------------------------------------------------------

// TestRegress replays shrunk past failures and hostile constants as plain table tests (bypassing rapid).
func TestRegress(t *testing.T) {
	snap := progress.IterationDurationsSnapshot{Average: 2 * time.Microsecond, Min: time.Microsecond, Max: 3 * time.Microsecond}
	mk := func(s, f, d uint64, failed bool, dur time.Duration, e errSpec, path string) resultCase {
		return resultCase{S: s, F: f, D: d, Iterations: s + f + d, Started: s + f, Failed: failed || e.Kind != "nil", Duration: dur,
			Err: e, Path: path, SDur: snap, FDur: snap}
	}
	none := errSpec{Kind: "nil"}
	consistent := []resultCase{
		// F8: nothing started, 5 (and 1, the shrunk form) dropped: text says "0 iterations started", the log must say started=0 too
		mk(0, 0, 5, true, time.Second, none, "log/file/path.log"),
		mk(0, 0, 1, false, 0, none, ""),
		// zero iterations, zero elapsed time
		mk(0, 0, 0, false, 0, none, ""),
		mk(0, 0, 0, true, 0, errSpec{Kind: "plain", Text: "setup failed"}, "/tmp/f1.log"),
		// shares exactly at a rounding tie of the second decimal (1/800 = 0.125 %) and next to one
		mk(1, 799, 0, true, time.Second, none, "p"),
		mk(3, 0, 797, false, time.Second, none, "p"),
		mk(1, 1, 1, true, 500*time.Millisecond, none, "p"),
		mk(maxCount, maxCount, maxCount, true, hundredHours, none, "p"),
		mk(maxCount-1, 1, 0, true, 1, none, "p"),
		mk(333_333_333_333, 333_333_333_333, 333_333_333_334, true, time.Hour, none, "p"),
		// hostile error texts and log paths
		mk(2, 10, 3, true, time.Second, errSpec{Kind: "plain", Text: hostileTexts[3]}, hostileTexts[3]),
		mk(2, 10, 3, true, time.Second, errSpec{Kind: "plain", Text: hostileTexts[4]}, hostileTexts[5]),
		mk(2, 10, 3, true, time.Second, errSpec{Kind: "joined", Text: hostileTexts[7]}, hostileTexts[7]),
		mk(2, 10, 3, true, time.Second, errSpec{Kind: "plain", Text: hostileTexts[8]}, hostileTexts[16]),
		mk(2, 0, 3, true, time.Second, errSpec{Kind: "plain", Text: hostileTexts[9]}, hostileTexts[10]),
		mk(2, 0, 3, true, time.Second, errSpec{Kind: "strkind", Text: ""}, "\x1b"),
		mk(0, 0, 0, true, 0, errSpec{Kind: "structkind", Text: "\n"}, "\n"),
		mk(5, 5, 5, true, time.Second, errSpec{Kind: "wrapped", Text: hostileTexts[13]}, hostileTexts[13]),
	}
	for _, c := range consistent {
		if msg := verifyResultText(vw.Result(c.data()), c.exp()); msg != "" {
			t.Errorf("VERIF-VIOLATION C19: %s\ninput: %+v", msg, c)
		}
		if msg := verifyResultLog(vw.Result(c.data()), c.exp()); msg != "" {
			t.Errorf("VERIF-VIOLATION C19: %s\ninput: %+v", msg, c)
		}
	}
	for _, c := range []progressCase{
		{},
		{S: 10, F: 5, D: 3, Duration: time.Minute, Period: 10 * time.Second, Recent: progress.IterationDurationsSnapshot{Count: 10}},
		{S: 10, F: 5, D: 3, Duration: time.Minute, Period: 10 * time.Second, Recent: progress.IterationDurationsSnapshot{Count: 4}},
		{S: 0, F: 0, D: 5, Period: 0},
		{S: maxCount, F: maxCount, D: maxCount, Duration: hundredHours, Period: 1, Recent: progress.IterationDurationsSnapshot{Count: maxCount}},
		{S: 99999, F: 100000, D: 1, Duration: 499_999_999, Period: 500 * time.Millisecond},
	} {
		if msg := verifyProgress(vw.Progress(c.data()), expProgress{S: c.S, F: c.F, D: c.D}); msg != "" {
			t.Errorf("VERIF-VIOLATION C19: %s\ninput: %+v", msg, c)
		}
	}
	for _, c := range []pipeCase{
		{Phase1: [3]uint64{0, 0, 5}},                                   // F8 through the real pipeline
		{Phase1: [3]uint64{0, 0, 1}, IgnoreDropped: true, Clock: true}, // F8, passed verdict
		{},
		{Phase1: [3]uint64{3, 2, 1}, Phase2: [3]uint64{1, 0, 4}, MaxRate: 50, Errs: []errSpec{{Kind: "plain", Text: "a\nb"}, {Kind: "plain", Text: "100%"}}, Path: "{{.x}}"},
	} {
		if msg := judgePipe(c); msg != "" {
			t.Errorf("VERIF-VIOLATION C19: %s\ninput: %+v", msg, c)
		}
	}
	anySnap := progress.IterationDurationsSnapshot{Average: math.MinInt64, Min: math.MaxInt64, Max: -1, Count: math.MaxUint64}
	for _, c := range []arbCase{
		{},
		{Result: resultCase{S: 1, F: 1, D: 1, Iterations: 0, Started: 0}}, // share of zero iterations: +Inf
		{Result: resultCase{S: math.MaxUint64, F: math.MaxUint64, D: math.MaxUint64, Iterations: math.MaxUint64, Started: math.MaxUint64,
			Duration: time.Second, Err: errSpec{Kind: "nilptr"}, SDur: anySnap, FDur: anySnap},
			Progress: progressCase{S: math.MaxUint64, F: math.MaxUint64, D: math.MaxUint64, Duration: math.MinInt64, Period: math.MinInt64, Recent: anySnap}},
		{Result: resultCase{S: 5, Iterations: 3, Started: 9, Duration: math.MinInt64, Err: errSpec{Kind: "strkind", Text: ""}},
			Progress: progressCase{Duration: math.MaxInt64, Period: -1, Recent: anySnap}},
		{Result: resultCase{S: 5, Iterations: 5, Started: 5, Duration: -time.Second, Err: errSpec{Kind: "plain", Text: hostileTexts[4]}, Path: hostileTexts[4]},
			Progress: progressCase{S: 1, Period: -time.Second, Recent: progress.IterationDurationsSnapshot{Count: 7}}},
	} {
		if msg := noPanic(c); msg != "" {
			t.Errorf("VERIF-VIOLATION C19: %s\ninput: %+v", msg, c)
		}
	}
}
