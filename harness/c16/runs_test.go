package c16

import (
	"context"
	"fmt"
	"regexp"
	"strconv"
	"strings"
	"sync/atomic"
	"testing"
	"time"

	"github.com/prometheus/client_golang/prometheus"
	"pgregory.net/rapid"

	"github.com/form3tech-oss/f1/v2/internal/envsettings"
	"github.com/form3tech-oss/f1/v2/internal/metrics"
	"github.com/form3tech-oss/f1/v2/internal/run"
	"github.com/form3tech-oss/f1/v2/internal/ui"
	"github.com/form3tech-oss/f1/v2/pkg/f1/scenarios"
	f1testing "github.com/form3tech-oss/f1/v2/pkg/f1/testing"
	"github.com/form3tech-oss/f1/v2/verifharness/vlib"
)

// ---- engine 2: 1-3 consecutive whole runs on one metrics instance ---------------------------

var plainName = regexp.MustCompile(`^[a-zA-Z][a-zA-Z0-9_\-]*$`)

// buildNamed builds the run (run.NewRun) with the scenario registered under an arbitrary name
// (vlib.Execute always uses vlib.ScenarioName); the caller executes it with Do.
func buildNamed(spec *vlib.RunSpec, name string) (*run.Run, error) {
	if spec.Mode == "file" && plainName.MatchString(name) {
		cp := *spec
		cp.FileYAML = strings.Replace(spec.FileYAML, "scenario: "+vlib.ScenarioName+"\n", "scenario: "+name+"\n", 1)
		spec = &cp
	}
	trig, err := vlib.BuildTrigger(spec)
	if err != nil {
		return nil, fmt.Errorf("build trigger: %w", err)
	}
	opts := spec.Opts
	if spec.Mode == "file" {
		opts.MaxDuration = trig.Options.MaxDuration
		opts.Concurrency = trig.Options.Concurrency
		opts.MaxIterations = trig.Options.MaxIterations
		opts.MaxFailures = trig.Options.MaxFailures
		opts.MaxFailuresRate = trig.Options.MaxFailuresRate
		opts.IgnoreDropped = trig.Options.IgnoreDropped
	}
	opts.Scenario = name
	opts.Verbose = true
	sc := scenarios.New()
	sc.Add(&scenarios.Scenario{Name: name, ScenarioFn: spec.ScenarioFn})
	r, err := run.NewRun(opts, sc, trig, spec.WaitTimeout, envsettings.Settings{}, spec.Metrics, ui.NewDiscardOutput())
	if err != nil {
		return nil, fmt.Errorf("new run: %w", err)
	}
	return r, nil
}

type runPlan struct {
	Name       string
	Shape      vlib.Shape
	DropShape  bool
	FailEvery  int
	PanicEvery int
	BodyUs     int
	Setup      string   // ok | fail | failnow | panic
	TimedSteps []string // stage names of steps every body (and the setup) times with T.Time; "" is a valid name
	// Rename: the scenario assigns the exported, writable field T.Scenario of the handles it is given
	// ("" = never, "setup", "iteration", "both"); the setup / iteration / dropped series are the run's
	// and keep the registered scenario name. Only drawn for plans without timed steps (T.Time labels
	// its stage series with the handle's field, which is not part of this check).
	Rename string
}

func (p runPlan) String() string {
	return fmt.Sprintf("{name=%q setup=%s failEvery=%d panicEvery=%d bodyMicros=%d drops=%v timedSteps=%q rename=%q %s}",
		p.Name, p.Setup, p.FailEvery, p.PanicEvery, p.BodyUs, p.DropShape, p.TimedSteps, p.Rename, p.Shape.Desc)
}

func genRunPlan(t *rapid.T, earlier []string) runPlan {
	var p runPlan
	if len(earlier) > 0 && rapid.IntRange(0, 4).Draw(t, "reuseName") == 0 {
		p.Name = rapid.SampledFrom(earlier).Draw(t, "earlierName")
	} else {
		p.Name = genName(t, "scenario")
	}
	p.Setup = rapid.SampledFrom([]string{"ok", "ok", "ok", "ok", "ok", "ok", "ok", "ok", "ok", "fail", "failnow", "panic"}).Draw(t, "setup")
	p.DropShape = rapid.IntRange(0, 3).Draw(t, "dropShape") == 0
	p.FailEvery = rapid.SampledFrom([]int{0, 2, 3, 5, 11}).Draw(t, "failEvery")
	p.PanicEvery = rapid.SampledFrom([]int{0, 0, 4, 7}).Draw(t, "panicEvery")
	if rapid.IntRange(0, 2).Draw(t, "timedSteps") == 0 {
		// steps timed with T.Time export stage series of their own; they are no iterations
		p.TimedSteps = rapid.SliceOfN(rapid.SampledFrom([]string{"", "", "step", "setup", "Iteration"}), 1, 3).Draw(t, "stepNames")
	}
	if rn := rapid.SampledFrom([]string{"", "", "", "", "", "setup", "iteration", "both"}).Draw(t, "rename"); len(p.TimedSteps) == 0 {
		p.Rename = rn
	}
	if p.DropShape {
		// one worker, bodies of three ticks: every tick after the first finds the worker busy and
		// supersedes the requests still pending (the shape of c08's CLI drop case, shortened)
		p.BodyUs = 60000
		p.Shape = vlib.Shape{Mode: "constant", Flags: map[string]string{"rate": "5/20ms", "distribution": "none"},
			Concurrency: 1, MaxDuration: 170 * time.Millisecond}
		p.Shape.Desc = "constant c=1 dur=170ms rate=5/20ms body=60ms"
		return p
	}
	p.BodyUs = rapid.SampledFrom([]int{0, 0, 50, 500, 2000}).Draw(t, "bodyMicros")
	p.Shape = vlib.GenShape(t, vlib.ShapeOpts{Limit: "maybe", MaxLimit: 200, MinDur: 40 * time.Millisecond, MaxDur: 220 * time.Millisecond, MaxConcurrency: 16})
	return p
}

type runObs struct {
	Plan                   runPlan
	BodyPass, BodyFail     uint64
	SnapS, SnapF, SnapD    uint64
	MetS, MetF, MetD       uint64
	SetupSamples           map[string]uint64
	SetupFailed, Completed bool
}

func TestProp_ConsecutiveRuns(t *testing.T) {
	dir := t.TempDir()
	rapid.Check(t, func(rt *rapid.T) {
		labels := genLabels(rt)
		metricsOn := rapid.IntRange(0, 3).Draw(rt, "iterationMetrics") != 0
		// one case in three uses the process-wide instance, the way the CLI does; only there do steps
		// timed with T.Time (which always books into the process-wide instance) land next to the
		// iteration series - and must not be counted as iterations
		processWide := rapid.IntRange(0, 2).Draw(rt, "processWideInstance") == 0
		if processWide {
			labels, metricsOn = labelSpec{}, true
		}
		nRuns := rapid.SampledFrom([]int{1, 2, 2, 3}).Draw(rt, "runs")
		plans := []runPlan{}
		names := []string{}
		for i := 0; i < nRuns; i++ {
			p := genRunPlan(rt, names)
			if !processWide {
				p.TimedSteps = nil
			}
			plans = append(plans, p)
			names = append(names, p.Name)
		}

		instance := metrics.NewInstance(prometheus.NewRegistry(), metricsOn, labels.build())
		if processWide {
			instance = metrics.Instance()
		}
		// in one case in four all runs are built first (run.NewRun) and executed afterwards: a run starts
		// from empty summaries when it is executed, whenever it was built
		buildFirst := nRuns >= 2 && rapid.IntRange(0, 3).Draw(rt, "buildAllRunsFirst") == 0
		var prebuilt []*prepared
		if buildFirst {
			for i, p := range plans {
				pre, err := prepareRun(dir, instance, p)
				if err != nil {
					rt.Fatalf("VERIF-INFRA: cannot build run %d %s: %v", i, p, err)
				}
				prebuilt = append(prebuilt, pre)
			}
		}
		obs := []runObs{}
		violation, infra := "", ""
		for i, p := range plans {
			var pre *prepared
			if buildFirst {
				pre = prebuilt[i]
			}
			o, v, inf := oneRun(dir, instance, labels, metricsOn, p, i, pre)
			obs = append(obs, o)
			if v != "" || inf != "" {
				violation, infra = v, inf
				break
			}
		}

		cls := labels.classes()
		cls = append(cls, fmt.Sprintf("runs-%d", nRuns))
		if !metricsOn {
			cls = append(cls, "iteration-metrics-off")
		}
		if processWide {
			cls = append(cls, "process-wide-instance")
		}
		if buildFirst {
			cls = append(cls, "all-runs-built-before-the-first-is-executed")
		}
		seen := map[string]bool{}
		add := func(c string) {
			if !seen[c] {
				seen[c] = true
				cls = append(cls, c)
			}
		}
		for i, o := range obs {
			add("mode-" + o.Plan.Shape.Mode)
			if o.SnapD > 0 {
				add("with-drops")
			}
			if o.SetupFailed {
				add("setup-failed")
				if i+1 < len(obs) {
					add("run-after-failed-setup")
				}
			}
			if o.BodyPass > 0 && o.BodyFail > 0 {
				add("passing-and-failing-iterations")
			}
			if o.Plan.Rename != "" {
				add("scenario-writes-handle-name")
			}
			for _, e := range obs[:i] {
				if e.Plan.Name == o.Plan.Name {
					add("scenario-name-reused")
				}
			}
		}
		key := fmt.Sprintf("%s|%v|%v|%v", labels, metricsOn, plans, processWide)
		stats.Case("runs", key, labels.orderDiffers() || nRuns >= 2, cls, func() any {
			runs := []any{}
			for _, o := range obs {
				runs = append(runs, map[string]any{"plan": o.Plan.String(), "body_passed": o.BodyPass, "body_failed": o.BodyFail,
					"dropped": o.SnapD, "setup_samples": o.SetupSamples})
			}
			return map[string]any{"labels_in_insertion_order": labels.String(), "iteration_metrics": metricsOn, "runs": runs}
		})
		if infra != "" {
			rt.Fatalf("VERIF-INFRA: %s", infra)
		}
		if violation != "" {
			rt.Fatalf("VERIF-VIOLATION C16: %s", violation)
		}
	})
}

// oneRun performs run number idx on the shared instance and compares the gathered metrics with
// the result snapshot and the body-side counters. It returns (observation, violation, infra).
// prepared is a run that has been built (run.NewRun) but not executed yet.
type prepared struct {
	r              *run.Run
	passed, failed atomic.Uint64
	inFlight       atomic.Int64
}

// executeNamed builds the run and executes it at once.
func executeNamed(spec *vlib.RunSpec, name string) (*run.Result, error) {
	r, err := buildNamed(spec, name)
	if err != nil {
		return nil, err
	}
	res, err := r.Do(context.Background())
	if err != nil {
		return nil, fmt.Errorf("do: %w", err)
	}
	return res, nil
}

func prepareRun(dir string, instance *metrics.Metrics, p runPlan) (*prepared, error) {
	pre := &prepared{}
	passed, failed, inFlight := &pre.passed, &pre.failed, &pre.inFlight
	scenario := func(st *f1testing.T) f1testing.RunFn {
		for _, name := range p.TimedSteps {
			st.Time(name, func() {})
		}
		if p.Rename == "setup" || p.Rename == "both" {
			st.Scenario = p.Name + "/warm-up"
		}
		switch p.Setup {
		case "fail":
			st.Fail()
		case "failnow":
			st.FailNow()
		case "panic":
			panic("planned setup panic")
		}
		return func(it *f1testing.T) {
			inFlight.Add(1)
			defer inFlight.Add(-1)
			id, _ := strconv.ParseUint(it.Iteration, 10, 64)
			if p.Rename == "iteration" || p.Rename == "both" {
				it.Scenario = fmt.Sprintf("%s/tenant-%d", p.Name, id%3)
			}
			for _, name := range p.TimedSteps {
				it.Time(name, func() {})
			}
			if p.BodyUs > 0 {
				time.Sleep(time.Duration(p.BodyUs) * time.Microsecond)
			}
			switch {
			case p.PanicEvery > 0 && id%uint64(p.PanicEvery) == 0:
				failed.Add(1)
				panic(fmt.Sprintf("planned panic in iteration %d", id))
			case p.FailEvery > 0 && id%uint64(p.FailEvery) == 0:
				failed.Add(1)
				it.FailNow()
			default:
				passed.Add(1)
			}
		}
	}
	spec := p.Shape.Spec(dir)
	spec.ScenarioFn = scenario
	spec.WaitTimeout = 20 * time.Second
	spec.Metrics = instance
	r, err := buildNamed(spec, p.Name)
	pre.r = r
	return pre, err
}

func oneRun(dir string, instance *metrics.Metrics, labels labelSpec, metricsOn bool, p runPlan, idx int, pre *prepared) (runObs, string, string) {
	o := runObs{Plan: p}
	if pre == nil {
		var err error
		if pre, err = prepareRun(dir, instance, p); err != nil {
			return o, "", fmt.Sprintf("cannot build run %d %s: %v", idx, p, err)
		}
	}
	passed, failed, inFlight := &pre.passed, &pre.failed, &pre.inFlight
	res, err := pre.r.Do(context.Background())
	if err != nil {
		return o, "", fmt.Sprintf("cannot execute run %d %s: %v", idx, p, err)
	}
	o.SetupFailed = p.Setup != "ok"
	if inFlight.Load() != 0 {
		// precondition ("after a run": all iterations returned) not met: completion timeout expired
		stats.AddNote("runs_skipped_iterations_still_running", 1)
		return o, "", ""
	}
	o.Completed = true
	snap := res.Snapshot()
	o.BodyPass, o.BodyFail = passed.Load(), failed.Load()
	o.SnapS, o.SnapF, o.SnapD = snap.SuccessfulIterationDurations.Count, snap.FailedIterationDurations.Count, snap.DroppedIterationCount
	mc, err := vlib.GatherCounts(instance)
	if err != nil {
		return o, fmt.Sprintf("run %d %s with static labels %s: Gather() failed: %v", idx, p, labels, err), ""
	}
	o.MetS, o.MetF, o.MetD = mc.Iteration["success"], mc.Iteration["fail"], mc.Iteration["dropped"]
	o.SetupSamples = mc.Setup
	where := fmt.Sprintf("run %d of this instance %s, static labels %s, iteration metrics %v", idx+1, p, labels, metricsOn)

	if o.SetupFailed && (o.BodyPass+o.BodyFail > 0 || o.SnapS+o.SnapF+o.SnapD > 0) {
		return o, fmt.Sprintf("%s: setup failed yet iterations ran (body %d/%d, result %d/%d/%d)", where, o.BodyPass, o.BodyFail, o.SnapS, o.SnapF, o.SnapD), ""
	}
	// the final result and the body agree (C01's law; restated because the metric is compared with both)
	if o.SnapS != o.BodyPass || o.SnapF != o.BodyFail {
		return o, fmt.Sprintf("%s: body ran %d passing / %d failing iterations, final result reports %d / %d", where, o.BodyPass, o.BodyFail, o.SnapS, o.SnapF), ""
	}
	want := map[seriesKey]uint64{}
	setupResult := "success"
	if o.SetupFailed {
		setupResult = "fail"
	}
	want[seriesKey{famSetup, p.Name, "", setupResult}] = 1
	if metricsOn {
		want[seriesKey{famIteration, p.Name, metrics.IterationStage, "success"}] = o.SnapS
		want[seriesKey{famIteration, p.Name, metrics.IterationStage, "fail"}] = o.SnapF
		want[seriesKey{famIteration, p.Name, metrics.IterationStage, "dropped"}] = o.SnapD
	}
	// counts by result label, as summed by vlib.GatherCounts over whatever series exist
	if metricsOn {
		if o.MetS == o.SnapS && o.MetF == o.SnapF && o.MetD > o.SnapD && p.Shape.Mode != "users" && vlib.KnownOpen(knownStopDrain) {
			// exactly the recorded open finding (see probeStopDrain): drops recorded by the trigger
			// pool's stop path after the final totals were taken. Only consulted while the finding
			// is listed as open; every other difference is still a violation.
			stats.AddNote("excluded_known", 1)
			vlib.ReportKnown(knownStopDrain)
			o.Completed = false
			return o, "", ""
		}
		if o.MetS != o.SnapS || o.MetF != o.SnapF || o.MetD != o.SnapD {
			return o, fmt.Sprintf("%s: final result reports %d successful / %d failed / %d dropped (body: %d / %d), the iteration metric holds success=%d fail=%d dropped=%d",
				where, o.SnapS, o.SnapF, o.SnapD, o.BodyPass, o.BodyFail, o.MetS, o.MetF, o.MetD), ""
		}
	} else if len(mc.Iteration) != 0 {
		return o, fmt.Sprintf("%s: iteration metrics are disabled but the iteration family holds %v", where, mc.Iteration), ""
	}
	var total uint64
	for _, n := range mc.Setup {
		total += n
	}
	if total != 1 || mc.Setup[setupResult] != 1 {
		return o, fmt.Sprintf("%s: setup outcome %q, the setup metric holds %v (expected exactly one sample, labelled %q)", where, setupResult, mc.Setup, setupResult), ""
	}
	// steps timed with T.Time export one series per stage name and outcome at the time (the handle has
	// not failed yet where the plans time their steps); none of them under stage "iteration"
	setupRan := uint64(1)
	for _, step := range p.TimedSteps {
		want[seriesKey{famIteration, p.Name, step, "success"}] += setupRan + o.BodyPass + o.BodyFail
	}
	// the process-wide registry also carries the Go runtime's own families
	fams := mc.Families[:0:0]
	for _, f := range mc.Families {
		if n := f.GetName(); n == famSetup || n == famIteration {
			fams = append(fams, f)
		}
	}
	// series by series: label sets, key/value pairing, scenario name, nothing of an earlier run
	if d := checkFamilies(fams, want, labels, map[string]bool{p.Name: true}); d != "" {
		return o, fmt.Sprintf("%s: %s", where, d), ""
	}
	return o, "", ""
}

// ---- scripted probe: drops recorded by the pool's stop path vs. the final result -------------

// knownStopDrain is the identifier under which the finding below would be listed in
// /verif/known_findings.json if it is recorded as open instead of being repaired.
const knownStopDrain = "F12-stop-drain-after-final-result"

// probeStopDrain scripts the interleaving behind the sporadic "metric holds more dropped samples
// than the final result reports": work still pending when the trigger pool stops is reported as
// dropped by TriggerPool.stop(), which runs on a goroutine of its own that nothing waits for.
// The gate parks that goroutine right after it raised the stop flag; the worker then finishes
// its iteration and exits, the pool counts as complete and Do takes the final totals; only then
// is the goroutine let through and records the drops (metric and progress) that the final
// result no longer sees. On a tree where completion waits for the drain, Do simply does not
// return before the gate is opened and both numbers agree.
func probeStopDrain() (violation, infra string) {
	labels := labelSpec{Keys: []string{"b", "a"}, Vals: []string{"vb", "va"}}
	inst := metrics.NewInstance(prometheus.NewRegistry(), true, labels.build())
	gate := vlib.NewGate("pool.stop.after_flag", 1, 10*time.Second)
	drained := make(chan struct{}, 16)
	remove := vlib.InstallGates(func(point string) {
		if point == "pool.stop.done" {
			drained <- struct{}{}
		}
	}, gate)
	defer remove()

	var ran atomic.Uint64
	spec := &vlib.RunSpec{Mode: "constant", Flags: map[string]string{"rate": "5/20ms", "distribution": "none"}, WaitTimeout: 20 * time.Second, Metrics: inst}
	spec.Opts.Concurrency = 1
	spec.Opts.MaxDuration = 170 * time.Millisecond
	spec.Opts.IgnoreDropped = true
	spec.ScenarioFn = func(*f1testing.T) f1testing.RunFn {
		return func(*f1testing.T) {
			ran.Add(1)
			time.Sleep(60 * time.Millisecond)
		}
	}
	type doneT struct {
		res *run.Result
		err error
	}
	done := make(chan doneT, 1)
	go func() {
		res, err := executeNamed(spec, "probe")
		done <- doneT{res, err}
	}()
	select {
	case <-gate.Arrived():
	case d := <-done:
		return "", fmt.Sprintf("stop-drain probe: run ended before the pool's stop path was reached (err=%v)", d.err)
	case <-time.After(30 * time.Second):
		return "", "stop-drain probe: the pool's stop path was not reached within 30s"
	}
	// give Do the chance to finish while the drain is parked
	var d doneT
	returnedWhileParked := false
	select {
	case d = <-done:
		returnedWhileParked = true
	case <-time.After(1500 * time.Millisecond):
	}
	gate.Open()
	if !returnedWhileParked {
		select {
		case d = <-done:
		case <-time.After(40 * time.Second):
			return "", "stop-drain probe: Do did not return within 40s after the gate was opened"
		}
	}
	if d.err != nil {
		return "", fmt.Sprintf("stop-drain probe: %v", d.err)
	}
	select {
	case <-drained:
	case <-time.After(20 * time.Second):
		return "", "stop-drain probe: the pool's stop path did not finish within 20s"
	}
	snap := d.res.Snapshot()
	mc, err := vlib.GatherCounts(inst)
	if err != nil {
		return "", fmt.Sprintf("stop-drain probe: gather: %v", err)
	}
	stats.Note("stop_drain_probe_do_returned_before_drain", returnedWhileParked)
	if mc.Iteration["success"] != snap.SuccessfulIterationDurations.Count || mc.Iteration["fail"] != snap.FailedIterationDurations.Count ||
		mc.Iteration["dropped"] != snap.DroppedIterationCount {
		return fmt.Sprintf("constant 5/20ms, 1 worker, 60ms bodies, max-duration 170ms, the pool's stop() parked after raising its flag until Do had returned (returned while parked: %v): "+
			"final result reports %d successful / %d failed / %d dropped (body ran %d), after the stop path finished the iteration metric holds success=%d fail=%d dropped=%d",
			returnedWhileParked, snap.SuccessfulIterationDurations.Count, snap.FailedIterationDurations.Count, snap.DroppedIterationCount, ran.Load(),
			mc.Iteration["success"], mc.Iteration["fail"], mc.Iteration["dropped"]), ""
	}
	return "", ""
}

func TestRegress_StopDrainVsFinalResult(t *testing.T) {
	v, inf := probeStopDrain()
	if inf != "" {
		t.Fatalf("VERIF-INFRA: %s", inf)
	}
	if v == "" {
		return
	}
	if vlib.KnownOpen(knownStopDrain) {
		vlib.ReportKnown(knownStopDrain)
		return
	}
	t.Fatalf("VERIF-VIOLATION C16: %s", v)
}

// ---- regressions and hostile constants -------------------------------------------------------

func TestRegress(t *testing.T) {
	mix := []recOp{
		{Kind: "setup", Name: "n1", Res: metrics.SuccessResult, N: 1},
		{Kind: "iter", Name: "n1", Res: metrics.SuccessResult, N: 3},
		{Kind: "iter", Name: "n1", Res: metrics.FailedResult, N: 2},
		{Kind: "iter", Name: "n1", Res: metrics.DroppedResult, N: 4},
		{Kind: "stage", Name: "n1", Stage: "teardown", Res: metrics.SuccessResult, N: 1},
	}
	second := []recOp{
		{Kind: "setup", Name: "n2", Res: metrics.FailedResult, N: 1},
		{Kind: "iter", Name: "n2", Res: metrics.SuccessResult, N: 1},
	}
	sameName := []recOp{
		{Kind: "setup", Name: "n1", Res: metrics.SuccessResult, N: 1},
		{Kind: "iter", Name: "n1", Res: metrics.FailedResult, N: 1},
	}
	for _, l := range []labelSpec{
		{NilMap: true},
		{},
		{Keys: []string{"b", "a"}, Vals: []string{"vb", "va"}},
		{Keys: []string{"a", "b"}, Vals: []string{"b", "a"}},
		{Keys: []string{"z", "y", "x", "w", "v", "u"}, Vals: []string{"1", "2", "3", "4", "5", "6"}},
		{Keys: []string{"abc", "ab", "a"}, Vals: []string{"abc", "ab", "a"}},
		{Keys: []string{"a", "B", "_", "A", "b"}, Vals: []string{"la", "uB", "us", "uA", "lb"}},
		{Keys: []string{"tests", "Test", "result_", "stages", "quantiles"}, Vals: []string{"", "\x00", "日本語", "\"", strings.Repeat("x", 5000)}},
		{Keys: []string{"k2", "k1"}, Vals: []string{"same", "same"}},
		{Keys: []string{"env", "Env", "ENV"}, Vals: []string{"prod", "Prod", "PROD"}},
	} {
		for _, enabled := range []bool{true, false} {
			c := directCase{Labels: l, Enabled: enabled, Epochs: [][]recOp{mix, second, sameName}}
			recordDirect("regress", c)
			for rep := 0; rep < 8; rep++ {
				if msg := runDirect(c); msg != "" {
					t.Fatalf("VERIF-VIOLATION C16: %s", msg)
				}
			}
		}
	}

	// two whole runs on one instance: first with failures and drops under one name, then a failing
	// setup under another; then the first name again
	dir := t.TempDir()
	labels := labelSpec{Keys: []string{"team", "env", "Region"}, Vals: []string{"payments", "dev", "eu-west-1"}}
	for _, on := range []bool{true, false} {
		inst := metrics.NewInstance(prometheus.NewRegistry(), on, labels.build())
		drop := vlib.Shape{Mode: "constant", Flags: map[string]string{"rate": "5/20ms", "distribution": "none"}, Concurrency: 1,
			MaxDuration: 170 * time.Millisecond, Desc: "constant c=1 dur=170ms rate=5/20ms body=60ms"}
		users := vlib.Shape{Mode: "users", Flags: map[string]string{}, Concurrency: 3, MaxDuration: 5 * time.Second, MaxIterations: 30, Desc: "users c=3 limit=30"}
		for i, p := range []runPlan{
			{Name: "first", Shape: drop, DropShape: true, BodyUs: 60000, FailEvery: 2, Setup: "ok"},
			{Name: "second", Shape: users, Setup: "panic"},
			{Name: "first", Shape: users, FailEvery: 3, PanicEvery: 7, Setup: "ok"},
			{Name: "third name", Shape: users, Setup: "failnow"},
		} {
			_, v, inf := oneRun(dir, inst, labels, on, p, i, nil)
			if inf != "" {
				t.Fatalf("VERIF-INFRA: %s", inf)
			}
			if v != "" {
				t.Fatalf("VERIF-VIOLATION C16: %s", v)
			}
		}
	}
}
