package c16

import (
	"fmt"
	"os"
	"sort"
	"strings"
	"testing"

	"github.com/prometheus/client_golang/prometheus"
	dto "github.com/prometheus/client_model/go"
	"pgregory.net/rapid"

	"github.com/form3tech-oss/f1/v2/internal/metrics"
	"github.com/form3tech-oss/f1/v2/verifharness/vlib"
)

var stats = vlib.NewStats("C16")

func TestMain(m *testing.M) {
	// the process-wide instance (what the CLI uses, and what T.Time always books into) exists in every
	// f1 process; here with iteration metrics on and no static labels
	if !strings.Contains(strings.Join(os.Args, " "), "TestProcess_") {
		metrics.Init(true)
	}
	vlib.Main(m, stats)
}

const (
	famSetup     = "form3_loadtest_setup"
	famIteration = "form3_loadtest_iteration"
)

// ---- static label maps with an explicit insertion order -------------------------------------

// labelSpec is a static-label map as the user wrote it: Keys[i] is paired with Vals[i], and the
// Go map handed to f1 is built by inserting the pairs in slice order.
type labelSpec struct {
	Keys   []string
	Vals   []string
	NilMap bool // no labels: pass a nil map instead of an empty one
}

func (l labelSpec) build() map[string]string {
	if l.NilMap && len(l.Keys) == 0 {
		return nil
	}
	m := map[string]string{}
	for i, k := range l.Keys {
		m[k] = l.Vals[i]
	}
	return m
}

func (l labelSpec) String() string {
	var b strings.Builder
	b.WriteString("[")
	for i, k := range l.Keys {
		if i > 0 {
			b.WriteString(" ")
		}
		fmt.Fprintf(&b, "%s=%q", k, l.Vals[i])
	}
	b.WriteString("]")
	if l.NilMap {
		b.WriteString("(nil)")
	}
	return b.String()
}

func (l labelSpec) orderDiffers() bool {
	return len(l.Keys) >= 2 && !sort.StringsAreSorted(l.Keys)
}

func (l labelSpec) prefixRelated() bool {
	for i, a := range l.Keys {
		for j, b := range l.Keys {
			if i != j && strings.HasPrefix(b, a) {
				return true
			}
		}
	}
	return false
}

func (l labelSpec) mixedCase() bool {
	lo, up := false, false
	for _, k := range l.Keys {
		c := k[0]
		lo = lo || (c >= 'a' && c <= 'z') || c == '_'
		up = up || (c >= 'A' && c <= 'Z')
	}
	return lo && up
}

func (l labelSpec) valuesDistinct() bool {
	seen := map[string]bool{}
	for _, v := range l.Vals {
		if seen[v] {
			return false
		}
		seen[v] = true
	}
	return true
}

func (l labelSpec) classes() []string {
	cls := []string{}
	switch n := len(l.Keys); {
	case n == 0:
		cls = append(cls, "labels-0")
	case n == 1:
		cls = append(cls, "labels-1")
	default:
		cls = append(cls, "labels-2plus")
	}
	if l.orderDiffers() {
		cls = append(cls, "insertion-order-differs-from-sorted")
		if l.valuesDistinct() {
			cls = append(cls, "order-differs-and-values-distinct")
		}
	}
	if l.prefixRelated() {
		cls = append(cls, "prefix-related-keys")
	}
	if l.mixedCase() {
		cls = append(cls, "mixed-case-keys")
	}
	for _, v := range l.Vals {
		if v == "" {
			cls = append(cls, "empty-value")
			break
		}
	}
	return cls
}

var reservedNames = map[string]bool{"test": true, "result": true, "stage": true, "quantile": true}

func validKey(k string) bool {
	return k != "" && !reservedNames[k] && !strings.HasPrefix(k, "__")
}

var hostileKeys = []string{"a", "A", "b", "B", "z", "Z", "_", "_a", "a_", "a0", "aa", "ab", "abc", "Ab", "aB",
	"tes", "tests", "test_", "Test", "TEST", "_test", "result_", "results", "stage2", "stages", "quantile_", "quantiles",
	"le", "job", "instance", "id", "namespace", "env", "team", "region", "_x_", "x__", "a__b"}

var hostileVals = []string{"", " ", "a", "b", "0", "test", "result", "iteration", "success", "fail", "dropped",
	"\n", "\t", "\"quoted\"", "\\", "a,b", "a=b", "{}", "ü", "日本語", "\x00", " ", "🙂", "=\"", strings.Repeat("long", 300)}

func genKey(t *rapid.T, used []string, label string) string {
	fresh := func(k string) bool {
		if !validKey(k) {
			return false
		}
		for _, u := range used {
			if u == k {
				return false
			}
		}
		return true
	}
	gens := []*rapid.Generator[string]{
		rapid.StringMatching(`[a-zA-Z_][a-zA-Z0-9_]{0,7}`),
		rapid.StringMatching(`[a-cA-C_][a-cA-C0-1_]{0,2}`), // dense: many prefix relations and case pairs
		rapid.SampledFrom(hostileKeys),
	}
	if len(used) > 0 {
		// a key related to an earlier one: extension, proper prefix, or the other case
		gens = append(gens, rapid.Custom(func(t *rapid.T) string {
			base := rapid.SampledFrom(used).Draw(t, "base")
			switch rapid.IntRange(0, 2).Draw(t, "relation") {
			case 0:
				return base + rapid.StringMatching(`[a-zA-Z0-9_]{1,2}`).Draw(t, "suffix")
			case 1:
				if len(base) > 1 {
					return base[:rapid.IntRange(1, len(base)-1).Draw(t, "cut")]
				}
				return base + "_"
			default:
				if strings.ToUpper(base) != base {
					return strings.ToUpper(base[:1]) + base[1:]
				}
				return strings.ToLower(base)
			}
		}))
	}
	return rapid.OneOf(gens...).Filter(fresh).Draw(t, label)
}

func genLabels(t *rapid.T) labelSpec {
	var l labelSpec
	n := rapid.SampledFrom([]int{0, 1, 2, 2, 3, 3, 4, 5, 6}).Draw(t, "nLabels")
	if n == 0 {
		l.NilMap = rapid.Bool().Draw(t, "nilMap")
		return l
	}
	keys := []string{}
	for i := 0; i < n; i++ {
		keys = append(keys, genKey(t, keys, fmt.Sprintf("key%d", i)))
	}
	// the insertion order is a drawn value of its own
	switch rapid.IntRange(0, 3).Draw(t, "order") {
	case 0: // descending: as far from the sorted order as possible
		sort.Sort(sort.Reverse(sort.StringSlice(keys)))
	case 1:
		keys = rapid.Permutation(keys).Draw(t, "insertionOrder")
	default: // as drawn
	}
	l.Keys = keys
	valGen := rapid.OneOf(rapid.String(), rapid.StringN(1, 12, -1), rapid.SampledFrom(hostileVals), rapid.SampledFrom(keys))
	allSame := rapid.IntRange(0, 11).Draw(t, "allSame") == 0
	for i := range keys {
		if allSame && i > 0 {
			l.Vals = append(l.Vals, l.Vals[0])
			continue
		}
		l.Vals = append(l.Vals, valGen.Draw(t, fmt.Sprintf("val%d", i)))
	}
	return l
}

var hostileNames = []string{"s", "S", "test", "result", "stage", "iteration", "setup", "success", "fail", "dropped",
	"a b", "ünï", "名前", "x/y", "a.b-c", vlib.ScenarioName, "\"q\"", "{x=\"1\"}"}

func genName(t *rapid.T, label string) string {
	return rapid.OneOf(
		rapid.StringMatching(`[a-zA-Z][a-zA-Z0-9_\-]{0,15}`),
		rapid.StringMatching(`[ab]{1,2}`),
		rapid.SampledFrom(hostileNames),
		rapid.StringN(1, 10, -1),
	).Draw(t, label)
}

// ---- the oracle on Registry.Gather() --------------------------------------------------------

type seriesKey struct{ Fam, Test, Stage, Result string }

func (k seriesKey) String() string {
	if k.Fam == famSetup {
		return fmt.Sprintf("setup{test=%q,result=%q}", k.Test, k.Result)
	}
	return fmt.Sprintf("iteration{test=%q,stage=%q,result=%q}", k.Test, k.Stage, k.Result)
}

func renderPairs(lps []*dto.LabelPair) string {
	parts := []string{}
	for _, lp := range lps {
		parts = append(parts, fmt.Sprintf("%s=%q", lp.GetName(), lp.GetValue()))
	}
	return "{" + strings.Join(parts, ",") + "}"
}

// checkFamilies compares gathered families with the expected sample counts. want holds the
// expected count per series (absent = 0); names is the set of scenario names that may appear at
// all (those recorded since the last reset). It returns "" or a description of the difference.
func checkFamilies(fams []*dto.MetricFamily, want map[seriesKey]uint64, static labelSpec, names map[string]bool) string {
	got := map[seriesKey]uint64{}
	for _, f := range fams {
		fam := f.GetName()
		if fam != famSetup && fam != famIteration {
			return fmt.Sprintf("unexpected metric family %q in the private registry", fam)
		}
		for _, met := range f.GetMetric() {
			lbl := map[string]string{}
			for _, lp := range met.GetLabel() {
				if _, dup := lbl[lp.GetName()]; dup {
					return fmt.Sprintf("%s series %s has label %q twice", fam, renderPairs(met.GetLabel()), lp.GetName())
				}
				lbl[lp.GetName()] = lp.GetValue()
			}
			expect := []string{metrics.TestNameLabel, metrics.ResultLabel}
			if fam == famIteration {
				expect = append(expect, metrics.StageLabel)
			}
			for _, n := range expect {
				if _, ok := lbl[n]; !ok {
					return fmt.Sprintf("%s series %s lacks label %q", fam, renderPairs(met.GetLabel()), n)
				}
			}
			for i, k := range static.Keys {
				v, ok := lbl[k]
				if !ok {
					return fmt.Sprintf("%s series %s lacks static label %q (configured %s)", fam, renderPairs(met.GetLabel()), k, static)
				}
				if v != static.Vals[i] {
					return fmt.Sprintf("%s series %s: static label %q carries %q, its configured value is %q (configured, in insertion order: %s)",
						fam, renderPairs(met.GetLabel()), k, v, static.Vals[i], static)
				}
			}
			if len(lbl) != len(expect)+len(static.Keys) {
				return fmt.Sprintf("%s series %s has %d labels, expected exactly %v plus the static labels %s",
					fam, renderPairs(met.GetLabel()), len(lbl), expect, static)
			}
			key := seriesKey{Fam: fam, Test: lbl[metrics.TestNameLabel], Stage: lbl[metrics.StageLabel], Result: lbl[metrics.ResultLabel]}
			if _, dup := got[key]; dup {
				return fmt.Sprintf("two series for %s", key)
			}
			if !names[key.Test] {
				return fmt.Sprintf("series %s (%d samples) carries a scenario name that was not recorded since the last reset (current names %v)",
					key, met.GetSummary().GetSampleCount(), keysOf(names))
			}
			if met.GetSummary() == nil {
				return fmt.Sprintf("series %s is not a summary", key)
			}
			got[key] = met.GetSummary().GetSampleCount()
		}
	}
	all := map[seriesKey]bool{}
	for k := range got {
		all[k] = true
	}
	for k := range want {
		all[k] = true
	}
	ks := make([]seriesKey, 0, len(all))
	for k := range all {
		ks = append(ks, k)
	}
	sort.Slice(ks, func(i, j int) bool { return ks[i].String() < ks[j].String() })
	for _, k := range ks {
		if got[k] != want[k] {
			return fmt.Sprintf("series %s holds %d samples, expected %d", k, got[k], want[k])
		}
	}
	return ""
}

func keysOf(m map[string]bool) []string {
	out := []string{}
	for k := range m {
		out = append(out, k)
	}
	sort.Strings(out)
	return out
}

// ---- engine 1: direct recording against a reference model -----------------------------------

type recOp struct {
	Kind  string // iter | stage | setup
	Name  string
	Res   metrics.ResultType
	Stage string
	N     int
}

type directCase struct {
	Labels  labelSpec
	Enabled bool
	Epochs  [][]recOp // Reset() is called before every epoch but the first
	// Recycle: the caller changes the map it configured the instance with once the instance exists
	// (re-uses it for the next instance): the series keep the values they were configured with
	Recycle bool
}

func (c directCase) key() string {
	return fmt.Sprintf("%s|%v|%v|%v", c.Labels, c.Enabled, c.Epochs, c.Recycle)
}

func (c directCase) nontrivial() bool {
	return c.Labels.orderDiffers() || len(c.Epochs) >= 2
}

var iterResults = []metrics.ResultType{metrics.SuccessResult, metrics.FailedResult, metrics.DroppedResult}

func genDirect(t *rapid.T) directCase {
	c := directCase{Labels: genLabels(t)}
	c.Enabled = rapid.IntRange(0, 4).Draw(t, "iterationMetrics") != 0
	c.Recycle = rapid.IntRange(0, 3).Draw(t, "recycleTheMap") == 0
	nNames := rapid.IntRange(1, 3).Draw(t, "nNames")
	names := []string{}
	for i := 0; i < nNames; i++ {
		names = append(names, genName(t, fmt.Sprintf("name%d", i)))
	}
	nEpochs := rapid.SampledFrom([]int{1, 2, 2, 3}).Draw(t, "epochs")
	for e := 0; e < nEpochs; e++ {
		nOps := rapid.IntRange(0, 6).Draw(t, fmt.Sprintf("ops%d", e))
		ops := []recOp{}
		for i := 0; i < nOps; i++ {
			op := recOp{Name: rapid.SampledFrom(names).Draw(t, "name")}
			op.N = rapid.OneOf(rapid.IntRange(1, 4), rapid.IntRange(1, 40)).Draw(t, "times")
			switch rapid.IntRange(0, 5).Draw(t, "kind") {
			case 0:
				op.Kind = "setup"
				op.Res = metrics.Result(rapid.Bool().Draw(t, "setupFailed"))
			case 1:
				op.Kind = "stage"
				op.Stage = rapid.OneOf(rapid.SampledFrom([]string{metrics.IterationStage, "setup", "teardown", "", "stage_1", "ü"}),
					rapid.StringN(0, 6, -1)).Draw(t, "stage")
				op.Res = rapid.SampledFrom(iterResults).Draw(t, "result")
			default:
				op.Kind = "iter"
				op.Res = rapid.SampledFrom(iterResults).Draw(t, "result")
			}
			ops = append(ops, op)
		}
		c.Epochs = append(c.Epochs, ops)
	}
	return c
}

// runDirect replays the case on a fresh instance and returns "" or the first difference.
func runDirect(c directCase) (msg string) {
	defer func() {
		if r := recover(); r != nil {
			msg = fmt.Sprintf("panic for a valid label map %s: %v", c.Labels, r)
		}
	}()
	configured := c.Labels.build()
	m := metrics.NewInstance(prometheus.NewRegistry(), c.Enabled, configured)
	if c.Recycle && configured != nil {
		i := 0
		for k := range configured {
			if i%2 == 0 {
				configured[k] = "recycled-" + k
			} else {
				delete(configured, k)
			}
			i++
		}
		configured["added_later"] = "x"
	}
	for e, ops := range c.Epochs {
		if e > 0 {
			m.Reset()
		}
		want := map[seriesKey]uint64{}
		names := map[string]bool{}
		for _, op := range ops {
			for i := 0; i < op.N; i++ {
				ns := int64(1000*i + 7)
				switch op.Kind {
				case "setup":
					m.RecordSetupResult(op.Name, op.Res, ns)
				case "stage":
					m.RecordIterationStage(op.Name, op.Stage, op.Res, ns)
				default:
					m.RecordIterationResult(op.Name, op.Res, ns)
				}
			}
			switch {
			case op.Kind == "setup":
				want[seriesKey{famSetup, op.Name, "", op.Res.String()}] += uint64(op.N)
				names[op.Name] = true
			case !c.Enabled:
			case op.Kind == "stage":
				want[seriesKey{famIteration, op.Name, op.Stage, op.Res.String()}] += uint64(op.N)
				names[op.Name] = true
			default:
				want[seriesKey{famIteration, op.Name, metrics.IterationStage, op.Res.String()}] += uint64(op.N)
				names[op.Name] = true
			}
		}
		fams, err := m.Registry.Gather()
		if err != nil {
			return fmt.Sprintf("Gather() failed for static labels %s after epoch %d %v: %v", c.Labels, e, ops, err)
		}
		if d := checkFamilies(fams, want, c.Labels, names); d != "" {
			return fmt.Sprintf("static labels %s, iteration metrics %v, epoch %d (Reset before it: %v) records %v: %s",
				c.Labels, c.Enabled, e, e > 0, ops, d)
		}
	}
	return ""
}

func recordDirect(section string, c directCase) {
	cls := c.Labels.classes()
	if len(c.Epochs) >= 2 {
		cls = append(cls, "reset-between-epochs")
	}
	if !c.Enabled {
		cls = append(cls, "iteration-metrics-off")
	}
	if c.Recycle {
		cls = append(cls, "configured-map-changed-afterwards")
	}
	stage := false
	for _, ops := range c.Epochs {
		for _, op := range ops {
			stage = stage || op.Kind == "stage"
		}
	}
	if stage {
		cls = append(cls, "stage-records")
	}
	stats.Case(section, c.key(), c.nontrivial(), cls, func() any {
		return map[string]any{"labels_in_insertion_order": c.Labels.String(), "iteration_metrics": c.Enabled, "epochs": fmt.Sprint(c.Epochs)}
	})
}

func TestProp_DirectRecording(t *testing.T) {
	rapid.Check(t, func(rt *rapid.T) {
		c := genDirect(rt)
		recordDirect("direct", c)
		if msg := runDirect(c); msg != "" {
			rt.Fatalf("VERIF-VIOLATION C16: %s", msg)
		}
	})
}

// ---- exhaustive small scope: every insertion order of small key sets ------------------------

func permutations(n int, f func([]int)) {
	p := make([]int, n)
	for i := range p {
		p[i] = i
	}
	var rec func(int)
	rec = func(k int) {
		if k == n {
			f(p)
			return
		}
		for i := k; i < n; i++ {
			p[k], p[i] = p[i], p[k]
			rec(k + 1)
			p[k], p[i] = p[i], p[k]
		}
	}
	rec(0)
}

// TestEnum_InsertionOrders builds, for several key sets of 1-5 keys, the map in every possible
// insertion order (each order several times: Go randomises where map iteration starts) and
// records one setup and one sample per iteration result.
func TestEnum_InsertionOrders(t *testing.T) {
	sets := [][]string{
		{"a"},
		{"b", "a"},
		{"a", "B"},
		{"a", "ab", "abc"},
		{"_", "A", "a", "a0"},
		{"env", "team", "region", "id"},
		{"Z", "z", "_z", "z_", "zz"},
		{"job", "instance", "namespace", "le", "tests"},
	}
	n := 0
	for _, set := range sets {
		permutations(len(set), func(p []int) {
			for rep := 0; rep < 6; rep++ {
				l := labelSpec{}
				for _, i := range p {
					l.Keys = append(l.Keys, set[i])
					l.Vals = append(l.Vals, "value-of-"+set[i])
				}
				c := directCase{Labels: l, Enabled: true, Epochs: [][]recOp{{
					{Kind: "setup", Name: "s", Res: metrics.SuccessResult, N: 1},
					{Kind: "iter", Name: "s", Res: metrics.SuccessResult, N: 2},
					{Kind: "iter", Name: "s", Res: metrics.FailedResult, N: 1},
					{Kind: "iter", Name: "s", Res: metrics.DroppedResult, N: 3},
				}}}
				if rep == 0 {
					recordDirect("orders", c)
					n++
				}
				if msg := runDirect(c); msg != "" {
					t.Fatalf("VERIF-VIOLATION C16: %s", msg)
				}
			}
		})
	}
	stats.Note("orders_exhaustive", true)
	stats.Note("orders_cases", int64(n))
}
