package c16

import (
	"fmt"
	"io"
	"net/http"
	"net/http/httptest"
	"strconv"
	"sync"
	"sync/atomic"
	"testing"
	"time"

	dto "github.com/prometheus/client_model/go"
	"github.com/prometheus/common/expfmt"
	"pgregory.net/rapid"

	f1testing "github.com/form3tech-oss/f1/v2/pkg/f1/testing"
	"github.com/form3tech-oss/f1/v2/verifharness/vlib"
)

// Engine "push": "exported" in production means pushed to the gateway (PROMETHEUS_PUSH_GATEWAY). An
// in-process gateway (loopback httptest server) decodes every push it receives; once Run.Do has
// returned, the LAST push that arrived must carry exactly the final result's counts per result label
// and one setup sample. Short runs only see the push after setup and the final one; "long" runs
// (5.15-5.5 s) also see the periodic 5 s push, which the gateway answers after 0.7 s so that it is still in
// flight when the run ends; nothing more may reach the gateway in the 5.9 s after the run.

type pushSeen struct {
	ordinal   int
	iteration map[string]uint64 // result label -> sample count, stage="iteration"
	setup     uint64
}

type gateway struct {
	mu      sync.Mutex
	pushes  []pushSeen
	slowNth int
	delay   time.Duration
}

func (g *gateway) ServeHTTP(w http.ResponseWriter, r *http.Request) {
	seen := pushSeen{iteration: map[string]uint64{}}
	dec := expfmt.NewDecoder(r.Body, expfmt.ResponseFormat(r.Header))
	for {
		var mf dto.MetricFamily
		if err := dec.Decode(&mf); err != nil {
			if err != io.EOF {
				http.Error(w, err.Error(), http.StatusBadRequest)
				return
			}
			break
		}
		for _, m := range mf.GetMetric() {
			n := m.GetSummary().GetSampleCount()
			switch mf.GetName() {
			case "form3_loadtest_setup":
				seen.setup += n
			case "form3_loadtest_iteration":
				stage, result := "", ""
				for _, lp := range m.GetLabel() {
					switch lp.GetName() {
					case "stage":
						stage = lp.GetValue()
					case "result":
						result = lp.GetValue()
					}
				}
				if stage == "iteration" {
					seen.iteration[result] += n
				}
			}
		}
	}
	g.mu.Lock()
	seen.ordinal = len(g.pushes) + 1
	g.pushes = append(g.pushes, seen)
	slow := seen.ordinal == g.slowNth
	g.mu.Unlock()
	if slow {
		time.Sleep(g.delay)
	}
	w.WriteHeader(http.StatusOK)
}

var pushCases atomic.Int64

func TestProp_PushedMetrics(t *testing.T) {
	dir := t.TempDir()
	rapid.Check(t, func(rt *rapid.T) {
		// the first case of shard 0 is always a long one, so that every run of the check has at least one
		shardIdx, _ := vlib.Shard()
		long := rapid.IntRange(0, 9).Draw(rt, "long") == 0
		if shardIdx == 0 && pushCases.Add(1) == 1 {
			long = true
		}
		failEvery := rapid.SampledFrom([]int{0, 2, 3, 7}).Draw(rt, "failEvery")
		conc := rapid.IntRange(1, 4).Draw(rt, "concurrency")
		setupFails := !long && rapid.IntRange(0, 5).Draw(rt, "setupFails") == 0
		g := &gateway{}
		if long {
			g.slowNth, g.delay = 2, 700*time.Millisecond // push #1 follows setup, #2 is the periodic one
		}
		srv := httptest.NewServer(g)
		defer srv.Close()
		scenario := func(st *f1testing.T) f1testing.RunFn {
			if setupFails {
				st.FailNow()
			}
			return func(it *f1testing.T) {
				id, _ := strconv.Atoi(it.Iteration)
				if long {
					time.Sleep(20 * time.Millisecond)
				}
				if failEvery > 0 && id%failEvery == 0 {
					it.Fail()
				}
			}
		}
		spec := &vlib.RunSpec{Mode: "users", FileDir: dir, ScenarioFn: scenario, WaitTimeout: 20 * time.Second, PushGateway: srv.URL}
		spec.Opts.Concurrency = conc
		spec.Opts.IgnoreDropped = true
		if long {
			spec.Opts.MaxDuration = time.Duration(rapid.IntRange(5150, 5500).Draw(rt, "durationMs")) * time.Millisecond
		} else {
			spec.Opts.MaxDuration = 10 * time.Second
			spec.Opts.MaxIterations = uint64(rapid.IntRange(1, 60).Draw(rt, "iterations"))
		}
		out, err := vlib.Execute(spec)
		if err != nil {
			rt.Fatalf("VERIF-INFRA: cannot execute: %v", err)
		}
		snap := out.Result.Snapshot()
		g.mu.Lock()
		pushes := append([]pushSeen{}, g.pushes...)
		g.mu.Unlock()
		if long {
			// the periodic refresh belongs to the run: one refresh interval (5 s) after Do returned the
			// gateway has heard nothing more
			time.Sleep(5900 * time.Millisecond)
			g.mu.Lock()
			later := len(g.pushes) - len(pushes)
			g.mu.Unlock()
			if later > 0 {
				rt.Fatalf("VERIF-VIOLATION C16: %d push(es) reached the gateway in the 5.9 s after Run.Do had returned - metrics of a finished run are still being exported (users c=%d long run of %s)", later, conc, spec.Opts.MaxDuration)
			}
		}
		desc := fmt.Sprintf("users c=%d failEvery=%d long=%v setupFails=%v max-duration=%s max-iterations=%d", conc, failEvery, long, setupFails, spec.Opts.MaxDuration, spec.Opts.MaxIterations)
		cls := []string{}
		if long {
			cls = append(cls, "periodic-push-in-flight-at-the-end")
		}
		if setupFails {
			cls = append(cls, "setup-fails")
		}
		stats.Case("push", desc, len(pushes) >= 2, cls, func() any {
			return map[string]any{"case": desc, "pushes_received": len(pushes)}
		})
		if len(pushes) == 0 {
			rt.Fatalf("VERIF-VIOLATION C16: a push gateway is configured but no push arrived (%s)", desc)
		}
		last := pushes[len(pushes)-1]
		if last.setup != 1 {
			rt.Fatalf("VERIF-VIOLATION C16: the last push (#%d of %d) carries %d setup samples, expected exactly one (%s)", last.ordinal, len(pushes), last.setup, desc)
		}
		if last.iteration["success"] != snap.SuccessfulIterationDurations.Count || last.iteration["fail"] != snap.FailedIterationDurations.Count || last.iteration["dropped"] != snap.DroppedIterationCount {
			rt.Fatalf("VERIF-VIOLATION C16: the run returned with %d successful / %d failed / %d dropped iterations, but the last push the gateway received (#%d of %d) carries success=%d fail=%d dropped=%d (%s)",
				snap.SuccessfulIterationDurations.Count, snap.FailedIterationDurations.Count, snap.DroppedIterationCount, last.ordinal, len(pushes),
				last.iteration["success"], last.iteration["fail"], last.iteration["dropped"], desc)
		}
	})
}
