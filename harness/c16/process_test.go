package c16

import (
	"io"
	"log/slog"
	"net/http"
	"net/http/httptest"
	"os"
	"strconv"
	"sync"
	"testing"

	dto "github.com/prometheus/client_model/go"
	"github.com/prometheus/common/expfmt"

	"github.com/form3tech-oss/f1/v2/pkg/f1"
	f1metrics "github.com/form3tech-oss/f1/v2/pkg/f1/metrics"
	f1testing "github.com/form3tech-oss/f1/v2/pkg/f1/testing"
)

// TestProcess_StaticLabelsAfterEarlyMetricsAccess runs in a process of its own in which nothing has
// initialised the process-wide metrics yet (TestMain leaves them alone for this test): the program
// first looks at f1's metrics through the public accessor - as a main() may do before it executes any
// command - and then runs `f1 run users` with static labels and a push gateway configured. Every series
// the gateway receives carries each configured static label with its own value, and the iteration
// series hold as many samples as iterations ran.
func TestProcess_StaticLabelsAfterEarlyMetricsAccess(t *testing.T) {
	_ = f1metrics.GetMetrics() // may well be nil at this point; looking must not decide anything

	type series struct {
		family string
		labels map[string]string
		count  uint64
	}
	var mu sync.Mutex
	var last []series
	srv := httptest.NewServer(http.HandlerFunc(func(w http.ResponseWriter, r *http.Request) {
		var got []series
		dec := expfmt.NewDecoder(r.Body, expfmt.ResponseFormat(r.Header))
		for {
			var mf dto.MetricFamily
			if err := dec.Decode(&mf); err != nil {
				break
			}
			if n := mf.GetName(); n != famSetup && n != famIteration {
				continue
			}
			for _, m := range mf.GetMetric() {
				s := series{family: mf.GetName(), labels: map[string]string{}, count: m.GetSummary().GetSampleCount()}
				for _, lp := range m.GetLabel() {
					s.labels[lp.GetName()] = lp.GetValue()
				}
				got = append(got, s)
			}
		}
		mu.Lock()
		last = got
		mu.Unlock()
		w.WriteHeader(http.StatusOK)
	}))
	defer srv.Close()
	t.Setenv("PROMETHEUS_PUSH_GATEWAY", srv.URL)

	static := map[string]string{"team": "payments", "env": "staging", "Zone": "eu-1"}
	const n = 23
	app := f1.New().WithLogger(slog.New(slog.NewTextHandler(io.Discard, nil))).WithStaticMetrics(static).
		Add("early", func(*f1testing.T) f1testing.RunFn {
			return func(it *f1testing.T) {
				if id, _ := strconv.Atoi(it.Iteration); id%5 == 0 {
					it.Fail()
				}
			}
		})
	_ = app.ExecuteWithArgs([]string{"run", "users", "early", "-v", "--max-iterations", strconv.Itoa(n), "--concurrency", "3", "--max-duration", "10s", "--max-failures", "100"})
	_ = os.Unsetenv("PROMETHEUS_PUSH_GATEWAY")

	mu.Lock()
	got := append([]series{}, last...)
	mu.Unlock()
	stats.Case("process", "early metrics access, then run users with static labels", true, []string{}, func() any {
		return map[string]any{"series_in_last_push": len(got)}
	})
	if len(got) == 0 {
		t.Fatalf("VERIF-VIOLATION C16: a push gateway is configured but the last push carried no f1 series")
	}
	var iterations uint64
	for _, s := range got {
		for k, v := range static {
			if s.labels[k] != v {
				t.Fatalf("VERIF-VIOLATION C16: series %s%v lacks the configured static label %s=%q (the program looked at the metrics through pkg/f1/metrics.GetMetrics() before it executed its first command)", s.family, s.labels, k, v)
			}
		}
		if s.labels["test"] != "early" {
			t.Fatalf("VERIF-VIOLATION C16: series %s%v does not carry the scenario name", s.family, s.labels)
		}
		if s.family == famIteration && s.labels["stage"] == "iteration" {
			iterations += s.count
		}
	}
	if iterations != n {
		t.Fatalf("VERIF-VIOLATION C16: %d iterations ran, the last push carries %d iteration samples (static labels %v)", n, iterations, static)
	}
}
