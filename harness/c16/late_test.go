package c16

import (
	"fmt"
	"strconv"
	"sync/atomic"
	"testing"
	"time"

	"pgregory.net/rapid"

	f1testing "github.com/form3tech-oss/f1/v2/pkg/f1/testing"
	"github.com/form3tech-oss/f1/v2/verifharness/vlib"
)

// Engine "late-failure": an iteration's handle is marked failed AFTER its body returned, while the
// worker is booking that iteration (the yield point at the entry of the progress accumulator, on the
// worker's own goroutine - what a helper goroutine of the scenario reporting late does, made
// deterministic). Whichever way f1 counts such an iteration, it must count it the same way in the
// final result and in the exported metric: the outcome is read once and booked twice.
func TestProp_LateFailure(t *testing.T) {
	dir := t.TempDir()
	rapid.Check(t, func(rt *rapid.T) {
		n := rapid.IntRange(3, 40).Draw(rt, "iterations")
		plan := rapid.SliceOfN(rapid.SampledFrom([]string{"pass", "pass", "fail", "late-fail", "late-fail"}), n, n).Draw(rt, "plan")
		var cur atomic.Pointer[f1testing.T]
		var curLate atomic.Bool
		late := 0
		for _, p := range plan {
			if p == "late-fail" {
				late++
			}
		}
		remove := vlib.InstallGates(func(point string) {
			if point == "progress.add.begin" && curLate.CompareAndSwap(true, false) {
				if h := cur.Load(); h != nil {
					h.Fail()
				}
			}
		})
		defer remove()
		scenario := func(*f1testing.T) f1testing.RunFn {
			return func(it *f1testing.T) {
				id, _ := strconv.Atoi(it.Iteration)
				switch plan[(id-1)%n] {
				case "fail":
					it.Fail()
				case "late-fail":
					cur.Store(it)
					curLate.Store(true)
				}
			}
		}
		spec := &vlib.RunSpec{Mode: "users", FileDir: dir, ScenarioFn: scenario, WaitTimeout: 20 * time.Second}
		spec.Opts.Concurrency = 1
		spec.Opts.MaxDuration = 10 * time.Second
		spec.Opts.MaxIterations = uint64(n)
		spec.Opts.IgnoreDropped = true
		out, err := vlib.Execute(spec)
		if err != nil {
			rt.Fatalf("VERIF-INFRA: cannot execute: %v", err)
		}
		remove()
		snap := out.Result.Snapshot()
		mc, err := vlib.GatherCounts(out.Metrics)
		if err != nil {
			rt.Fatalf("VERIF-INFRA: gather: %v", err)
		}
		desc := fmt.Sprintf("users c=1 plan=%v", plan)
		stats.Case("late-failure", desc, late > 0, []string{"late-failure"}, func() any {
			return map[string]any{"plan": plan, "result_success": snap.SuccessfulIterationDurations.Count, "result_failed": snap.FailedIterationDurations.Count}
		})
		if mc.Iteration["success"] != snap.SuccessfulIterationDurations.Count || mc.Iteration["fail"] != snap.FailedIterationDurations.Count {
			rt.Fatalf("VERIF-VIOLATION C16: the final result reports %d successful / %d failed iterations, the exported metric holds %d success / %d fail samples (%s; late-fail = the handle is marked failed after the body returned, while the iteration is being booked)",
				snap.SuccessfulIterationDurations.Count, snap.FailedIterationDurations.Count, mc.Iteration["success"], mc.Iteration["fail"], desc)
		}
		if got := snap.SuccessfulIterationDurations.Count + snap.FailedIterationDurations.Count; got != uint64(n) {
			rt.Fatalf("VERIF-VIOLATION C16: %d iterations ran, the final result reports %d (%s)", n, got, desc)
		}
	})
}
