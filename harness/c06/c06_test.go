package c06

import (
	"context"
	"errors"
	"fmt"
	"io"
	"log/slog"
	"os"
	"strconv"
	"strings"
	"sync"
	"sync/atomic"
	"testing"
	"time"

	"pgregory.net/rapid"

	"github.com/form3tech-oss/f1/v2/pkg/f1"
	f1testing "github.com/form3tech-oss/f1/v2/pkg/f1/testing"
	"github.com/form3tech-oss/f1/v2/verifharness/vlib"
)

var stats = vlib.NewStats("C06")

func TestMain(m *testing.M) { vlib.Main(m, stats) }

// behaviours of a cleanup / of the end of setup or of a body
const (
	bOK = iota
	bFail
	bFailNow
	bPanic
	bErrorf // the non-fatal failure APIs: Errorf, Error
	bError
	bFatal  // Fatal: like FailNow
	bNested // (cleanups only) registers a further cleanup while cleanups are running, and is fine otherwise;
	// whether that late one ever runs is not stated anywhere - every cleanup registered in time still runs once
)

var bNames = []string{"ok", "Fail", "FailNow", "panic", "Errorf", "Error", "Fatal", "ok+registers-a-cleanup"}

// failing reports whether behaviour b marks a failure.
func failing(b int) bool { return b != bOK && b != bNested }

type step struct {
	Cleanup bool // register a cleanup with behaviour B; otherwise: call Fail()
	B       int
}

type program struct {
	Steps []step
	End   int // bOK: return, bFail: Fail then return, bFailNow, bPanic
}

func (p program) String() string {
	var b strings.Builder
	for _, s := range p.Steps {
		if s.Cleanup {
			fmt.Fprintf(&b, "cleanup(%s);", bNames[s.B])
		} else {
			b.WriteString("Fail();")
		}
	}
	fmt.Fprintf(&b, "end:%s", bNames[p.End])
	return b.String()
}

func (p program) cleanups() []int {
	var out []int
	for _, s := range p.Steps {
		if s.Cleanup {
			out = append(out, s.B)
		}
	}
	return out
}

func (p program) fails() bool {
	if p.End != bOK {
		return true
	}
	for _, s := range p.Steps {
		if !s.Cleanup {
			return true
		}
	}
	return false
}

type event struct {
	Seq    int
	Kind   string // setup-start setup-end body-start body-end cleanup do-returned
	Owner  string // "setup" or the iteration id
	Index  int    // cleanup registration index
	Handle *f1testing.T
}

func (e event) String() string {
	switch e.Kind {
	case "cleanup":
		return fmt.Sprintf("%d:cleanup(%s#%d)@%p", e.Seq, e.Owner, e.Index, e.Handle)
	case "do-returned":
		return fmt.Sprintf("%d:do-returned", e.Seq)
	}
	return fmt.Sprintf("%d:%s(%s)@%p", e.Seq, e.Kind, e.Owner, e.Handle)
}

type recorder struct {
	mu  sync.Mutex
	log []event
}

func (r *recorder) add(kind, owner string, idx int, h *f1testing.T) {
	r.mu.Lock()
	r.log = append(r.log, event{Seq: len(r.log), Kind: kind, Owner: owner, Index: idx, Handle: h})
	r.mu.Unlock()
}

func (r *recorder) snapshot() []event {
	r.mu.Lock()
	defer r.mu.Unlock()
	return append([]event{}, r.log...)
}

func act(t *f1testing.T, b int) {
	switch b {
	case bFail:
		t.Fail()
	case bFailNow:
		t.FailNow()
	case bPanic:
		panic("planned panic")
	case bErrorf:
		t.Errorf("planned failure %d", b)
	case bError:
		t.Error(errors.New("planned failure"))
	case bFatal:
		t.Fatal(errors.New("planned fatal failure"))
	case bNested:
		t.Cleanup(func() {})
	}
}

// run executes program p on handle t, logging through rec.
func (p program) run(rec *recorder, owner string, t *f1testing.T) {
	idx := 0
	for _, s := range p.Steps {
		if s.Cleanup {
			i, b := idx, s.B
			t.Cleanup(func() {
				rec.add("cleanup", owner, i, t)
				act(t, b)
			})
			idx++
		} else {
			t.Fail()
		}
	}
	act(t, p.End)
}

func genProgram(t *rapid.T, label string, maxSteps int) program {
	var p program
	n := rapid.IntRange(0, maxSteps).Draw(t, label+"Steps")
	for i := 0; i < n; i++ {
		if rapid.IntRange(0, 4).Draw(t, label+"Kind") == 0 {
			p.Steps = append(p.Steps, step{})
		} else {
			p.Steps = append(p.Steps, step{Cleanup: true, B: rapid.SampledFrom([]int{bOK, bOK, bOK, bFail, bFailNow, bPanic, bErrorf, bError, bFatal, bNested}).Draw(t, label+"CleanupB")})
		}
	}
	p.End = rapid.SampledFrom([]int{bOK, bOK, bOK, bOK, bFail, bFailNow, bPanic, bErrorf, bError, bFatal}).Draw(t, label+"End")
	return p
}

type lifecycleCase struct {
	Mode     string
	Conc     int
	Ending   string // limit | duration | cancel | completion-timeout
	Limit    uint64
	Setup    program
	Bodies   []program
	CancelMs int
	DurMs    int
	BodyUs   int
	Second   bool // the judged run is the second run of the same registered scenario in this process
	ViaCLI   bool // through f1.New().Add().ExecuteWithArgs
}

func (c lifecycleCase) desc() string {
	bs := make([]string, len(c.Bodies))
	for i, b := range c.Bodies {
		bs[i] = b.String()
	}
	return fmt.Sprintf("%s c=%d ending=%s limit=%d dur=%dms cancel=%dms body=%dus setup=[%s] bodies=%v", c.Mode, c.Conc, c.Ending, c.Limit, c.DurMs, c.CancelMs, c.BodyUs, c.Setup, bs) + map[bool]string{true: " second-run-of-the-registered-scenario"}[c.Second] + map[bool]string{true: " through-the-cli"}[c.ViaCLI]
}

func TestProp_Lifecycle(t *testing.T) {
	dir := t.TempDir()
	rapid.Check(t, func(rt *rapid.T) {
		c := lifecycleCase{
			Mode:   rapid.SampledFrom([]string{"users", "users", "constant", "file"}).Draw(rt, "mode"),
			Conc:   rapid.IntRange(1, 8).Draw(rt, "concurrency"),
			Ending: rapid.SampledFrom([]string{"limit", "limit", "limit", "duration", "duration", "cancel", "cancel", "completion-timeout", "completion-timeout", "long-run-short-wait", "duration-then-cancel"}).Draw(rt, "ending"),
			BodyUs: rapid.SampledFrom([]int{0, 0, 100, 1000}).Draw(rt, "bodyMicros"),
		}
		if c.Ending == "completion-timeout" && c.Mode != "constant" && vlib.KnownOpen("F11-users-trigger-ignores-completion-timeout") {
			c.Mode = "constant" // users-mode triggers wait for a blocked iteration for ever (open finding)
			stats.AddNote("excluded_known_F11", 1)
		}
		if c.Mode == "file" && rapid.Bool().Draw(rt, "slowBodies") {
			c.BodyUs = 50000 // iterations of the first (150 ms) stage are still running when the second stage starts
		}
		c.Setup = genProgram(rt, "setup", 4)
		if rapid.IntRange(0, 2).Draw(rt, "cleanSetup") != 0 {
			c.Setup.End = bOK // most runs get past setup
			var keep []step
			for _, s := range c.Setup.Steps {
				if s.Cleanup {
					keep = append(keep, s)
				}
			}
			c.Setup.Steps = keep
		}
		nb := rapid.IntRange(1, 8).Draw(rt, "bodyPrograms")
		for i := 0; i < nb; i++ {
			c.Bodies = append(c.Bodies, genProgram(rt, fmt.Sprintf("body%d", i), 5))
		}
		c.DurMs = 8000
		switch c.Ending {
		case "limit":
			c.Limit = uint64(rapid.IntRange(1, 40).Draw(rt, "limit"))
		case "duration":
			c.DurMs = rapid.IntRange(30, 120).Draw(rt, "durationMs")
		case "cancel":
			c.CancelMs = rapid.IntRange(0, 60).Draw(rt, "cancelMs")
		case "completion-timeout":
			c.DurMs = rapid.IntRange(30, 80).Draw(rt, "durationMs")
		case "duration-then-cancel":
			// max-duration elapses with iterations (150 ms) still in flight, then the run is cancelled while
			// it waits for them: the wait goes on (the completion timeout is 20 s), teardown comes last
			c.DurMs = rapid.IntRange(30, 80).Draw(rt, "durationMs")
			c.CancelMs = c.DurMs + rapid.IntRange(15, 70).Draw(rt, "cancelAfterEndMs")
			c.BodyUs = 150000
		case "long-run-short-wait":
			// the run lasts longer than the completion timeout; iterations in flight when triggering stops
			// need a few ms, far less than the timeout, which therefore does not expire
			c.DurMs = rapid.IntRange(1050, 1150).Draw(rt, "durationMs")
			c.BodyUs = 5000
		}

		c.Second = rapid.IntRange(0, 3).Draw(rt, "secondRun") == 0
		judged := &recorder{}
		var recNow atomic.Pointer[recorder] // the recorder of the run in progress
		recNow.Store(judged)
		var warmUp atomic.Bool
		blocked := make(chan struct{}) // completion-timeout: iteration 1 blocks until after Do returned
		var blockedOnce sync.Once
		scenario := func(st *f1testing.T) f1testing.RunFn {
			rec := recNow.Load()
			rec.add("setup-start", "setup", 0, st)
			defer rec.add("setup-end", "setup", 0, st)
			c.Setup.run(rec, "setup", st)
			return func(it *f1testing.T) {
				rec := recNow.Load()
				owner := it.Iteration
				rec.add("body-start", owner, 0, it)
				defer rec.add("body-end", owner, 0, it)
				if c.Ending == "completion-timeout" && owner == "1" && !warmUp.Load() {
					blockedOnce.Do(func() {})
					<-blocked
				}
				if c.BodyUs > 0 {
					time.Sleep(time.Duration(c.BodyUs) * time.Microsecond)
				}
				id, _ := strconv.Atoi(owner)
				c.Bodies[id%len(c.Bodies)].run(rec, owner, it)
			}
		}
		flags := map[string]string{}
		yaml := ""
		switch c.Mode {
		case "constant":
			flags["rate"] = fmt.Sprintf("%d/10ms", rapid.IntRange(1, 2*c.Conc).Draw(rt, "perTick"))
			flags["distribution"] = "none"
		case "file":
			yaml = fmt.Sprintf("scenario: %s\nlimits:\n  max-duration: %dms\n  concurrency: %d\n  max-iterations: %d\n  ignore-dropped: true\nstages:\n"+
				"- duration: 150ms\n  mode: users\n  concurrency: %d\n- duration: 10s\n  mode: constant\n  rate: %d/10ms\n  jitter: 0\n  distribution: none\n",
				vlib.ScenarioName, c.DurMs, c.Conc, c.Limit, c.Conc, c.Conc)
		}
		registry := vlib.NewScenarios(scenario)
		// one case in four (endings by limit or duration) through the public entry point: one F1
		// instance, ExecuteWithArgs once or - second-run class - twice
		c.ViaCLI = (c.Ending == "limit" || c.Ending == "duration") && rapid.IntRange(0, 3).Draw(rt, "viaCLI") == 0
		app := f1.New().WithLogger(slog.New(slog.NewTextHandler(io.Discard, nil))).Add(vlib.ScenarioName, scenario)
		if c.Second && c.ViaCLI {
			warmUp.Store(true)
			recNow.Store(&recorder{})
			_ = app.ExecuteWithArgs([]string{"run", "users", vlib.ScenarioName, "-v", "--max-iterations", "3", "--concurrency", "1", "--max-duration", "5s"})
			warmUp.Store(false)
			recNow.Store(judged)
		} else if c.Second {
			// a first run of the same registered scenario (what a second `run` on one F1 instance sees):
			// three iterations in users mode, recorded apart; the lifecycle of the judged run starts afresh
			warmUp.Store(true)
			recNow.Store(&recorder{})
			warm := &vlib.RunSpec{Mode: "users", FileDir: dir, Scenarios: registry, WaitTimeout: 20 * time.Second}
			warm.Opts.Concurrency = 1
			warm.Opts.MaxDuration = 5 * time.Second
			warm.Opts.MaxIterations = 3
			warm.Opts.IgnoreDropped = true
			if _, err := vlib.Execute(warm); err != nil {
				rt.Fatalf("VERIF-INFRA: cannot execute the first run of %s: %v", c.desc(), err)
			}
			warmUp.Store(false)
			recNow.Store(judged)
		}
		rec := judged
		ctx, cancel := context.WithCancel(context.Background())
		defer cancel()
		if c.Ending == "cancel" || c.Ending == "duration-then-cancel" {
			go func() {
				time.Sleep(time.Duration(c.CancelMs) * time.Millisecond)
				cancel()
			}()
		}
		spec := &vlib.RunSpec{Mode: c.Mode, Flags: flags, FileYAML: yaml, FileDir: dir, Scenarios: registry, Ctx: ctx, WaitTimeout: 20 * time.Second}
		if c.Ending == "completion-timeout" {
			spec.WaitTimeout = time.Duration(rapid.IntRange(30, 120).Draw(rt, "waitMs")) * time.Millisecond
		}
		if c.Ending == "long-run-short-wait" {
			spec.WaitTimeout = time.Second
		}
		spec.Opts.Concurrency = c.Conc
		spec.Opts.MaxDuration = time.Duration(c.DurMs) * time.Millisecond
		spec.Opts.MaxIterations = c.Limit
		spec.Opts.IgnoreDropped = true
		var resFailed bool
		var resErr error
		if c.ViaCLI {
			spec.ScenarioFn = scenario
			args, cfg, err := vlib.CLIArgs(spec)
			if err != nil {
				close(blocked)
				rt.Fatalf("VERIF-INFRA: %v", err)
			}
			resErr = app.ExecuteWithArgs(args) // the command's error: the result's error, or "load test failed"
			if cfg != "" {
				os.Remove(cfg)
			}
			rec.add("do-returned", "", 0, nil)
			resFailed = resErr != nil
		} else {
			out, err := vlib.Execute(spec)
			if err != nil {
				close(blocked)
				rt.Fatalf("VERIF-INFRA: cannot execute %s: %v", c.desc(), err)
			}
			rec.add("do-returned", "", 0, nil)
			resFailed, resErr = out.Result.Failed(), out.Result.Error()
		}
		close(blocked)
		log := rec.snapshot()

		setupFails := c.Setup.fails()
		nontrivial := false
		for _, p := range append([]program{c.Setup}, c.Bodies...) {
			cl := p.cleanups()
			bad := 0
			for _, b := range cl {
				if failing(b) {
					bad++
				}
			}
			if len(cl) >= 2 && bad >= 1 {
				nontrivial = true
			}
		}
		if setupFails || c.Ending != "limit" {
			nontrivial = true
		}
		cls := []string{"mode-" + c.Mode, "ending-" + c.Ending}
		if c.Mode == "file" && c.BodyUs >= 50000 {
			cls = append(cls, "iterations-outlive-their-stage")
		}
		if setupFails {
			cls = append(cls, "setup-fails")
		}
		if c.Second {
			cls = append(cls, "second-run-of-the-registered-scenario")
		}
		if c.ViaCLI {
			cls = append(cls, "through-the-cli")
		}
		stats.Case("programs", c.desc(), nontrivial, cls, func() any {
			return map[string]any{"case": c.desc(), "events": len(log)}
		})
		if msg := judge(c, log, resFailed, resErr); msg != "" {
			vlib.SaveArtefact("c06-history", map[string]any{"case": c.desc(), "log": eventsToStrings(log)})
			rt.Fatalf("VERIF-VIOLATION C06: %s\ncase: %s\nlog tail: %v", msg, c.desc(), tail(eventsToStrings(log), 40))
		}
	})
}

func eventsToStrings(log []event) []string {
	out := make([]string, len(log))
	for i, e := range log {
		out[i] = e.String()
	}
	return out
}

func tail(s []string, n int) []string {
	if len(s) > n {
		return s[len(s)-n:]
	}
	return s
}

// judge checks the totally ordered event log against the lifecycle rules.
func judge(c lifecycleCase, log []event, resFailed bool, resErr error) string {
	timeoutEnding := c.Ending == "completion-timeout"
	doReturned := -1
	setupStarts, setupEnd := 0, -1
	for _, e := range log {
		switch e.Kind {
		case "setup-start":
			setupStarts++
		case "setup-end":
			setupEnd = e.Seq
		case "do-returned":
			doReturned = e.Seq
		}
	}
	if setupStarts != 1 {
		return fmt.Sprintf("setup ran %d times", setupStarts)
	}
	if setupEnd < 0 {
		return "setup never ended"
	}
	setupFails := c.Setup.fails()
	firstBody := -1
	lastIterEvent := -1 // last body/cleanup event of iterations before Do returned
	for _, e := range log {
		if e.Kind == "body-start" {
			if firstBody < 0 {
				firstBody = e.Seq
			}
			if e.Seq < setupEnd {
				return fmt.Sprintf("iteration %s started before setup completed", e.Owner)
			}
		}
		if (e.Kind == "body-start" || e.Kind == "body-end" || (e.Kind == "cleanup" && e.Owner != "setup")) && e.Seq < doReturned {
			lastIterEvent = e.Seq
		}
	}
	if setupFails {
		if firstBody >= 0 {
			return "setup failed or panicked, yet an iteration ran"
		}
		if !resFailed || resErr == nil {
			return fmt.Sprintf("setup failed or panicked but the run is reported Failed()=%v Error()=%v", resFailed, resErr)
		}
	}
	// per handle: body-start(i), body-end(i), cleanups of i in reverse registration order, next body-start
	type hstate struct {
		owner    string
		phase    int // 0 idle, 1 in body, 2 tearing down
		expected []int
	}
	states := map[*f1testing.T]*hstate{}
	startedIDs := map[string]int{}
	for _, e := range log {
		if e.Owner == "setup" || e.Handle == nil {
			continue
		}
		st := states[e.Handle]
		if st == nil {
			st = &hstate{}
			states[e.Handle] = st
		}
		id, _ := strconv.Atoi(e.Owner)
		prog := c.Bodies[id%len(c.Bodies)]
		switch e.Kind {
		case "body-start":
			startedIDs[e.Owner]++
			if st.phase == 1 {
				return fmt.Sprintf("iteration %s started on a worker whose iteration %s had not finished", e.Owner, st.owner)
			}
			if st.phase == 2 && len(st.expected) > 0 {
				return fmt.Sprintf("iteration %s started on a worker before %d cleanup(s) of iteration %s had run", e.Owner, len(st.expected), st.owner)
			}
			st.owner, st.phase, st.expected = e.Owner, 1, nil
		case "body-end":
			if st.phase != 1 || st.owner != e.Owner {
				return fmt.Sprintf("body-end of %s out of place", e.Owner)
			}
			st.phase = 2
			n := len(prog.cleanups())
			// a body that stopped early (FailNow/panic at its end) registered everything before: all steps precede End
			st.expected = nil
			for i := n - 1; i >= 0; i-- {
				st.expected = append(st.expected, i)
			}
		case "cleanup":
			if st.owner != e.Owner {
				return fmt.Sprintf("cleanup #%d of iteration %s ran while its worker was on iteration %s", e.Index, e.Owner, st.owner)
			}
			if st.phase != 2 {
				return fmt.Sprintf("cleanup #%d of iteration %s ran before its body finished", e.Index, e.Owner)
			}
			if len(st.expected) == 0 {
				return fmt.Sprintf("cleanup #%d of iteration %s ran more than once or was never registered", e.Index, e.Owner)
			}
			if st.expected[0] != e.Index {
				return fmt.Sprintf("cleanup #%d of iteration %s ran, expected #%d next (reverse registration order, each exactly once)", e.Index, e.Owner, st.expected[0])
			}
			st.expected = st.expected[1:]
		}
	}
	for id, k := range startedIDs {
		if k != 1 {
			return fmt.Sprintf("iteration %s started %d times", id, k)
		}
	}
	if !timeoutEnding {
		for _, st := range states {
			if st.phase == 1 {
				return fmt.Sprintf("the run returned while iteration %s was still executing although the completion timeout did not expire", st.owner)
			}
			if len(st.expected) > 0 {
				return fmt.Sprintf("%d cleanup(s) of iteration %s never ran", len(st.expected), st.owner)
			}
		}
	}
	// setup cleanups: exactly once, reverse order, after every iteration event, before Do returned
	want := len(c.Setup.cleanups())
	next := want - 1
	for _, e := range log {
		if e.Kind != "cleanup" || e.Owner != "setup" {
			continue
		}
		if e.Index != next {
			return fmt.Sprintf("setup cleanup #%d ran, expected #%d next (reverse registration order, each exactly once)", e.Index, next)
		}
		next--
		if e.Seq > doReturned {
			return fmt.Sprintf("setup cleanup #%d ran after the run returned", e.Index)
		}
		if !timeoutEnding && e.Seq < lastIterEvent {
			return fmt.Sprintf("setup cleanup #%d ran before the last iteration event (seq %d < %d)", e.Index, e.Seq, lastIterEvent)
		}
		if e.Seq < setupEnd {
			return fmt.Sprintf("setup cleanup #%d ran before setup ended", e.Index)
		}
	}
	if next != -1 {
		return fmt.Sprintf("%d of %d setup cleanups never ran before the run returned", next+1, want)
	}
	teardownFails := false
	for _, b := range c.Setup.cleanups() {
		if failing(b) {
			teardownFails = true
		}
	}
	if teardownFails {
		if !resFailed || resErr == nil || !strings.Contains(resErr.Error(), "teardown failed") {
			return fmt.Sprintf("a setup cleanup failed but the run is reported Failed()=%v Error()=%v", resFailed, resErr)
		}
	} else if resErr != nil && strings.Contains(resErr.Error(), "teardown failed") {
		return fmt.Sprintf("no setup cleanup failed but the run reports %v", resErr)
	}
	if !setupFails && resErr != nil && strings.Contains(resErr.Error(), "setup failed") {
		return fmt.Sprintf("setup passed but the run reports %v", resErr)
	}
	return ""
}
