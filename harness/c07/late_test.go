package c07

import (
	"fmt"
	"strconv"
	"sync/atomic"
	"testing"
	"time"

	"pgregory.net/rapid"

	f1testing "github.com/form3tech-oss/f1/v2/pkg/f1/testing"
	"github.com/form3tech-oss/f1/v2/verifharness/vlib"
)

// Engine "late-mark": an iteration's handle is marked failed when that iteration is over and booked
// and the worker is about to pick up its next one (the yield point before the worker takes a job, on
// the worker's own goroutine - what a helper goroutine of the scenario that reports after the body
// returned does, made deterministic). "Later iterations on the same worker start in a clean
// not-failed state and are reported by their own outcome": the next iteration must not inherit it.
func TestProp_LateMarkBetweenIterations(t *testing.T) {
	dir := t.TempDir()
	rapid.Check(t, func(rt *rapid.T) {
		n := rapid.IntRange(3, 24).Draw(rt, "iterations")
		plan := rapid.SliceOfN(rapid.SampledFrom([]string{"pass", "pass", "fail", "mark-late", "mark-late"}), n, n).Draw(rt, "plan")
		var last atomic.Pointer[f1testing.T]
		var pending atomic.Bool
		var startedFailed, invocations atomic.Int64
		remove := vlib.InstallGates(func(point string) {
			if point == "pool.worker.before_take" && pending.CompareAndSwap(true, false) {
				if h := last.Load(); h != nil {
					h.Fail()
				}
			}
		})
		defer remove()
		scenario := func(*f1testing.T) f1testing.RunFn {
			return func(it *f1testing.T) {
				invocations.Add(1)
				if it.Failed() {
					startedFailed.Add(1)
				}
				id, _ := strconv.Atoi(it.Iteration)
				switch plan[(id-1)%n] {
				case "fail":
					it.Fail()
				case "mark-late":
					last.Store(it)
					pending.Store(true)
				}
			}
		}
		spec := &vlib.RunSpec{Mode: "constant", Flags: map[string]string{"rate": "1/2ms", "distribution": "none"}, FileDir: dir, ScenarioFn: scenario, WaitTimeout: 20 * time.Second}
		spec.Opts.Concurrency = 1
		spec.Opts.MaxDuration = 10 * time.Second
		spec.Opts.MaxIterations = uint64(n)
		spec.Opts.IgnoreDropped = true
		out, err := vlib.Execute(spec)
		if err != nil {
			rt.Fatalf("VERIF-INFRA: cannot execute: %v", err)
		}
		remove()
		var wantFail uint64
		lateThenPass := false
		for i, p := range plan {
			if p == "fail" {
				wantFail++
			}
			if p == "mark-late" && i+1 < n && plan[i+1] != "fail" {
				lateThenPass = true
			}
		}
		desc := fmt.Sprintf("constant 1/2ms c=1 plan=%v", plan)
		cls := []string{}
		if lateThenPass {
			cls = append(cls, "late-mark-then-passing-iteration")
		}
		stats.Case("late-mark", desc, lateThenPass, cls, func() any { return map[string]any{"plan": plan} })
		snap := out.Result.Snapshot()
		if got := invocations.Load(); got != int64(n) {
			rt.Fatalf("VERIF-VIOLATION C07: %d of the %d iterations ran (%s)", got, n, desc)
		}
		if k := startedFailed.Load(); k != 0 {
			rt.Fatalf("VERIF-VIOLATION C07: %d iterations started with Failed()==true: a mark left on the handle after the previous iteration was over is carried into the next one (%s)", k, desc)
		}
		if snap.FailedIterationDurations.Count != wantFail || snap.SuccessfulIterationDurations.Count != uint64(n)-wantFail {
			rt.Fatalf("VERIF-VIOLATION C07: %d iterations failed in their bodies, the result reports %d successful / %d failed (mark-late = the handle is marked failed after that iteration was booked, before the next one is taken) (%s)",
				wantFail, snap.SuccessfulIterationDurations.Count, snap.FailedIterationDurations.Count, desc)
		}
	})
}
