package c07

import (
	"errors"
	"fmt"
	"io"
	"log/slog"
	"path/filepath"
	"strconv"
	"sync"
	"sync/atomic"
	"testing"
	"time"

	"github.com/stretchr/testify/assert"
	"pgregory.net/rapid"

	"github.com/form3tech-oss/f1/v2/internal/metrics"
	"github.com/form3tech-oss/f1/v2/internal/ui"
	f1testing "github.com/form3tech-oss/f1/v2/pkg/f1/testing"
	"github.com/form3tech-oss/f1/v2/verifharness/vlib"
)

var stats = vlib.NewStats("C07")

func TestMain(m *testing.M) {
	// T.Time records into the process-wide metrics instance, which the CLI initialises at start-up
	metrics.Init(false)
	vlib.Main(m, stats)
}

type behaviour struct {
	Name           string
	Fails          bool
	NonStringPanic bool
	Do             func(t *f1testing.T)
}

type customPanic struct{ Code int }

// nilRecvError's Error method dereferences its (nil) receiver: formatting the panic value panics.
type nilRecvError struct{ msg string }

func (e *nilRecvError) Error() string { return e.msg }

// greedyError claims to match every target of errors.Is.
type greedyError struct{}

func (greedyError) Error() string { return "greedy" }
func (greedyError) Is(error) bool { return true }

var errSentinel = errors.New("sentinel failure")

var behaviours = []behaviour{
	{Name: "pass", Do: func(t *f1testing.T) {}},
	{Name: "pass-log", Do: func(t *f1testing.T) { t.Log("fine"); t.Logf("%d", 1) }},
	{Name: "pass-assert-ok", Do: func(t *f1testing.T) { assert.True(t, true); t.Require().Equal(1, 1) }},
	{Name: "Fail", Fails: true, Do: func(t *f1testing.T) { t.Fail() }},
	{Name: "FailNow", Fails: true, Do: func(t *f1testing.T) { t.FailNow() }},
	{Name: "Errorf", Fails: true, Do: func(t *f1testing.T) { t.Errorf("bad %d", 1) }},
	{Name: "Error", Fails: true, Do: func(t *f1testing.T) { t.Error(errSentinel) }},
	{Name: "Fatal", Fails: true, Do: func(t *f1testing.T) { t.Fatal(errSentinel) }},
	{Name: "Fatalf", Fails: true, Do: func(t *f1testing.T) { t.Fatalf("fatal %s", "x") }},
	{Name: "Error(nil)", Fails: true, Do: func(t *f1testing.T) { var err error; t.Error(err) }},
	{Name: "Fatal(nil)", Fails: true, Do: func(t *f1testing.T) { var err error; t.Fatal(err); panic("Fatal returned") }},
	{Name: "Errorf(no verbs)", Fails: true, Do: func(t *f1testing.T) { t.Errorf("") }},
	{Name: "assert.True(false)", Fails: true, Do: func(t *f1testing.T) { assert.True(t, false) }},
	{Name: "Require().Equal-fails", Fails: true, Do: func(t *f1testing.T) { t.Require().Equal(1, 2) }},
	{Name: "Fail-then-return", Fails: true, Do: func(t *f1testing.T) { t.Fail(); return }},
	{Name: "panic(error)", Fails: true, NonStringPanic: true, Do: func(t *f1testing.T) { panic(errSentinel) }},
	{Name: "panic(wrapped error)", Fails: true, NonStringPanic: true, Do: func(t *f1testing.T) { panic(fmt.Errorf("wrapped: %w", errSentinel)) }},
	{Name: "panic(error matching every errors.Is target)", Fails: true, NonStringPanic: true, Do: func(t *f1testing.T) { panic(greedyError{}) }},
	{Name: "panic(error whose Error() panics)", Fails: true, NonStringPanic: true, Do: func(t *f1testing.T) { var e *nilRecvError; panic(error(e)) }},
	{Name: "panic(string)", Fails: true, Do: func(t *f1testing.T) { panic("boom") }},
	{Name: "panic(struct)", Fails: true, NonStringPanic: true, Do: func(t *f1testing.T) { panic(customPanic{Code: 7}) }},
	{Name: "panic(int)", Fails: true, NonStringPanic: true, Do: func(t *f1testing.T) { panic(42) }},
	{Name: "panic(nil)", Fails: true, NonStringPanic: true, Do: func(t *f1testing.T) { panic(nil) }},
	{Name: "nil-map-write", Fails: true, NonStringPanic: true, Do: func(t *f1testing.T) { var m map[string]int; m["a"] = 1 }},
	{Name: "index-out-of-range", Fails: true, NonStringPanic: true, Do: func(t *f1testing.T) { s := []int{}; i := len(s) + 3; _ = s[i] }},
	{Name: "nil-dereference", Fails: true, NonStringPanic: true, Do: func(t *f1testing.T) { var p *customPanic; _ = p.Code }},
	{Name: "divide-by-zero", Fails: true, NonStringPanic: true, Do: func(t *f1testing.T) { z := len(t.Scenario) - len(t.Scenario); _ = 1 / z }},
	{Name: "panic(slice)", Fails: true, NonStringPanic: true, Do: func(t *f1testing.T) { panic([]string{"a", "b"}) }},
	{Name: "panic(map)", Fails: true, NonStringPanic: true, Do: func(t *f1testing.T) { panic(map[string]int{"a": 1}) }},
	{Name: "pass-with-panicking-cleanup", Do: func(t *f1testing.T) { t.Cleanup(func() { panic("cleanup panic") }); t.Cleanup(func() {}) }},
	{Name: "pass-with-FailNow-cleanup", Do: func(t *f1testing.T) { t.Cleanup(func() { t.FailNow() }) }},
	{Name: "pass-with-Fail-cleanup", Do: func(t *f1testing.T) { t.Cleanup(func() {}); t.Cleanup(func() { t.Fail() }) }},
	{Name: "Fail-with-panicking-cleanup", Fails: true, Do: func(t *f1testing.T) { t.Cleanup(func() { panic(errSentinel) }); t.Fail() }},
	{Name: "pass-inside-Time", Do: func(t *f1testing.T) { t.Time("stage", func() {}) }},
	{Name: "panic-inside-Time", Fails: true, Do: func(t *f1testing.T) { t.Time("stage", func() { panic("timed stage panic") }) }},
	{Name: "runtime-error-inside-Time", Fails: true, NonStringPanic: true, Do: func(t *f1testing.T) { t.Time("stage", func() { var m map[int]int; m[1] = 1 }) }},
	{Name: "FailNow-inside-Time", Fails: true, Do: func(t *f1testing.T) { t.Time("stage", func() { t.FailNow() }) }},
	{Name: "cleanup-then-FailNow", Fails: true, Do: func(t *f1testing.T) { t.Cleanup(func() {}); t.FailNow() }},
	{Name: "pass-with-cleanup", Do: func(t *f1testing.T) { t.Cleanup(func() {}) }},
}

func TestProp_ContainedAndClassified(t *testing.T) {
	dir := t.TempDir()
	rapid.Check(t, func(rt *rapid.T) {
		mode := rapid.SampledFrom([]string{"users", "users", "constant", "file"}).Draw(rt, "mode")
		conc := rapid.IntRange(1, 8).Draw(rt, "concurrency")
		n := rapid.IntRange(5, 200).Draw(rt, "iterations")
		// plan: iteration id -> behaviour index (cycled list); biased so that passes follow failures
		plan := rapid.SliceOfN(rapid.OneOf(rapid.IntRange(0, 2), rapid.IntRange(0, len(behaviours)-1)), 1, 12).Draw(rt, "plan")
		planOf := func(id uint64) behaviour { return behaviours[plan[int(id)%len(plan)]] }

		var mu sync.Mutex
		var problems []string
		seen := map[uint64]int{}
		lastOnHandle := map[*f1testing.T]behaviour{}
		failThenPassSameHandle := 0
		var invocations atomic.Uint64
		helper := rapid.IntRange(0, 5).Draw(rt, "inHelperGoroutine") == 0
		// rarely, one iteration marks the SETUP handle failed (the usual shadowing slip: `t` of the
		// enclosing function instead of the iteration's): every iteration is still reported by its own outcome
		failSetupAt := uint64(0)
		if rapid.IntRange(0, 5).Draw(rt, "failSetupHandle") == 0 {
			failSetupAt = uint64(rapid.IntRange(1, 3).Draw(rt, "failSetupHandleAt"))
		}
		scenario := func(st *f1testing.T) f1testing.RunFn {
			return func(it *f1testing.T) {
				invocations.Add(1)
				id, _ := strconv.ParseUint(it.Iteration, 10, 64)
				if id == failSetupAt {
					st.Errorf("planned failure on the setup handle from iteration %d", id)
				}
				b := planOf(id)
				mu.Lock()
				seen[id]++
				if it.Failed() && len(problems) < 5 {
					problems = append(problems, fmt.Sprintf("iteration %d starts with Failed()==true (previous behaviour on this handle: %s)", id, lastOnHandle[it].Name))
				}
				if prev, ok := lastOnHandle[it]; ok && prev.Fails && !b.Fails {
					failThenPassSameHandle++
				}
				lastOnHandle[it] = b
				mu.Unlock()
				if mode == "file" && id%2 == 1 {
					// iterations of the first config-file stage are still running when the second stage starts
					time.Sleep(45 * time.Millisecond)
				}
				if helper {
					// the behaviour runs in a goroutine of the scenario's own, guarded by the exported
					// CheckResults the way f1 guards bodies itself; the body waits for it
					done := make(chan struct{}, 1)
					go func() {
						defer f1testing.CheckResults(it, done)
						b.Do(it)
					}()
					<-done
					return
				}
				b.Do(it)
			}
		}
		flags := map[string]string{}
		if mode == "constant" {
			flags["rate"] = fmt.Sprintf("%d/5ms", rapid.IntRange(1, 4*conc).Draw(rt, "perTick"))
			flags["distribution"] = "none"
		}
		yaml := ""
		if mode == "file" {
			if n > 60 {
				n = 60
			}
			yaml = fmt.Sprintf("scenario: %s\nlimits:\n  max-duration: 10s\n  concurrency: %d\n  max-iterations: %d\n  ignore-dropped: true\nstages:\n"+
				"- duration: 100ms\n  mode: users\n  concurrency: %d\n- duration: 100ms\n  mode: constant\n  rate: %d/10ms\n  jitter: 0\n  distribution: none\n- duration: 10s\n  mode: users\n  concurrency: %d\n",
				vlib.ScenarioName, conc, n, conc, conc, conc)
		}
		spec := &vlib.RunSpec{Mode: mode, Flags: flags, FileYAML: yaml, FileDir: dir, ScenarioFn: scenario, WaitTimeout: 20 * time.Second}
		// where the iterations' log lines (the failure and panic reports) go: the run's output (verbose),
		// a log file, or - when LOG_FILE_PATH cannot be opened - back to the run's output
		logTo := rapid.SampledFrom([]string{"output", "output", "output", "file", "unopenable-file", "silent-logger"}).Draw(rt, "logTo")
		switch logTo {
		case "silent-logger":
			// a caller-supplied logger (f1.WithLogger) that emits nothing, not even errors: how much is
			// logged has no bearing on what counts as a failure
			silent := slog.New(slog.NewTextHandler(io.Discard, &slog.HandlerOptions{Level: slog.Level(100)}))
			spec.Output = ui.NewOutput(silent, ui.NewDiscardPrinter(), false, false)
		case "file":
			spec.LogFilePath = filepath.Join(dir, "scenario.log")
		case "unopenable-file":
			spec.LogFilePath = dir // a directory
		}
		spec.Opts.Concurrency = conc
		spec.Opts.MaxDuration = 10 * time.Second
		spec.Opts.MaxIterations = uint64(n)
		spec.Opts.IgnoreDropped = true
		out, err := vlib.Execute(spec)
		if err != nil {
			rt.Fatalf("VERIF-INFRA: cannot execute: %v", err)
		}
		names := make([]string, len(plan))
		nonString := false
		for i, p := range plan {
			names[i] = behaviours[p].Name
			nonString = nonString || behaviours[p].NonStringPanic
		}
		desc := fmt.Sprintf("%s c=%d N=%d plan=%v flags=%v log-to=%s helper-goroutine=%v fail-setup-handle-at=%d", mode, conc, n, names, flags, logTo, helper, failSetupAt)

		var wantPass, wantFail uint64
		mu.Lock()
		for id, k := range seen {
			if k != 1 {
				problems = append(problems, fmt.Sprintf("iteration id %d ran %d times", id, k))
			}
			if planOf(id).Fails {
				wantFail++
			} else {
				wantPass++
			}
		}
		ftp := failThenPassSameHandle
		probs := append([]string{}, problems...)
		mu.Unlock()

		nontrivial := ftp > 0 && nonString
		cls := []string{"mode-" + mode, "log-to-" + logTo}
		if helper {
			cls = append(cls, "behaviours-in-a-helper-goroutine-under-CheckResults")
		}
		if failSetupAt != 0 {
			cls = append(cls, "setup-handle-failed-from-an-iteration")
		}
		if ftp > 0 {
			cls = append(cls, "fail-then-pass-on-same-handle")
		}
		if nonString {
			cls = append(cls, "non-string-panic")
		}
		stats.Case("runs", desc, nontrivial, cls, func() any {
			return map[string]any{"case": desc, "planned_pass": wantPass, "planned_fail": wantFail, "fail_then_pass_same_handle": ftp}
		})
		if len(probs) > 0 {
			rt.Fatalf("VERIF-VIOLATION C07: %v (%s)", probs, desc)
		}
		if got := invocations.Load(); got != uint64(n) {
			rt.Fatalf("VERIF-VIOLATION C07: %d of the %d iterations ran - a failure or panic stopped a worker or the run (%s)", got, n, desc)
		}
		snap := out.Result.Snapshot()
		if snap.SuccessfulIterationDurations.Count != wantPass || snap.FailedIterationDurations.Count != wantFail {
			rt.Fatalf("VERIF-VIOLATION C07: planned %d passing / %d failing iterations, result reports %d successful / %d failed (%s)",
				wantPass, wantFail, snap.SuccessfulIterationDurations.Count, snap.FailedIterationDurations.Count, desc)
		}
		mc, err := vlib.GatherCounts(out.Metrics)
		if err != nil {
			rt.Fatalf("VERIF-INFRA: gather: %v", err)
		}
		if mc.Iteration["success"] != wantPass || mc.Iteration["fail"] != wantFail {
			rt.Fatalf("VERIF-VIOLATION C07: planned %d/%d, metrics carry success=%d fail=%d (%s)", wantPass, wantFail, mc.Iteration["success"], mc.Iteration["fail"], desc)
		}
		// the run's verdict follows: any failed iteration fails a run without tolerances
		if (wantFail > 0) != out.Result.Failed() {
			rt.Fatalf("VERIF-VIOLATION C07: %d failed iterations, run Failed()=%v (%s)", wantFail, out.Result.Failed(), desc)
		}
	})
}

// TestEnum_EveryBehaviourThenPass runs, for each behaviour, the sequence [behaviour, pass] on one
// worker: the finite behaviour alphabet enumerated completely.
func TestEnum_EveryBehaviourThenPass(t *testing.T) {
	dir := t.TempDir()
	for bi, b := range behaviours {
		var entryFailed atomic.Int64
		var runs atomic.Int64
		scenario := func(*f1testing.T) f1testing.RunFn {
			return func(it *f1testing.T) {
				runs.Add(1)
				if it.Failed() {
					entryFailed.Add(1)
				}
				if it.Iteration == "1" || it.Iteration == "3" {
					b.Do(it)
				}
			}
		}
		spec := &vlib.RunSpec{Mode: "users", FileDir: dir, ScenarioFn: scenario, WaitTimeout: 20 * time.Second}
		spec.Opts.Concurrency = 1
		spec.Opts.MaxDuration = 10 * time.Second
		spec.Opts.MaxIterations = 4
		out, err := vlib.Execute(spec)
		if err != nil {
			t.Fatalf("VERIF-INFRA: %v", err)
		}
		snap := out.Result.Snapshot()
		wantFail := uint64(0)
		if b.Fails {
			wantFail = 2
		}
		stats.Case("alphabet", b.Name, b.Fails, []string{}, func() any { return map[string]any{"behaviour": b.Name, "index": bi} })
		if runs.Load() != 4 || entryFailed.Load() != 0 || snap.FailedIterationDurations.Count != wantFail || snap.SuccessfulIterationDurations.Count != 4-wantFail {
			t.Fatalf("VERIF-VIOLATION C07: sequence [%s, pass, %s, pass] on one worker: %d iterations ran, %d started in failed state, result %d successful / %d failed (expected %d / %d)",
				b.Name, b.Name, runs.Load(), entryFailed.Load(), snap.SuccessfulIterationDurations.Count, snap.FailedIterationDurations.Count, 4-wantFail, wantFail)
		}
	}
	stats.Note("alphabet_exhaustive", true)
}
