package c05

import (
	"fmt"
	"sync"
	"sync/atomic"
	"testing"
	"time"

	"pgregory.net/rapid"

	"github.com/form3tech-oss/f1/v2/internal/metrics"
	"github.com/form3tech-oss/f1/v2/internal/options"
	"github.com/form3tech-oss/f1/v2/internal/progress"
	"github.com/form3tech-oss/f1/v2/internal/run"
	"github.com/form3tech-oss/f1/v2/internal/run/views"
)

var vw = views.New()

// While a run is live, Run.Do lets these Result methods overlap: the progress reporter calls
// SnapshotProgress / Progress / HasDroppedIterations on its own goroutine while the main goroutine
// calls RecordStarted, MaxDurationElapsed / Interrupted / MaxIterationsReached and (deferred)
// RecordTestFinished. Whatever their interleaving, none of them may block for ever - the run has
// to return. The engine replays exactly that set of calls concurrently and watches for a stall.
// (Summary, Failed, Setup and Teardown are only called once the reporter has been stopped, so they
// are deliberately not part of this set.)
func TestProp_ResultCallsNeverStall(t *testing.T) {
	rapid.Check(t, func(rt *rapid.T) {
		reporters := rapid.IntRange(1, 2).Draw(rt, "reporters")
		mains := rapid.IntRange(1, 3).Draw(rt, "mainCallers")
		rounds := rapid.SampledFrom([]int{20000, 100000, 300000}).Draw(rt, "rounds")
		st := &progress.Stats{}
		st.Record(metrics.SuccessResult, 5)
		st.Record(metrics.DroppedResult, 0)
		res := run.NewResult(options.RunOptions{Scenario: "s", MaxDuration: time.Second, Concurrency: 1}, vw, st)
		res.RecordStarted()
		var calls atomic.Int64
		var wg sync.WaitGroup
		for i := 0; i < reporters; i++ {
			wg.Add(1)
			go func() {
				defer wg.Done()
				for n := 0; n < rounds; n++ {
					res.SnapshotProgress(time.Second)
					_ = res.Progress()
					_ = res.HasDroppedIterations()
					calls.Add(3)
				}
			}()
		}
		for i := 0; i < mains; i++ {
			wg.Add(1)
			go func(i int) {
				defer wg.Done()
				for n := 0; n < rounds; n++ {
					switch (n + i) % 5 {
					case 0:
						_ = res.MaxDurationElapsed()
					case 1:
						_ = res.Interrupted()
					case 2:
						_ = res.MaxIterationsReached()
					case 3:
						res.RecordTestFinished()
					case 4:
						res.RecordStarted()
					}
					_ = res.Snapshot()
					calls.Add(2)
				}
			}(i)
		}
		done := make(chan struct{})
		go func() { wg.Wait(); close(done) }()
		last, stalledFor := int64(-1), time.Duration(0)
		stalled := false
	watch:
		for {
			select {
			case <-done:
				break watch
			case <-time.After(500 * time.Millisecond):
				if cur := calls.Load(); cur == last {
					stalledFor += 500 * time.Millisecond
					if stalledFor >= 10*time.Second {
						stalled = true
						break watch
					}
				} else {
					last, stalledFor = cur, 0
				}
			}
		}
		stats.Case("result-calls", fmt.Sprint(reporters, mains, rounds), true, []string{}, func() any {
			return map[string]any{"reporter_goroutines": reporters, "main_goroutines": mains, "rounds_each": rounds, "calls": calls.Load()}
		})
		if stalled {
			rt.Fatalf("VERIF-VIOLATION C05: the Result calls that overlap during a live run (progress reporter: SnapshotProgress/Progress/HasDroppedIterations; runner: RecordStarted/MaxDurationElapsed/Interrupted/MaxIterationsReached/RecordTestFinished) made no progress for 10 s after %d calls - a run hitting this interleaving never returns",
				calls.Load())
		}
	})
}
