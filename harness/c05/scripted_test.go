package c05

import (
	"context"
	"fmt"
	"io"
	"log/slog"
	"testing"
	"time"

	"pgregory.net/rapid"

	"github.com/form3tech-oss/f1/v2/internal/ui"
	f1testing "github.com/form3tech-oss/f1/v2/pkg/f1/testing"
	"github.com/form3tech-oss/f1/v2/verifharness/vlib"
)

// runLateTick scripts the interleaving "a progress tick becomes due just before the run stops and
// is dispatched while the final summary/teardown view holds the result's read lock":
//   - the first progress dispatch (due at 1 s) is parked at raterun.before_dispatch;
//   - the run stops (max-duration a few ms later); if stopping the progress runner does not wait
//     for the parked dispatch, the main goroutine goes on to the teardown view and is parked at
//     result.nested_read while holding the read lock; the harness then lets the dispatch through
//     (it requests the write lock) and, 30 ms later, the main goroutine (it requests the read lock
//     again, behind the waiting writer).
//
// On a tree where Stop waits for the runner the parked dispatch merely delays Stop by the gate's
// timeout and nothing else happens.
func runLateTick(mode string, conc int, durMs int, dir string, byCancel bool) (returned bool, elapsed time.Duration, bothGates bool, writesAfter int64, err error) {
	ga := vlib.NewGate("raterun.before_dispatch", 1, 400*time.Millisecond)
	gb := vlib.NewGate("result.nested_read", 1, 3*time.Second)
	remove := vlib.InstallGates(nil, ga, gb)
	defer remove()
	orchestratorDone := make(chan struct{})
	go func() {
		defer close(orchestratorDone)
		select {
		case <-gb.Arrived():
		case <-time.After(time.Duration(durMs)*time.Millisecond + 5*time.Second):
			return
		}
		ga.Open()
		time.Sleep(30 * time.Millisecond)
		gb.Open()
	}()
	flags := map[string]string{}
	if mode == "constant" {
		flags["rate"] = "2/50ms"
		flags["distribution"] = "none"
	}
	spec := &vlib.RunSpec{Mode: mode, Flags: flags, FileDir: dir, WaitTimeout: 10 * time.Second,
		ScenarioFn: func(*f1testing.T) f1testing.RunFn {
			return func(*f1testing.T) { time.Sleep(200 * time.Microsecond) }
		}}
	spec.Opts.Concurrency = conc
	spec.Opts.MaxDuration = time.Duration(durMs) * time.Millisecond
	spec.Opts.IgnoreDropped = true
	out := &sink{}
	spec.Output = ui.NewOutput(slog.New(slog.NewTextHandler(out, nil)), ui.NewPrinter(io.Discard, io.Discard), false, false)
	if byCancel {
		// the run is ended by cancellation at the same instant instead of by max-duration
		ctx, cancel := context.WithCancel(context.Background())
		defer cancel()
		spec.Ctx = ctx
		spec.Opts.MaxDuration = 10 * time.Second
		go func() {
			time.Sleep(time.Duration(durMs) * time.Millisecond)
			cancel()
		}()
	}
	done := make(chan error, 1)
	start := time.Now()
	go func() {
		_, e := vlib.Execute(spec)
		done <- e
	}()
	select {
	case e := <-done:
		returned, err = true, e
	case <-time.After(time.Duration(durMs)*time.Millisecond + returnDeadline):
	}
	elapsed = time.Since(start)
	select {
	case <-ga.Arrived():
		select {
		case <-gb.Arrived():
			bothGates = true
		default:
		}
	default:
	}
	if returned {
		// nothing of the run may report progress once Do has returned
		at := out.writes.Load()
		ga.Open()
		time.Sleep(150 * time.Millisecond)
		writesAfter = out.writes.Load() - at
		gb.Open()
		<-orchestratorDone
	}
	return returned, elapsed, bothGates, writesAfter, err
}

func TestProp_ScriptedLateProgressTick(t *testing.T) {
	dir := t.TempDir()
	rapid.Check(t, func(rt *rapid.T) {
		mode := rapid.SampledFrom([]string{"users", "constant"}).Draw(rt, "mode")
		conc := rapid.IntRange(1, 4).Draw(rt, "concurrency")
		durMs := rapid.IntRange(1030, 1150).Draw(rt, "durationMs")
		byCancel := rapid.Bool().Draw(rt, "endedByCancel")
		returned, elapsed, both, writesAfter, err := runLateTick(mode, conc, durMs, dir, byCancel)
		if err != nil {
			rt.Fatalf("VERIF-INFRA: %v", err)
		}
		cls := []string{}
		if both {
			cls = append(cls, "both-gates-reached")
		}
		if byCancel {
			cls = append(cls, "ended-by-cancel")
		}
		stats.Case("scripted-late-tick", fmt.Sprint(mode, conc, durMs, byCancel), both || byCancel, cls, func() any {
			return map[string]any{"script": "progress tick parked before dispatch while the run stops", "mode": mode, "concurrency": conc, "max_duration_ms": durMs, "elapsed_ms": elapsed.Milliseconds()}
		})
		if returned && writesAfter != 0 {
			rt.Fatalf("VERIF-VIOLATION C05: %s c=%d run ended after %dms (by cancel: %v) while a progress tick was about to be dispatched: %d writes to the run's output after Do had returned",
				mode, conc, durMs, byCancel, writesAfter)
		}
		if !returned {
			rt.Fatalf("VERIF-VIOLATION C05: %s c=%d max-duration=%dms: a progress tick due just before the stop was dispatched while the final views held the result's read lock; Do had not returned after %s",
				mode, conc, durMs, elapsed.Round(time.Millisecond))
		}
	})
}

func TestRegress(t *testing.T) {
	returned, elapsed, _, _, err := runLateTick("users", 2, 1050, t.TempDir(), false)
	if err != nil {
		t.Fatalf("VERIF-INFRA: %v", err)
	}
	if !returned {
		t.Fatalf("VERIF-VIOLATION C05: users c=2 max-duration=1050ms with a late progress tick: Do had not returned after %s", elapsed)
	}
}
