package c05

import (
	"context"
	"fmt"
	"io"
	"log/slog"
	"strconv"
	"strings"
	"sync"
	"sync/atomic"
	"testing"
	"time"

	"go.uber.org/goleak"
	"pgregory.net/rapid"

	"github.com/form3tech-oss/f1/v2/internal/ui"
	f1testing "github.com/form3tech-oss/f1/v2/pkg/f1/testing"
	"github.com/form3tech-oss/f1/v2/verifharness/vlib"
)

var stats = vlib.NewStats("C05")

func TestMain(m *testing.M) { vlib.Main(m, stats) }

// returnDeadline: how long after the scheduled stop (+ completion timeout) Do may take to
// return before the harness calls it "does not terminate".
const returnDeadline = 20 * time.Second

// lateMargin: no iteration may START later than scheduled stop + lateMargin. Cases are built so
// that a wrong choice among the stop conditions overshoots by >= 5 s.
const lateMargin = 2 * time.Second

// sink counts writes of the run's output (progress lines, summaries, logs).
type sink struct {
	writes atomic.Int64
}

func (s *sink) Write(p []byte) (int, error) {
	s.writes.Add(1)
	return len(p), nil
}

type termCase struct {
	Shape         vlib.Shape
	Ending        string // max-duration | own-duration | limit | cancel-before | cancel-during-setup | cancel-mid-run | setup-fail | setup-panic
	Blocking      string // instant | sleep | blocked
	SleepUs       int
	Blocked       int // number of iterations that block until after Do returned
	WaitMs        int // completion timeout
	CancelMs      int
	TickCoinc     bool // the run ends within a few ms of the 1 s progress tick
	SetupFailsToo bool // cancel-during-setup: the setup also fails (after the cancellation)
	StragglerMs   int  // iteration 1 takes this long (0 = like the others)
	ViaCLI        bool // through f1.New().Add().ExecuteWithArgs (completion timeout is then the CLI's 10 s)
}

func (c termCase) desc() string {
	return fmt.Sprintf("%s ending=%s blocking=%s sleep=%dus blocked=%d wait=%dms cancel=%dms tickCoincident=%v viaCLI=%v",
		c.Shape.Desc, c.Ending, c.Blocking, c.SleepUs, c.Blocked, c.WaitMs, c.CancelMs, c.TickCoinc, c.ViaCLI) + fmt.Sprintf(" straggler=%dms setupFailsToo=%v", c.StragglerMs, c.SetupFailsToo)
}

func genCase(t *rapid.T) termCase {
	var c termCase
	c.Ending = rapid.SampledFrom([]string{"max-duration", "max-duration", "own-duration", "own-duration", "limit", "cancel-before", "cancel-during-setup", "cancel-mid-run", "cancel-mid-run", "setup-fail", "setup-panic", "max-duration-then-cancel"}).Draw(t, "ending")
	c.Blocking = rapid.SampledFrom([]string{"instant", "sleep", "sleep", "blocked"}).Draw(t, "blocking")
	if c.Ending == "own-duration" && rapid.Bool().Draw(t, "blockedAtOwnEnd") {
		// iterations still blocked when the trigger's own schedule ends: the completion timeout, not
		// max-duration, bounds the wait
		c.Blocking = "blocked"
	}
	opts := vlib.ShapeOpts{MaxConcurrency: 16, MaxPerTick: 20}
	switch c.Ending {
	case "max-duration-then-cancel":
		// max-duration elapses with iterations (150 ms) in flight; the caller cancels while Do waits for them
		opts.StageMs = [2]int{6000, 9000}
		opts.MinDur, opts.MaxDur = 50*time.Millisecond, 200*time.Millisecond
	case "max-duration":
		// the trigger's own duration (staged, file) is far beyond max-duration
		opts.StageMs = [2]int{6000, 9000}
		opts.MinDur, opts.MaxDur = 50*time.Millisecond, 350*time.Millisecond
		if rapid.IntRange(0, 4).Draw(t, "tickCoincident") == 0 {
			c.TickCoinc = true
			opts.MinDur, opts.MaxDur = 1004*time.Millisecond, 1016*time.Millisecond
		}
	case "own-duration":
		opts.Modes = []string{"staged", "file"}
		opts.MinDur, opts.MaxDur = 7*time.Second, 9*time.Second // max-duration far beyond the trigger's own duration
	case "limit":
		opts.Limit = "always"
		opts.MaxLimit = 40
		opts.Modes = []string{"constant", "users", "file"} // profiles that keep requesting, so the limit is what ends the run
		opts.StageMs = [2]int{6000, 9000}
		opts.MinDur, opts.MaxDur = 7*time.Second, 9*time.Second
	default:
		opts.StageMs = [2]int{6000, 9000}
		opts.MinDur, opts.MaxDur = 7*time.Second, 9*time.Second
	}
	c.Shape = vlib.GenShape(t, opts)
	c.SleepUs = rapid.SampledFrom([]int{100, 1000, 5000, 20000}).Draw(t, "sleepMicros")
	if c.Ending == "own-duration" && rapid.IntRange(0, 2).Draw(t, "usersThenRate") == 0 {
		// a config file whose users stage is followed by a rate stage: the worker count drops to zero
		// between the stages and rises again; the run must still wait for the last stage's iterations
		sh := &c.Shape
		sh.Mode = "file"
		d1, d2 := rapid.IntRange(100, 200).Draw(t, "usersStageMs"), rapid.IntRange(100, 250).Draw(t, "rateStageMs")
		sh.FileYAML = fmt.Sprintf("scenario: %s\nlimits:\n  max-duration: %s\n  concurrency: %d\n  max-iterations: 0\n  ignore-dropped: true\nstages:\n"+
			"- duration: %dms\n  mode: users\n  concurrency: %d\n- duration: %dms\n  mode: constant\n  rate: %d/10ms\n  jitter: 0\n  distribution: none\n",
			vlib.ScenarioName, sh.MaxDuration, sh.Concurrency, d1, sh.Concurrency, d2, sh.Concurrency)
		sh.OwnDuration = time.Duration(d1+d2) * time.Millisecond
		sh.MaxIterations = 0
		sh.Desc = "file c=" + fmt.Sprint(sh.Concurrency) + " users-then-rate yaml=" + strings.ReplaceAll(sh.FileYAML, "\n", "|")
		c.Blocking = "sleep"
		c.SleepUs = 20000
		if rapid.Bool().Draw(t, "stragglerFromFirstStage") {
			// iteration 1, started in the first stage, is still running 200 ms after the LAST stage has ended:
			// the run waits for it like for any other started iteration
			c.StragglerMs = d1 + d2 + 200
			c.SleepUs = 5000
		}
	}
	c.WaitMs = 20000
	if c.Blocking == "blocked" {
		c.Blocked = rapid.IntRange(1, c.Shape.Concurrency).Draw(t, "blocked")
		c.WaitMs = rapid.IntRange(50, 300).Draw(t, "waitMs")
	}
	if c.Ending == "cancel-mid-run" {
		c.CancelMs = rapid.IntRange(1, 150).Draw(t, "cancelMs")
	}
	if c.Ending == "cancel-during-setup" {
		c.SetupFailsToo = rapid.Bool().Draw(t, "setupFailsToo")
	}
	if c.Ending == "max-duration-then-cancel" {
		c.Blocking, c.SleepUs, c.Blocked, c.WaitMs = "sleep", 150000, 0, 20000
		c.CancelMs = int(c.Shape.MaxDuration.Milliseconds()) + rapid.IntRange(10, 80).Draw(t, "cancelAfterEndMs")
		if rapid.IntRange(0, 2).Draw(t, "blockedThroughTheWait") == 0 && !(c.Shape.Mode == "users" || c.Shape.Mode == "file") {
			// an iteration blocked for good: the completion timeout (5 s) is counted once, from the moment
			// triggering stopped - a cancellation arriving late in that wait does not start it again
			c.Blocking, c.Blocked, c.WaitMs = "blocked", 1, 5000
			c.CancelMs = int(c.Shape.MaxDuration.Milliseconds()) + rapid.IntRange(3500, 4700).Draw(t, "cancelLateInTheWaitMs")
		}
	}
	switch c.Ending {
	case "max-duration", "own-duration", "limit", "setup-fail", "setup-panic":
		// through the public entry point: the CLI's own mapping of the flags / the file's limits
		c.ViaCLI = c.Blocking != "blocked" && rapid.IntRange(0, 3).Draw(t, "viaCLI") == 0
	}
	return c
}

type observation struct {
	returned     bool
	elapsed      time.Duration
	inFlightAtRt int64
	entriesAfter int64
	writesAfter  int64
	lateEntry    time.Duration // latest body entry relative to the start of Do
	lastExit     time.Duration // latest body exit relative to the start of Do
	leak         error
	resFailed    bool
	entries      int64
}

func execute(c termCase, dir string) (observation, error) {
	var obs observation
	var inFlight, entries atomic.Int64
	var latest, lastExit atomic.Int64
	release := make(chan struct{})
	var releaseOnce sync.Once
	defer releaseOnce.Do(func() { close(release) })
	out := &sink{}
	logger := slog.New(slog.NewTextHandler(out, nil))
	output := ui.NewOutput(logger, ui.NewPrinter(io.Discard, io.Discard), false, false)

	var start time.Time
	ctx, cancel := context.WithCancel(context.Background())
	defer cancel()
	setupEntered := make(chan struct{})
	scenario := func(st *f1testing.T) f1testing.RunFn {
		close(setupEntered)
		switch c.Ending {
		case "cancel-during-setup":
			time.Sleep(30 * time.Millisecond)
			if c.SetupFailsToo {
				st.FailNow() // the caller's cancellation does not make a failed setup pass
			}
		case "setup-fail":
			st.FailNow()
		case "setup-panic":
			panic("planned setup panic")
		}
		return func(it *f1testing.T) {
			inFlight.Add(1)
			defer func() {
				now := int64(time.Since(start))
				for {
					cur := lastExit.Load()
					if now <= cur || lastExit.CompareAndSwap(cur, now) {
						break
					}
				}
				inFlight.Add(-1)
			}()
			entries.Add(1)
			since := int64(time.Since(start))
			for {
				cur := latest.Load()
				if since <= cur || latest.CompareAndSwap(cur, since) {
					break
				}
			}
			id, _ := strconv.ParseUint(it.Iteration, 10, 64)
			switch {
			case c.StragglerMs > 0 && id == 1:
				time.Sleep(time.Duration(c.StragglerMs) * time.Millisecond)
			case c.Blocking == "blocked" && id <= uint64(c.Blocked):
				<-release
			case c.Blocking == "sleep":
				time.Sleep(time.Duration(c.SleepUs) * time.Microsecond)
			}
		}
	}
	leakOpt := goleak.IgnoreCurrent()
	spec := c.Shape.Spec(dir)
	spec.ScenarioFn = scenario
	spec.Output = output
	spec.Ctx = ctx
	spec.WaitTimeout = time.Duration(c.WaitMs) * time.Millisecond
	switch c.Ending {
	case "cancel-before":
		cancel()
	case "cancel-during-setup":
		go func() {
			<-setupEntered
			time.Sleep(10 * time.Millisecond)
			cancel()
		}()
	case "cancel-mid-run", "max-duration-then-cancel":
		go func() {
			<-setupEntered
			time.Sleep(time.Duration(c.CancelMs) * time.Millisecond)
			cancel()
		}()
	}
	type result struct {
		out    *vlib.RunOutcome
		err    error
		failed bool
	}
	done := make(chan result, 1)
	start = time.Now()
	go func() {
		if c.ViaCLI {
			verdict, err := vlib.ExecuteCLI(spec)
			done <- result{nil, err, verdict != nil}
			return
		}
		o, err := vlib.Execute(spec)
		done <- result{o, err, err == nil && o.Result.Failed()}
	}()
	budget := c.Shape.ScheduledStop() + returnDeadline
	if c.Blocking == "blocked" {
		budget += time.Duration(c.WaitMs) * time.Millisecond
	}
	select {
	case r := <-done:
		if r.err != nil {
			return obs, r.err
		}
		obs.returned = true
		obs.elapsed = time.Since(start)
		obs.inFlightAtRt = inFlight.Load()
		obs.resFailed = r.failed
	case <-time.After(budget):
		obs.elapsed = time.Since(start)
		releaseOnce.Do(func() { close(release) })
		cancel()
		return obs, nil
	}
	entriesAtReturn, writesAtReturn := entries.Load(), out.writes.Load()
	obs.entries = entriesAtReturn
	if c.Blocking != "blocked" {
		// nothing of the run may still be active: observe for a while
		time.Sleep(150 * time.Millisecond)
		obs.entriesAfter = entries.Load() - entriesAtReturn
		obs.writesAfter = out.writes.Load() - writesAtReturn
		// (the CLI installs a signal handler: os/signal's own goroutine stays for the life of the process)
		obs.leak = goleak.Find(leakOpt, goleak.IgnoreTopFunction("os/signal.signal_recv"), goleak.IgnoreTopFunction("os/signal.loop"))
		if c.ViaCLI {
			obs.writesAfter = 0 // the harness's sink is not attached to a CLI run
		}
	}
	obs.lateEntry = time.Duration(latest.Load())
	obs.lastExit = time.Duration(lastExit.Load())
	releaseOnce.Do(func() { close(release) })
	return obs, nil
}

func judge(c termCase, obs observation) string {
	if !obs.returned {
		return fmt.Sprintf("Do had not returned %s after its start (scheduled stop %s, completion timeout %dms)", obs.elapsed.Round(time.Millisecond), c.Shape.ScheduledStop(), c.WaitMs)
	}
	if c.Blocking != "blocked" {
		if obs.inFlightAtRt != 0 {
			return fmt.Sprintf("Do returned (completion timeout %dms not needed) while %d iterations were still executing", c.WaitMs, obs.inFlightAtRt)
		}
		if obs.entriesAfter != 0 {
			return fmt.Sprintf("%d iterations started after Do returned", obs.entriesAfter)
		}
		if obs.writesAfter != 0 {
			return fmt.Sprintf("%d writes to the run's output (progress/log) after Do returned", obs.writesAfter)
		}
		if obs.leak != nil {
			return fmt.Sprintf("goroutines of the run remain after Do returned: %v", obs.leak)
		}
	}
	if c.SetupFailsToo {
		if obs.entries != 0 {
			return fmt.Sprintf("setup failed (after the caller had cancelled) yet %d iterations ran", obs.entries)
		}
		if !obs.resFailed {
			return "setup failed (after the caller had cancelled) but the run is not reported failed"
		}
	}
	switch c.Ending {
	case "setup-fail", "setup-panic":
		if obs.entries != 0 {
			return fmt.Sprintf("setup failed yet %d iterations ran", obs.entries)
		}
		if !obs.resFailed {
			return "setup failed but the run is not reported failed"
		}
	case "max-duration-then-cancel":
		if c.Blocking == "blocked" {
			due := c.Shape.ScheduledStop() + time.Duration(c.WaitMs)*time.Millisecond
			if over := obs.elapsed - due; over > lateMargin {
				return fmt.Sprintf("triggering stopped %s after the run began (max-duration), the completion timeout of %dms expired at %s, but Do only returned after %s (%s later; the caller cancelled at %dms, during the wait)",
					c.Shape.ScheduledStop(), c.WaitMs, due.Round(time.Millisecond), obs.elapsed.Round(time.Millisecond), over.Round(time.Millisecond), c.CancelMs)
			}
		}
	case "max-duration", "own-duration":
		if late := obs.lateEntry - c.Shape.ScheduledStop(); late > lateMargin {
			return fmt.Sprintf("an iteration started %s after the run began, %s later than the scheduled stop %s (min of max-duration %s and the trigger's own duration %s, less 10 ms)",
				obs.lateEntry.Round(time.Millisecond), late.Round(time.Millisecond), c.Shape.ScheduledStop(), c.Shape.MaxDuration, c.Shape.OwnDuration)
		}
		// "then waits for in-flight iterations for at most the completion timeout": once triggering has
		// stopped, Do returns when the last iteration has finished or the timeout expired, not at some
		// later stop condition (those are >= 5 s away, the margin is 2 s)
		due := max(c.Shape.ScheduledStop(), obs.lastExit)
		what := "the last iteration finished"
		if c.Blocking == "blocked" {
			due = c.Shape.ScheduledStop() + time.Duration(c.WaitMs)*time.Millisecond
			what = "the completion timeout expired"
		}
		if over := obs.elapsed - due; over > lateMargin {
			return fmt.Sprintf("triggering was due to stop %s after the run began (min of max-duration %s and the trigger's own duration %s, less 10 ms) and %s at %s, but Do only returned after %s (%s later)",
				c.Shape.ScheduledStop(), c.Shape.MaxDuration, c.Shape.OwnDuration, what, due.Round(time.Millisecond), obs.elapsed.Round(time.Millisecond), over.Round(time.Millisecond))
		}
	case "limit":
		if uint64(obs.entries) > c.Shape.MaxIterations {
			return fmt.Sprintf("%d iterations ran with max-iterations %d", obs.entries, c.Shape.MaxIterations)
		}
		// once the limit has stopped the triggering and the last iteration has finished there is nothing
		// left to wait for: the other stop conditions are >= 5 s away, the margin is 2 s
		if c.Blocking != "blocked" && uint64(obs.entries) == c.Shape.MaxIterations {
			if idle := obs.elapsed - obs.lastExit; idle > lateMargin {
				return fmt.Sprintf("the max-iterations limit %d was reached and the last iteration finished %s after the run began, but Do only returned after %s (%s later; max-duration %s, trigger's own duration %s)",
					c.Shape.MaxIterations, obs.lastExit.Round(time.Millisecond), obs.elapsed.Round(time.Millisecond), idle.Round(time.Millisecond), c.Shape.MaxDuration, c.Shape.OwnDuration)
			}
		}
	}
	return ""
}

func TestProp_Terminates(t *testing.T) {
	dir := t.TempDir()
	rapid.Check(t, func(rt *rapid.T) {
		c := genCase(rt)
		if c.Blocking == "blocked" && (c.Shape.Mode == "users" || c.Shape.Mode == "file") && vlib.KnownOpen("F11-users-trigger-ignores-completion-timeout") {
			// open finding: excluded by construction so the search continues behind it (probe: TestKnown_F11)
			stats.AddNote("excluded_known_F11", 1)
			c.Blocking = "sleep"
			c.Blocked = 0
			c.WaitMs = 20000
		}
		obs, err := execute(c, dir)
		if err != nil {
			rt.Fatalf("VERIF-INFRA: cannot execute %s: %v", c.desc(), err)
		}
		inFlightAtEnd := c.Blocking == "blocked" || c.Blocking == "sleep"
		cls := []string{"mode-" + c.Shape.Mode, "ending-" + c.Ending, "blocking-" + c.Blocking}
		if c.TickCoinc {
			cls = append(cls, "ends-on-progress-tick")
		}
		if c.ViaCLI {
			cls = append(cls, "through-the-cli")
		}
		if c.StragglerMs > 0 {
			cls = append(cls, "first-stage-iteration-outlives-the-last-stage")
		}
		if obs.elapsed > 3*time.Second {
			rt.Logf("slow case (%s): %s", obs.elapsed, c.desc())
		}
		stats.Case("runs", c.desc(), inFlightAtEnd && obs.entries > 0, cls, func() any {
			return map[string]any{"case": c.desc(), "elapsed_ms": obs.elapsed.Milliseconds(), "iterations": obs.entries}
		})
		if msg := judge(c, obs); msg != "" {
			vlib.SaveArtefact("c05-case", map[string]any{"case": c.desc(), "observation": fmt.Sprintf("%+v", obs)})
			rt.Fatalf("VERIF-VIOLATION C05: %s\ncase: %s", msg, c.desc())
		}
	})
}

// TestKnown_F11 re-checks the open finding each run and prints its KNOWN-FINDING line while it
// still reproduces; if it no longer reproduces nothing is printed (and nothing is excluded).
func TestKnown_F11(t *testing.T) {
	if !vlib.KnownOpen("F11-users-trigger-ignores-completion-timeout") {
		t.Skip("not listed as open")
	}
	c := termCase{Ending: "max-duration", Blocking: "blocked", Blocked: 1, WaitMs: 100}
	c.Shape = vlib.Shape{Mode: "users", Flags: map[string]string{}, Concurrency: 1, MaxDuration: 100 * time.Millisecond, Desc: "users c=1 dur=100ms (F11 probe)"}
	var obs observation
	doneCh := make(chan struct{})
	go func() {
		defer close(doneCh)
		// a reduced deadline: the probe only needs to see that Do outlives stop + completion timeout by far
		obs, _ = executeWithDeadline(c, t.TempDir(), 3*time.Second)
	}()
	<-doneCh
	if !obs.returned {
		vlib.ReportKnown("F11-users-trigger-ignores-completion-timeout")
	}
}

// executeWithDeadline is execute with a shorter return deadline (probes only).
func executeWithDeadline(c termCase, dir string, d time.Duration) (observation, error) {
	var obs observation
	release := make(chan struct{})
	scenario := func(st *f1testing.T) f1testing.RunFn {
		return func(it *f1testing.T) {
			if it.Iteration == "1" {
				<-release
			}
		}
	}
	spec := c.Shape.Spec(dir)
	spec.ScenarioFn = scenario
	spec.WaitTimeout = time.Duration(c.WaitMs) * time.Millisecond
	done := make(chan struct{})
	go func() {
		defer close(done)
		_, _ = vlib.Execute(spec)
	}()
	select {
	case <-done:
		obs.returned = true
	case <-time.After(c.Shape.MaxDuration + time.Duration(c.WaitMs)*time.Millisecond + d):
	}
	close(release)
	<-done
	return obs, nil
}
