package vlib

import (
	"encoding/json"
	"fmt"
	"os"
	"sync"
)

// Finding is one entry of /verif/known_findings.json.
type Finding struct {
	ID       string `json:"id"`       // stable identifier the checks key on
	Property string `json:"property"` // e.g. C14
	Status   string `json:"status"`   // "open" or "fixed"
	What     string `json:"what"`     // the specific input / call site / history that fails
	Commit   string `json:"commit,omitempty"`
	Line     string `json:"line,omitempty"` // for fixed entries: "fixed: property=<id> <commit> <what failed>"
}

type findingsFile struct {
	Findings []Finding `json:"findings"`
}

var (
	knownOnce sync.Once
	knownOpen map[string]Finding
	knownMu   sync.Mutex
	reported  = map[string]bool{}
)

func loadKnown() {
	knownOpen = map[string]Finding{}
	path := os.Getenv("VERIF_KNOWN")
	if path == "" {
		path = "/verif/known_findings.json"
	}
	b, err := os.ReadFile(path)
	if err != nil {
		return
	}
	var f findingsFile
	if err := json.Unmarshal(b, &f); err != nil {
		fmt.Fprintf(os.Stderr, "vlib: cannot parse %s: %v\n", path, err)
		return
	}
	for _, e := range f.Findings {
		if e.Status == "open" {
			knownOpen[e.ID] = e
		}
	}
}

// KnownOpen reports whether the finding id is listed as open (recorded, not
// repaired). Fixed entries suppress nothing and are never returned here.
func KnownOpen(id string) bool {
	knownOnce.Do(loadKnown)
	_, ok := knownOpen[id]
	return ok
}

// ReportKnown prints the KNOWN-FINDING line for an open finding that a probe
// has just reproduced. Printed once per process.
func ReportKnown(id string) {
	knownOnce.Do(loadKnown)
	e, ok := knownOpen[id]
	if !ok {
		return
	}
	knownMu.Lock()
	defer knownMu.Unlock()
	if reported[id] {
		return
	}
	reported[id] = true
	fmt.Fprintf(os.Stdout, "KNOWN-FINDING: property=%s %s: %s\n", e.Property, e.ID, e.What)
}
