package vlib

import (
	"encoding/json"
	"fmt"
	"os"
	"path/filepath"
	"strconv"
	"testing"
)

// Tier returns "quick" or "thorough" (VERIF_TIER, default quick).
func Tier() string {
	if os.Getenv("VERIF_TIER") == "thorough" {
		return "thorough"
	}
	return "quick"
}

// ByTier picks a budget by tier.
func ByTier(quick, thorough int) int {
	if Tier() == "thorough" {
		return thorough
	}
	return quick
}

// EnvInt reads an integer environment variable with a default.
func EnvInt(name string, def int) int {
	if v, err := strconv.Atoi(os.Getenv(name)); err == nil {
		return v
	}
	return def
}

// Shard returns this process' shard index and the shard count.
func Shard() (int, int) {
	n := EnvInt("VERIF_SHARDS", 1)
	if n < 1 {
		n = 1
	}
	return EnvInt("VERIF_SHARD", 0) % n, n
}

// CaseSeed is the per-process seed derived by the driver from VERIF_SEED.
func CaseSeed() int64 {
	v, err := strconv.ParseInt(os.Getenv("VERIF_CASE_SEED"), 10, 64)
	if err != nil || v == 0 {
		return 0x5eed
	}
	return v
}

// SaveArtefact writes a JSON artefact (case parameters + observed history) for
// failures whose reproduction is not guaranteed by the rapid fail file.
func SaveArtefact(name string, v any) string {
	dir := os.Getenv("VERIF_ARTEFACTS")
	if dir == "" {
		return ""
	}
	b, err := json.MarshalIndent(v, "", " ")
	if err != nil {
		b = []byte(fmt.Sprintf("%+v", v))
	}
	p := filepath.Join(dir, "artefact-"+name+".json")
	_ = os.WriteFile(p, b, 0o644)
	return p
}

// Main is the TestMain body shared by all harness packages.
func Main(m *testing.M, s *Stats) {
	code := m.Run()
	s.Flush()
	os.Exit(code)
}
