package vlib

import (
	"encoding/json"
	"fmt"
	"hash/fnv"
	"os"
	"sort"
	"sync"
)

// Stats records what a check actually generated. One instance per test
// package; every generated case is reported once through Case. The driver
// merges the per-shard dumps into the evidence file.
type Stats struct {
	mu          sync.Mutex
	Property    string
	evaluations int64
	nontrivial  int64
	keys        map[uint64]struct{} // distinct keys of non-trivial cases
	classes     map[string]int64
	samplesNT   []any
	samplesT    []any
	notes       map[string]any
	sections    map[string]*sectionStats
}

type sectionStats struct {
	Evaluations int64 `json:"evaluations"`
	NonTrivial  int64 `json:"nontrivial"`
}

func NewStats(property string) *Stats {
	return &Stats{
		Property: property,
		keys:     map[uint64]struct{}{},
		classes:  map[string]int64{},
		notes:    map[string]any{},
		sections: map[string]*sectionStats{},
	}
}

const (
	maxKeys      = 1_500_000
	maxSamplesNT = 6
	maxSamplesT  = 2
)

// Case records one generated case. section names the engine (sub-check) that
// produced it; key is a canonical rendering of the case (distinctness is
// measured on it); nontrivial is the property's stated rule evaluated on this
// case; classes label the case for the distribution report; sample is called
// lazily, only if the case is kept as a sample.
func (s *Stats) Case(section, key string, nontrivial bool, classes []string, sample func() any) {
	h := fnv.New64a()
	h.Write([]byte(section))
	h.Write([]byte{0})
	h.Write([]byte(key))
	k := h.Sum64()

	s.mu.Lock()
	defer s.mu.Unlock()
	s.evaluations++
	sec := s.sections[section]
	if sec == nil {
		sec = &sectionStats{}
		s.sections[section] = sec
	}
	sec.Evaluations++
	for _, c := range classes {
		s.classes[section+"/"+c]++
	}
	if nontrivial {
		s.nontrivial++
		sec.NonTrivial++
		if _, seen := s.keys[k]; !seen && len(s.keys) >= maxKeys {
			// the set of distinct keys is capped per process: from here on
			// distinct_nontrivial is a lower bound (said so in the dump)
			s.notes["distinct_nontrivial_is_lower_bound"] = true
		} else if !seen {
			s.keys[k] = struct{}{}
			// keep samples spread over sections: at most 2 per section
			if len(s.samplesNT) < maxSamplesNT && sample != nil && sec.NonTrivial <= 2 {
				s.samplesNT = append(s.samplesNT, map[string]any{"engine": section, "case": sample()})
			}
		}
	} else if len(s.samplesT) < maxSamplesT && sample != nil {
		s.samplesT = append(s.samplesT, map[string]any{"engine": section, "trivial": true, "case": sample()})
	}
}

// Note attaches a free-form measured value to the dump (e.g. exhaustive: true).
func (s *Stats) Note(name string, v any) {
	s.mu.Lock()
	defer s.mu.Unlock()
	s.notes[name] = v
}

// AddNote adds n to an integer note.
func (s *Stats) AddNote(name string, n int64) {
	s.mu.Lock()
	defer s.mu.Unlock()
	cur, _ := s.notes[name].(int64)
	s.notes[name] = cur + n
}

type statsDump struct {
	Property    string                   `json:"property"`
	Evaluations int64                    `json:"evaluations"`
	NonTrivial  int64                    `json:"nontrivial"`
	Keys        []uint64                 `json:"keys"`
	Classes     map[string]int64         `json:"classes"`
	Samples     []any                    `json:"samples"`
	Notes       map[string]any           `json:"notes"`
	Sections    map[string]*sectionStats `json:"sections"`
}

// Flush writes the dump to the file named by VERIF_STATS (if set). It is
// called from TestMain after m.Run().
func (s *Stats) Flush() {
	path := os.Getenv("VERIF_STATS")
	if path == "" {
		return
	}
	s.mu.Lock()
	defer s.mu.Unlock()
	keys := make([]uint64, 0, len(s.keys))
	for k := range s.keys {
		keys = append(keys, k)
	}
	sort.Slice(keys, func(i, j int) bool { return keys[i] < keys[j] })
	d := statsDump{
		Property:    s.Property,
		Evaluations: s.evaluations,
		NonTrivial:  s.nontrivial,
		Keys:        keys,
		Classes:     s.classes,
		Samples:     append(append([]any{}, s.samplesNT...), s.samplesT...),
		Notes:       s.notes,
		Sections:    s.sections,
	}
	b, err := json.Marshal(d)
	if err != nil {
		fmt.Fprintf(os.Stderr, "vlib: cannot marshal stats: %v\n", err)
		return
	}
	if err := os.WriteFile(path, b, 0o644); err != nil {
		fmt.Fprintf(os.Stderr, "vlib: cannot write stats: %v\n", err)
	}
}
