package vlib

import (
	"sync"
	"sync/atomic"
	"time"

	"github.com/form3tech-oss/f1/v2/internal/verifhook"
)

// Gate parks the Nth goroutine that reaches the yield point Point until Open
// is called or Timeout elapses (so a tree in which the racing action correctly
// blocks, or in which the point is never reached, just proceeds).
type Gate struct {
	Point   string
	Nth     int32 // 1-based; 0 means 1
	Timeout time.Duration

	count    atomic.Int32
	arrived  chan struct{}
	release  chan struct{}
	openOnce sync.Once
	TimedOut atomic.Bool
	Passed   atomic.Bool // the parked goroutine has been let through
}

func NewGate(point string, nth int32, timeout time.Duration) *Gate {
	if nth <= 0 {
		nth = 1
	}
	return &Gate{Point: point, Nth: nth, Timeout: timeout, arrived: make(chan struct{}), release: make(chan struct{})}
}

// Arrived is closed when the selected goroutine has parked at the gate.
func (g *Gate) Arrived() <-chan struct{} { return g.arrived }

// Open lets the parked goroutine (or a later arrival) through.
func (g *Gate) Open() { g.openOnce.Do(func() { close(g.release) }) }

func (g *Gate) hit() {
	if g.count.Add(1) != g.Nth {
		return
	}
	close(g.arrived)
	select {
	case <-g.release:
	case <-time.After(g.Timeout):
		g.TimedOut.Store(true)
	}
	g.Passed.Store(true)
}

// InstallGates installs a hook handler that dispatches yield points to the
// given gates, optionally also calling observe for every point reached. The
// returned function removes the handler and opens every gate.
func InstallGates(observe func(point string), gates ...*Gate) (remove func()) {
	byPoint := map[string][]*Gate{}
	for _, g := range gates {
		byPoint[g.Point] = append(byPoint[g.Point], g)
	}
	verifhook.Set(func(point string) {
		if observe != nil {
			observe(point)
		}
		for _, g := range byPoint[point] {
			g.hit()
		}
	})
	return func() {
		verifhook.Clear()
		for _, g := range gates {
			g.Open()
		}
	}
}

// Barrier parks every goroutine that reaches Point until N of them have arrived (or Timeout
// elapses for the waiting ones), then lets all of them - and every later arrival - through.
// It forces "all workers are at this point at the same moment".
type Barrier struct {
	Point   string
	N       int32
	Timeout time.Duration

	count    atomic.Int32
	full     chan struct{}
	fullOnce sync.Once
	TimedOut atomic.Bool
}

func NewBarrier(point string, n int32, timeout time.Duration) *Barrier {
	return &Barrier{Point: point, N: n, Timeout: timeout, full: make(chan struct{})}
}

// Full is closed once N goroutines have arrived.
func (b *Barrier) Full() <-chan struct{} { return b.full }

func (b *Barrier) hit() {
	if b.count.Add(1) >= b.N {
		b.fullOnce.Do(func() { close(b.full) })
		return
	}
	select {
	case <-b.full:
	case <-time.After(b.Timeout):
		b.TimedOut.Store(true)
	}
}

// InstallHooks installs a handler dispatching yield points to gates and barriers.
func InstallHooks(observe func(point string), gates []*Gate, barriers []*Barrier) (remove func()) {
	byPoint := map[string][]*Gate{}
	for _, g := range gates {
		byPoint[g.Point] = append(byPoint[g.Point], g)
	}
	bars := map[string][]*Barrier{}
	for _, b := range barriers {
		bars[b.Point] = append(bars[b.Point], b)
	}
	verifhook.Set(func(point string) {
		if observe != nil {
			observe(point)
		}
		for _, b := range bars[point] {
			b.hit()
		}
		for _, g := range byPoint[point] {
			g.hit()
		}
	})
	return func() {
		verifhook.Clear()
		for _, g := range gates {
			g.Open()
		}
		for _, b := range barriers {
			b.fullOnce.Do(func() { close(b.full) })
		}
	}
}
