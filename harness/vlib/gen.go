package vlib

import (
	"fmt"
	"strings"
	"time"

	"pgregory.net/rapid"
)

// Shape is a generated run configuration: which trigger, with which flags or
// config file, and the common options. It is turned into a RunSpec by Spec().
type Shape struct {
	Mode          string
	Flags         map[string]string
	FileYAML      string
	Concurrency   int
	MaxDuration   time.Duration
	MaxIterations uint64
	// TickInterval and PerTick describe the offered load of rate modes
	// (approximate for staged/ramp/gaussian: PerTick is the largest request).
	TickInterval time.Duration
	PerTick      int
	// OwnDuration > 0: the trigger's own total duration (staged, file).
	OwnDuration time.Duration
	Desc        string
}

// ShapeOpts bounds the generator.
type ShapeOpts struct {
	Modes          []string // subset of constant staged ramp gaussian users file
	MinDur, MaxDur time.Duration
	MaxConcurrency int
	MaxPerTick     int
	Limit          string // "none" | "maybe" | "always": max-iterations
	StageMs        [2]int // staged / file stage durations in ms (default 40-250 and 100-250)
	MaxLimit       int
}

var AllModes = []string{"constant", "staged", "ramp", "gaussian", "users", "file"}

func ms(d int) time.Duration { return time.Duration(d) * time.Millisecond }

// GenShape draws a run shape. All values are inside ranges the CLI accepts.
func GenShape(t *rapid.T, o ShapeOpts) Shape {
	if len(o.Modes) == 0 {
		o.Modes = AllModes
	}
	if o.MaxConcurrency == 0 {
		o.MaxConcurrency = 32
	}
	if o.MaxPerTick == 0 {
		o.MaxPerTick = 40
	}
	if o.MinDur == 0 {
		o.MinDur, o.MaxDur = ms(50), ms(400)
	}
	if o.MaxLimit == 0 {
		o.MaxLimit = 200
	}
	s := Shape{Flags: map[string]string{}}
	s.Mode = rapid.SampledFrom(o.Modes).Draw(t, "mode")
	s.Concurrency = rapid.IntRange(1, o.MaxConcurrency).Draw(t, "concurrency")
	s.MaxDuration = time.Duration(rapid.Int64Range(int64(o.MinDur/time.Millisecond), int64(o.MaxDur/time.Millisecond)).Draw(t, "durationMs")) * time.Millisecond
	switch o.Limit {
	case "always":
		s.MaxIterations = uint64(rapid.IntRange(1, o.MaxLimit).Draw(t, "maxIterations"))
	case "maybe":
		if rapid.Bool().Draw(t, "limited") {
			s.MaxIterations = uint64(rapid.IntRange(1, o.MaxLimit).Draw(t, "maxIterations"))
		}
	}
	interval := rapid.SampledFrom([]int{5, 10, 20, 50, 100}).Draw(t, "tickMs")
	per := rapid.IntRange(1, o.MaxPerTick).Draw(t, "perTick")
	dist := rapid.SampledFrom([]string{"none", "none", "regular", "random"}).Draw(t, "distribution")
	s.TickInterval = ms(interval)
	s.PerTick = per
	switch s.Mode {
	case "constant":
		s.Flags["rate"] = fmt.Sprintf("%d/%dms", per, interval)
		s.Flags["distribution"] = dist
	case "staged":
		n := rapid.IntRange(1, 3).Draw(t, "stages")
		parts := []string{fmt.Sprintf("0s:%d", rapid.IntRange(0, per).Draw(t, "target0"))}
		var own time.Duration
		for i := 0; i < n; i++ {
			lo, hi := 40, 250
			if o.StageMs[1] > 0 {
				lo, hi = o.StageMs[0], o.StageMs[1]
			}
			d := rapid.IntRange(lo, hi).Draw(t, fmt.Sprintf("stageMs%d", i))
			parts = append(parts, fmt.Sprintf("%dms:%d", d, rapid.IntRange(0, per).Draw(t, fmt.Sprintf("target%d", i+1))))
			own += ms(d)
		}
		s.Flags["stages"] = strings.Join(parts, ",")
		s.Flags["iterationFrequency"] = fmt.Sprintf("%dms", interval)
		s.Flags["distribution"] = dist
		s.OwnDuration = own
	case "ramp":
		a := rapid.IntRange(0, per).Draw(t, "startRate")
		b := rapid.IntRange(0, per).Draw(t, "endRate")
		if a == b {
			b = a + 1
		}
		s.Flags["start-rate"] = fmt.Sprintf("%d/%dms", a, interval)
		s.Flags["end-rate"] = fmt.Sprintf("%d/%dms", b, interval)
		rd := s.MaxDuration
		if rd < ms(interval) {
			rd = ms(interval)
		}
		s.Flags["ramp-duration"] = rd.String()
		s.Flags["distribution"] = dist
		if a > b {
			s.PerTick = a
		} else {
			s.PerTick = b
		}
	case "gaussian":
		// the tick frequency must divide the repeat window
		repeat := rapid.SampledFrom([]int{200, 500, 1000}).Draw(t, "repeatMs")
		if repeat%interval != 0 {
			interval = 10
			s.TickInterval = ms(interval)
		}
		ticks := repeat / interval
		s.Flags["repeat"] = fmt.Sprintf("%dms", repeat)
		s.Flags["iteration-frequency"] = fmt.Sprintf("%dms", interval)
		s.Flags["peak"] = fmt.Sprintf("%dms", rapid.IntRange(0, repeat-1).Draw(t, "peakMs"))
		s.Flags["standard-deviation"] = fmt.Sprintf("%dms", rapid.IntRange(interval, 2*repeat).Draw(t, "stddevMs"))
		s.Flags["volume"] = fmt.Sprintf("%d", per*ticks/2+1)
		s.Flags["distribution"] = "none"
		s.PerTick = 0 // unknown peak height
	case "users":
	case "file":
		n := rapid.IntRange(1, 3).Draw(t, "fileStages")
		var b strings.Builder
		fmt.Fprintf(&b, "scenario: %s\nlimits:\n  max-duration: %s\n  concurrency: %d\n  max-iterations: %d\n  ignore-dropped: true\nstages:\n",
			ScenarioName, s.MaxDuration, s.Concurrency, s.MaxIterations)
		var own time.Duration
		for i := 0; i < n; i++ {
			lo, hi := 100, 250
			if o.StageMs[1] > 0 {
				lo, hi = max(100, o.StageMs[0]), max(100, o.StageMs[1])
			}
			d := rapid.IntRange(lo, hi).Draw(t, fmt.Sprintf("stageMs%d", i))
			own += ms(d)
			switch rapid.SampledFrom([]string{"constant", "users", "staged", "ramp"}).Draw(t, fmt.Sprintf("stageMode%d", i)) {
			case "constant":
				fmt.Fprintf(&b, "- duration: %dms\n  mode: constant\n  rate: %d/%dms\n  jitter: 0\n  distribution: %s\n", d, per, interval, dist)
			case "users":
				fmt.Fprintf(&b, "- duration: %dms\n  mode: users\n  concurrency: %d\n", d, rapid.IntRange(1, s.Concurrency).Draw(t, fmt.Sprintf("users%d", i)))
			case "staged":
				fmt.Fprintf(&b, "- duration: %dms\n  mode: staged\n  stages: \"0s:%d,%dms:%d\"\n  iteration-frequency: %dms\n  jitter: 0\n  distribution: %s\n",
					d, rapid.IntRange(0, per).Draw(t, fmt.Sprintf("sa%d", i)), d, rapid.IntRange(0, per).Draw(t, fmt.Sprintf("sb%d", i)), interval, dist)
			case "ramp":
				a := rapid.IntRange(0, per).Draw(t, fmt.Sprintf("ra%d", i))
				fmt.Fprintf(&b, "- duration: %dms\n  mode: ramp\n  start-rate: %d/%dms\n  end-rate: %d/%dms\n  jitter: 0\n  distribution: %s\n",
					d, a, interval, a+1+rapid.IntRange(0, per).Draw(t, fmt.Sprintf("rb%d", i)), interval, dist)
			}
		}
		s.FileYAML = b.String()
		s.OwnDuration = own
	}
	s.Desc = fmt.Sprintf("%s c=%d dur=%s limit=%d flags=%v", s.Mode, s.Concurrency, s.MaxDuration, s.MaxIterations, s.Flags)
	if s.Mode == "file" {
		s.Desc += " yaml=" + strings.ReplaceAll(s.FileYAML, "\n", "|")
	}
	return s
}

// ScheduledStop is when the run is scheduled to stop triggering, relative to
// its start, ignoring the max-iterations limit: min(max-duration, own duration).
func (s Shape) ScheduledStop() time.Duration {
	d := s.MaxDuration
	if s.OwnDuration > 0 && s.OwnDuration < d {
		d = s.OwnDuration
	}
	return d
}

// Spec turns the shape into a RunSpec (dir: a temp dir for file mode).
func (s Shape) Spec(dir string) *RunSpec {
	spec := &RunSpec{Mode: s.Mode, Flags: s.Flags, FileYAML: s.FileYAML, FileDir: dir}
	spec.Opts.Concurrency = s.Concurrency
	spec.Opts.MaxDuration = s.MaxDuration
	spec.Opts.MaxIterations = s.MaxIterations
	spec.Opts.IgnoreDropped = true
	return spec
}
