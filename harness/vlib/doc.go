// Package vlib holds what the per-property harness packages share.
package vlib
