package vlib

import (
	"context"
	"fmt"
	"os"
	"path/filepath"
	"sort"
	"time"

	"github.com/prometheus/client_golang/prometheus"
	dto "github.com/prometheus/client_model/go"
	"github.com/spf13/pflag"

	"github.com/form3tech-oss/f1/v2/internal/envsettings"
	"github.com/form3tech-oss/f1/v2/internal/metrics"
	"github.com/form3tech-oss/f1/v2/internal/options"
	"github.com/form3tech-oss/f1/v2/internal/run"
	"github.com/form3tech-oss/f1/v2/internal/trigger/api"
	"github.com/form3tech-oss/f1/v2/internal/trigger/constant"
	"github.com/form3tech-oss/f1/v2/internal/trigger/file"
	"github.com/form3tech-oss/f1/v2/internal/trigger/gaussian"
	"github.com/form3tech-oss/f1/v2/internal/trigger/ramp"
	"github.com/form3tech-oss/f1/v2/internal/trigger/staged"
	"github.com/form3tech-oss/f1/v2/internal/trigger/users"
	"github.com/form3tech-oss/f1/v2/internal/ui"
	"github.com/form3tech-oss/f1/v2/pkg/f1/scenarios"
	f1testing "github.com/form3tech-oss/f1/v2/pkg/f1/testing"
)

// RunSpec describes one real run through run.NewRun(...).Do, built the way
// the CLI builds it (builder flag set -> Constructor -> Trigger).
type RunSpec struct {
	Mode        string            // constant | staged | ramp | gaussian | users | file
	Flags       map[string]string // trigger flags (ignored for users/file)
	FileYAML    string            // file mode: config file content
	FileDir     string            // file mode: directory for the temp config file (t.TempDir())
	Opts        options.RunOptions
	ScenarioFn  f1testing.ScenarioFn
	WaitTimeout time.Duration    // completion timeout; 0 -> 10s like the CLI
	Metrics     *metrics.Metrics // nil -> private registry, iteration metrics on
	Output      *ui.Output       // nil -> discard
	Ctx         context.Context  // nil -> Background
	Trigger     *api.Trigger     // non-nil: use this trigger instead of building one
	// Scenarios: non-nil: the registry (holding ScenarioName) to run from, so that several runs of
	// one process use the same registered scenario like several `f1 run` invocations of one binary's
	// F1 instance do; nil: a fresh registry holding ScenarioFn.
	Scenarios *scenarios.Scenarios
	// LogFilePath: non-empty: the run is NOT verbose and the scenario log goes to this path
	// (LOG_FILE_PATH); a path that cannot be opened makes the run fall back to its output logger.
	LogFilePath string
	// PushGateway: non-empty: PROMETHEUS_PUSH_GATEWAY, the URL the run pushes its metrics to.
	PushGateway string
}

type RunOutcome struct {
	Result  *run.Result
	Metrics *metrics.Metrics
	Trigger *api.Trigger
	Opts    options.RunOptions
}

func builderFor(mode string, out *ui.Output) (api.Builder, error) {
	switch mode {
	case "constant":
		return constant.Rate(), nil
	case "staged":
		return staged.Rate(), nil
	case "ramp":
		return ramp.Rate(), nil
	case "gaussian":
		return gaussian.Rate(out), nil
	case "users":
		return users.Rate(), nil
	case "file":
		return file.Rate(out), nil
	}
	return api.Builder{}, fmt.Errorf("unknown mode %q", mode)
}

// BuildTrigger builds the trigger for spec the way the CLI does. For ramp
// with ramp-duration 0 the max-duration flag is registered as the CLI would.
func BuildTrigger(spec *RunSpec) (*api.Trigger, error) {
	out := spec.Output
	if out == nil {
		out = ui.NewDiscardOutput()
	}
	b, err := builderFor(spec.Mode, out)
	if err != nil {
		return nil, err
	}
	flags := b.Flags
	if spec.Mode == "file" {
		dir := spec.FileDir
		if dir == "" {
			return nil, fmt.Errorf("file mode needs FileDir")
		}
		path := filepath.Join(dir, fmt.Sprintf("config-%d.yaml", time.Now().UnixNano()))
		if err := os.WriteFile(path, []byte(spec.FileYAML), 0o600); err != nil {
			return nil, err
		}
		defer os.Remove(path)
		if err := flags.Parse([]string{path}); err != nil {
			return nil, err
		}
		return b.New(flags)
	}
	if spec.Mode == "ramp" {
		flags.DurationP("max-duration", "d", time.Second, "")
		if err := flags.Set("max-duration", spec.Opts.MaxDuration.String()); err != nil {
			return nil, err
		}
	}
	keys := make([]string, 0, len(spec.Flags))
	for k := range spec.Flags {
		keys = append(keys, k)
	}
	sort.Strings(keys)
	for _, k := range keys {
		if err := flags.Set(k, spec.Flags[k]); err != nil {
			return nil, fmt.Errorf("flag %s=%q: %w", k, spec.Flags[k], err)
		}
	}
	return b.New(flags)
}

var _ = pflag.ErrHelp

const ScenarioName = "verif_scenario"

// Execute performs the run. Verbose is on unless spec.LogFilePath is set, so that no scenario
// log file is created by default; output goes to spec.Output (discarded by default).
func Execute(spec *RunSpec) (*RunOutcome, error) {
	out := spec.Output
	if out == nil {
		out = ui.NewDiscardOutput()
	}
	trig := spec.Trigger
	if trig == nil {
		var err error
		trig, err = BuildTrigger(spec)
		if err != nil {
			return nil, fmt.Errorf("build trigger: %w", err)
		}
	}
	opts := spec.Opts
	if spec.Mode == "file" {
		// as runCmdExecute does for builders with IgnoreCommonFlags
		opts.MaxDuration = trig.Options.MaxDuration
		opts.Concurrency = trig.Options.Concurrency
		opts.MaxIterations = trig.Options.MaxIterations
		opts.MaxFailures = trig.Options.MaxFailures
		opts.MaxFailuresRate = trig.Options.MaxFailuresRate
		opts.IgnoreDropped = trig.Options.IgnoreDropped
	}
	opts.Scenario = ScenarioName
	opts.Verbose = spec.LogFilePath == ""
	m := spec.Metrics
	if m == nil {
		m = metrics.NewInstance(prometheus.NewRegistry(), true, nil)
	}
	sc := spec.Scenarios
	if sc == nil {
		sc = NewScenarios(spec.ScenarioFn)
	}
	wait := spec.WaitTimeout
	if wait == 0 {
		wait = 10 * time.Second
	}
	r, err := run.NewRun(opts, sc, trig, wait, envsettings.Settings{Log: envsettings.Log{FilePath: spec.LogFilePath}, Prometheus: envsettings.Prometheus{PushGateway: spec.PushGateway}}, m, out)
	if err != nil {
		return nil, fmt.Errorf("new run: %w", err)
	}
	ctx := spec.Ctx
	if ctx == nil {
		ctx = context.Background()
	}
	res, err := r.Do(ctx)
	if err != nil {
		return nil, fmt.Errorf("do: %w", err)
	}
	return &RunOutcome{Result: res, Metrics: m, Trigger: trig, Opts: opts}, nil
}

// NewScenarios returns a registry holding fn under ScenarioName.
func NewScenarios(fn f1testing.ScenarioFn) *scenarios.Scenarios {
	sc := scenarios.New()
	sc.Add(&scenarios.Scenario{Name: ScenarioName, ScenarioFn: fn})
	return sc
}

// MetricCounts gathers the registry and returns, for the iteration family,
// sample counts keyed by result label restricted to stage="iteration", and for
// the setup family sample counts keyed by result label.
type MetricCounts struct {
	Iteration map[string]uint64
	Setup     map[string]uint64
	IterSum   map[string]float64
	Families  []*dto.MetricFamily
}

func GatherCounts(m *metrics.Metrics) (*MetricCounts, error) {
	fams, err := m.Registry.Gather()
	if err != nil {
		return nil, err
	}
	mc := &MetricCounts{Iteration: map[string]uint64{}, Setup: map[string]uint64{}, IterSum: map[string]float64{}, Families: fams}
	for _, f := range fams {
		for _, met := range f.GetMetric() {
			lbl := map[string]string{}
			for _, lp := range met.GetLabel() {
				lbl[lp.GetName()] = lp.GetValue()
			}
			switch f.GetName() {
			case "form3_loadtest_iteration":
				if lbl["stage"] == "iteration" {
					mc.Iteration[lbl["result"]] += met.GetSummary().GetSampleCount()
					mc.IterSum[lbl["result"]] += met.GetSummary().GetSampleSum()
				}
			case "form3_loadtest_setup":
				mc.Setup[lbl["result"]] += met.GetSummary().GetSampleCount()
			}
		}
	}
	return mc, nil
}
