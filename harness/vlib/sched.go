package vlib

import (
	"fmt"

	"github.com/form3tech-oss/f1/v2/internal/verifhook"
)

// Step is one scheduling step of a cooperative run: thread Thread was resumed
// and ran until it parked at Point ("" = it finished).
type Step struct {
	Thread int
	Point  string
	Alive  int // number of unfinished threads the scheduler chose among at this step
	Choice int // index chosen among them
}

type schedEvent struct {
	thread int
	point  string
	done   bool
	panic  any
}

// RunSchedule runs the logical threads cooperatively: exactly one runs at a
// time and a thread only gives up control at a verifhook.Yield point. The
// schedule — a sequence of choices, each taken modulo the number of unfinished
// threads — decides which thread advances next; when it is exhausted the
// remaining threads run to completion in index order. The interleaving is thus
// a pure function of (threads, schedule): it replays and shrinks like any other
// generated value. Only non-blocking code may run inside threads.
//
// onStep, if not nil, is called (from the scheduler, while every thread is
// parked) before each resume with the index of the thread about to run.
func RunSchedule(threads []func(), schedule []int, onStep func(thread int)) []Step {
	n := len(threads)
	resume := make([]chan struct{}, n)
	events := make(chan schedEvent)
	current := -1

	verifhook.Set(func(point string) {
		me := current
		events <- schedEvent{thread: me, point: point}
		<-resume[me]
	})
	defer verifhook.Clear()

	for i := range threads {
		resume[i] = make(chan struct{})
		go func(i int) {
			<-resume[i]
			defer func() {
				if r := recover(); r != nil {
					events <- schedEvent{thread: i, done: true, panic: r}
					return
				}
				events <- schedEvent{thread: i, done: true}
			}()
			threads[i]()
		}(i)
	}

	alive := make([]int, n)
	for i := range alive {
		alive[i] = i
	}
	var trace []Step
	var panicked any
	k := 0
	for len(alive) > 0 {
		idx := 0
		if k < len(schedule) {
			c := schedule[k]
			if c < 0 {
				c = -c
			}
			idx = c % len(alive)
			k++
		}
		th := alive[idx]
		if onStep != nil {
			onStep(th)
		}
		current = th
		resume[th] <- struct{}{}
		ev := <-events
		if ev.thread != th {
			panic(fmt.Sprintf("vlib.RunSchedule: event from thread %d while %d was running", ev.thread, th))
		}
		nAlive := len(alive)
		if ev.done {
			trace = append(trace, Step{Thread: th, Alive: nAlive, Choice: idx})
			alive = append(alive[:idx], alive[idx+1:]...)
			if ev.panic != nil && panicked == nil {
				panicked = ev.panic
			}
		} else {
			trace = append(trace, Step{Thread: th, Point: ev.point, Alive: nAlive, Choice: idx})
		}
	}
	if panicked != nil {
		panic(panicked)
	}
	return trace
}

// EnumerateSchedules explores every schedule of a deterministic cooperative
// program depth-first (stateless search): run executes the program under the
// given schedule prefix (choices beyond the prefix default to 0) and returns
// its trace; visit (optional) sees each complete execution. To split the space
// over processes, the distinct choice-prefixes of depth splitDepth are listed
// first and shard s of shards takes every shards-th subtree. It returns the
// number of complete schedules this shard executed below its subtrees.
func EnumerateSchedules(run func(schedule []int) []Step, splitDepth, shard, shards int) int64 {
	if shards < 1 {
		shards = 1
	}
	prefixes := dfs(run, nil, splitDepth, nil)
	var count int64
	for i, p := range prefixes {
		if i%shards != shard {
			continue
		}
		dfs(run, p, -1, &count)
	}
	return count
}

// dfs enumerates schedules extending base. If limit >= 0 only the first limit
// positions are varied and the distinct prefixes (of length <= limit) are
// returned; otherwise every position after base is varied and *count is
// incremented per execution.
func dfs(run func([]int) []Step, base []int, limit int, count *int64) [][]int {
	var out [][]int
	prefix := append([]int{}, base...)
	for {
		trace := run(prefix)
		if count != nil {
			*count++
		}
		n := len(trace)
		if limit >= 0 && n > limit {
			n = limit
		}
		choices := make([]int, n)
		for i := 0; i < n; i++ {
			choices[i] = trace[i].Choice
		}
		if limit >= 0 {
			out = append(out, append([]int{}, choices...))
		}
		i := n - 1
		for i >= len(base) && choices[i]+1 >= trace[i].Alive {
			i--
		}
		if i < len(base) {
			return out
		}
		prefix = append(choices[:i:i], choices[i]+1)
	}
}
