package vlib

import (
	"fmt"

	"github.com/form3tech-oss/f1/v2/internal/verifhook"
)

// Step is one scheduling step of a cooperative run: thread Thread was resumed
// and ran until it parked at Point ("" = it finished).
type Step struct {
	Thread int
	Point  string
}

type schedEvent struct {
	thread int
	point  string
	done   bool
	panic  any
}

// RunSchedule runs the logical threads cooperatively: exactly one runs at a
// time and a thread only gives up control at a verifhook.Yield point. The
// schedule — a sequence of choices, each taken modulo the number of unfinished
// threads — decides which thread advances next; when it is exhausted the
// remaining threads run to completion in index order. The interleaving is thus
// a pure function of (threads, schedule): it replays and shrinks like any other
// generated value. Only non-blocking code may run inside threads.
//
// onStep, if not nil, is called (from the scheduler, while every thread is
// parked) before each resume with the index of the thread about to run.
func RunSchedule(threads []func(), schedule []int, onStep func(thread int)) []Step {
	n := len(threads)
	resume := make([]chan struct{}, n)
	events := make(chan schedEvent)
	current := -1

	verifhook.Set(func(point string) {
		me := current
		events <- schedEvent{thread: me, point: point}
		<-resume[me]
	})
	defer verifhook.Clear()

	for i := range threads {
		resume[i] = make(chan struct{})
		go func(i int) {
			<-resume[i]
			defer func() {
				if r := recover(); r != nil {
					events <- schedEvent{thread: i, done: true, panic: r}
					return
				}
				events <- schedEvent{thread: i, done: true}
			}()
			threads[i]()
		}(i)
	}

	alive := make([]int, n)
	for i := range alive {
		alive[i] = i
	}
	var trace []Step
	var panicked any
	k := 0
	for len(alive) > 0 {
		idx := 0
		if k < len(schedule) {
			c := schedule[k]
			if c < 0 {
				c = -c
			}
			idx = c % len(alive)
			k++
		}
		th := alive[idx]
		if onStep != nil {
			onStep(th)
		}
		current = th
		resume[th] <- struct{}{}
		ev := <-events
		if ev.thread != th {
			panic(fmt.Sprintf("vlib.RunSchedule: event from thread %d while %d was running", ev.thread, th))
		}
		if ev.done {
			trace = append(trace, Step{Thread: th})
			alive = append(alive[:idx], alive[idx+1:]...)
			if ev.panic != nil && panicked == nil {
				panicked = ev.panic
			}
		} else {
			trace = append(trace, Step{Thread: th, Point: ev.point})
		}
	}
	if panicked != nil {
		panic(panicked)
	}
	return trace
}
