package vlib

import (
	"fmt"
	"io"
	"log/slog"
	"os"
	"path/filepath"
	"sort"
	"strconv"
	"sync/atomic"

	"github.com/form3tech-oss/f1/v2/pkg/f1"
	f1testing "github.com/form3tech-oss/f1/v2/pkg/f1/testing"
)

var cliSeq atomic.Int64

// CLIArgs renders spec as the command line of `f1 run <mode> ...` (verbose, so that no log file is
// created). For file mode the config is written to spec.FileDir and its path returned for removal.
func CLIArgs(spec *RunSpec) (args []string, cfgPath string, err error) {
	if spec.Mode == "file" {
		if spec.FileDir == "" {
			return nil, "", fmt.Errorf("file mode needs FileDir")
		}
		cfgPath = filepath.Join(spec.FileDir, fmt.Sprintf("cli-config-%d.yaml", cliSeq.Add(1)))
		if err := os.WriteFile(cfgPath, []byte(spec.FileYAML), 0o600); err != nil {
			return nil, "", err
		}
		return []string{"run", "file", cfgPath, "-v"}, cfgPath, nil
	}
	args = []string{"run", spec.Mode, ScenarioName, "-v",
		"--max-duration", spec.Opts.MaxDuration.String(),
		"--concurrency", strconv.Itoa(spec.Opts.Concurrency),
		"--max-iterations", strconv.FormatUint(spec.Opts.MaxIterations, 10)}
	if spec.Opts.MaxFailures > 0 {
		args = append(args, "--max-failures", strconv.FormatUint(spec.Opts.MaxFailures, 10))
	}
	if spec.Opts.MaxFailuresRate > 0 {
		args = append(args, "--max-failures-rate", strconv.Itoa(spec.Opts.MaxFailuresRate))
	}
	if spec.Opts.IgnoreDropped {
		args = append(args, "--ignore-dropped")
	}
	keys := make([]string, 0, len(spec.Flags))
	for k := range spec.Flags {
		keys = append(keys, k)
	}
	sort.Strings(keys)
	for _, k := range keys {
		args = append(args, "--"+k, spec.Flags[k])
	}
	return args, "", nil
}

// ExecuteCLI performs the run described by spec through the public entry point
// f1.New().Add(...).ExecuteWithArgs, i.e. through the CLI's own mapping of flags (or of the config
// file's limits) onto run options. Only what the command reports comes back: verdict is nil for a
// passed run and the command's error otherwise; everything else must be observed by the scenario.
// The completion timeout is the CLI's fixed 10 s; spec.Ctx, spec.Output, spec.Metrics, spec.Trigger,
// spec.WaitTimeout and spec.LogFilePath do not apply.
func ExecuteCLI(spec *RunSpec) (verdict error, err error) {
	args, cfg, err := CLIArgs(spec)
	if err != nil {
		return nil, err
	}
	if cfg != "" {
		defer os.Remove(cfg)
	}
	return NewCLIApp(spec.ScenarioFn).ExecuteWithArgs(args), nil
}

// NewCLIApp returns an F1 instance with fn registered under ScenarioName and a discarding logger.
// Several ExecuteWithArgs calls on one instance are what a program embedding f1 (or a test suite of
// an f1 user) does; each must behave as if it were the only one.
func NewCLIApp(fn f1testing.ScenarioFn) *f1.F1 {
	return f1.New().WithLogger(slog.New(slog.NewTextHandler(io.Discard, nil))).Add(ScenarioName, fn)
}
